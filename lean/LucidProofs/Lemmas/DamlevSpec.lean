/-
  LucidProofs.Lemmas.DamlevSpec — recursive specification `DL.D` of the weighted Damerau-Levenshtein
  distance computed by `Lucid.distanceM` (`matching/damlev/mod.rs`), and its algebraic properties:
  symmetry, upper bounds (10·max, 10·Levenshtein), lower bound (5·unit-cost recurrence), zero iff equal,
  multiples of 5, monotonicity in the costs, dependence on prefixes only.
  Distances are in tenths (0.5 = 5, 1.0 = 10).
-/
import LucidModel.Damlev
import LucidProofs.Lemmas.Facts

namespace Lucid
namespace DL

/-- 1-based position of the last occurrence of `c` among the first `n` elements of `l`, 0 if none -/
def lastOcc (l : List Nat) : Nat → Nat → Nat
  | 0, _ => 0
  | n+1, c => if l.getD n 0 = c then n+1 else lastOcc l n c

theorem lastOcc_le (l : List Nat) (n c : Nat) : lastOcc l n c ≤ n := by
  induction n with
  | zero => simp [lastOcc]
  | succ n ih => unfold lastOcc; split <;> omega

theorem lastOcc_spec (l : List Nat) (n c : Nat) (h : lastOcc l n c ≠ 0) :
    l.getD (lastOcc l n c - 1) 0 = c := by
  induction n with
  | zero => simp [lastOcc] at h
  | succ n ih =>
    unfold lastOcc at h ⊢
    split
    · rename_i e; simpa using e
    · rename_i e; rw [if_neg e] at h; exact ih h

theorem lastOcc_ext (l l' : List Nat) (n c : Nat) (h : ∀ k, k < n → l.getD k 0 = l'.getD k 0) :
    lastOcc l n c = lastOcc l' n c := by
  induction n with
  | zero => simp [lastOcc]
  | succ n ih =>
    unfold lastOcc
    rw [h n (by omega), ih (fun k hk => h k (by omega))]

/-- the character repeats its predecessor -/
def dbl (w : CWord) (i : Nat) : Bool := decide (i > 0) && (w.c i == w.c (i - 1))

/-- insertion/deletion cost of character `i` of `w` -/
def indel (K : Consts) (w : CWord) (i : Nat) : Nat :=
  min (w.k i) (if dbl w i then K.costDouble else K.costSingle)

/-- substitution cost -/
def sub (a b : CWord) (i j : Nat) : Nat := if a.c i == b.c j then 0 else max (a.k i) (b.k j)

/-- the value the inner loop computes from the four cells it reads -/
def cellVal (K : Consts) (a b : CWord) (i j l1 l2 vadd vdel vsub vtr : Nat) : Nat :=
  min4 (indel K b j + vadd) (indel K a i + vdel) (sub a b i j + vsub)
       (K.costTrans * ((i - l1) + (j - l2) + 1) + vtr)

/-- Specification: distance between the first `i` characters of `a` and the first `j` characters of `b`. -/
def D (K : Consts) (a b : CWord) : Nat → Nat → Nat
  | 0, 0 => 0
  | i+1, 0 => D K a b i 0 + a.k i
  | 0, j+1 => D K a b 0 j + b.k j
  | i+1, j+1 =>
    let l1 := lastOcc a.ch i (b.c j)
    let l2 := lastOcc b.ch j (a.c i)
    if h : l1 = 0 ∨ l2 = 0 then
      min (min (indel K b j + D K a b (i+1) j) (indel K a i + D K a b i (j+1))) (sub a b i j + D K a b i j)
    else
      have : l1 - 1 + (l2 - 1) < i + 1 + (j + 1) := by
        have := lastOcc_le a.ch i (b.c j); have := lastOcc_le b.ch j (a.c i); omega
      cellVal K a b i j l1 l2 (D K a b (i+1) j) (D K a b i (j+1)) (D K a b i j) (D K a b (l1-1) (l2-1))
termination_by i j => i + j

theorem D_zero_zero (K : Consts) (a b : CWord) : D K a b 0 0 = 0 := by simp [D]
theorem D_succ_zero (K : Consts) (a b : CWord) (i) : D K a b (i+1) 0 = D K a b i 0 + a.k i := by rw [D]
theorem D_zero_succ (K : Consts) (a b : CWord) (j) : D K a b 0 (j+1) = D K a b 0 j + b.k j := by rw [D]

theorem D_succ_succ (K : Consts) (a b : CWord) (i j : Nat) :
    D K a b (i+1) (j+1) =
      if lastOcc a.ch i (b.c j) = 0 ∨ lastOcc b.ch j (a.c i) = 0 then
        min (min (indel K b j + D K a b (i+1) j) (indel K a i + D K a b i (j+1))) (sub a b i j + D K a b i j)
      else cellVal K a b i j (lastOcc a.ch i (b.c j)) (lastOcc b.ch j (a.c i))
        (D K a b (i+1) j) (D K a b i (j+1)) (D K a b i j)
        (D K a b (lastOcc a.ch i (b.c j) - 1) (lastOcc b.ch j (a.c i) - 1)) := by
  rw [D]; simp only []; split <;> rfl

/-- Induction principle following the recursion of `D`. -/
theorem D_ind (a b : CWord) (P : Nat → Nat → Prop)
    (h00 : P 0 0) (hi0 : ∀ i, P i 0 → P (i+1) 0) (h0j : ∀ j, P 0 j → P 0 (j+1))
    (hij : ∀ i j, P (i+1) j → P i (j+1) → P i j →
      (lastOcc a.ch i (b.c j) ≠ 0 → lastOcc b.ch j (a.c i) ≠ 0 →
        P (lastOcc a.ch i (b.c j) - 1) (lastOcc b.ch j (a.c i) - 1)) → P (i+1) (j+1)) :
    ∀ i j, P i j := by
  have key : ∀ n i j, i + j = n → P i j := by
    intro n
    induction n using Nat.strongRecOn with
    | _ n ih =>
      intro i j hn
      match i, j with
      | 0, 0 => exact h00
      | i+1, 0 => exact hi0 i (ih (i+0) (by omega) i 0 rfl)
      | 0, j+1 => exact h0j j (ih (0+j) (by omega) 0 j rfl)
      | i+1, j+1 =>
        refine hij i j (ih (i+1+j) (by omega) _ _ rfl) (ih (i+(j+1)) (by omega) _ _ rfl)
          (ih (i+j) (by omega) _ _ rfl) ?_
        intro _ _
        have := lastOcc_le a.ch i (b.c j); have := lastOcc_le b.ch j (a.c i)
        exact ih _ (by omega) _ _ rfl
  intro i j; exact key _ i j rfl

/-! ### symmetry -/

theorem sub_symm (a b : CWord) (i j : Nat) : sub a b i j = sub b a j i := by
  unfold sub
  by_cases h : a.c i = b.c j
  · simp [h]
  · have h' : ¬ b.c j = a.c i := fun e => h e.symm
    simp [h, h', Nat.max_comm]

theorem D_symm (K : Consts) (a b : CWord) : ∀ i j, D K a b i j = D K b a j i := by
  refine D_ind a b (fun i j => D K a b i j = D K b a j i) ?_ ?_ ?_ ?_
  · simp [D_zero_zero]
  · intro i ih; rw [D_succ_zero, D_zero_succ, ih]
  · intro j ih; rw [D_zero_succ, D_succ_zero, ih]
  · intro i j h1 h2 h3 h4
    rw [D_succ_succ, D_succ_succ, h1, h2, h3, sub_symm a b i j]
    by_cases h : lastOcc a.ch i (b.c j) = 0 ∨ lastOcc b.ch j (a.c i) = 0
    · rw [if_pos h, if_pos h.symm, Nat.min_comm (indel K b j + _)]
    · have h' : ¬ (lastOcc b.ch j (a.c i) = 0 ∨ lastOcc a.ch i (b.c j) = 0) := fun e => h e.symm
      rw [if_neg h, if_neg h', h4 (fun e => h (Or.inl e)) (fun e => h (Or.inr e))]
      unfold cellVal min4
      rw [sub_symm a b i j, Nat.min_comm (indel K b j + _), Nat.add_comm (i - _) (j - _)]

/-! ### hypotheses on the costs -/

/-- what the theorems need of the three global constants -/
structure KOK (K : Consts) : Prop where
  trans : K.costTrans = 5
  double : K.costDouble = 5
  single : K.costSingle = 10

theorem KOK_of_CostsOK (K : Consts) (h : CostsOK K = true) : KOK K := by
  simp only [CostsOK, Bool.and_eq_true, decide_eq_true_eq] at h
  exact ⟨by omega, by omega, by omega⟩

theorem getCost_pos (K : Consts) (h : CostsOK K = true) (c : CharClass) : 0 < getCost K c := by
  simp only [CostsOK, Bool.and_eq_true, decide_eq_true_eq] at h
  cases c <;> simp only [getCost] <;> omega

theorem getCost_le (K : Consts) (h : CostsOK K = true) (c : CharClass) : getCost K c ≤ 10 := by
  simp only [CostsOK, Bool.and_eq_true, decide_eq_true_eq] at h
  cases c <;> simp only [getCost] <;> omega

theorem getCost_mod5 (K : Consts) (h : CostsOK K = true) (c : CharClass) : getCost K c % 5 = 0 := by
  simp only [CostsOK, Bool.and_eq_true, decide_eq_true_eq] at h
  cases c <;> simp only [getCost] <;> omega

/-- every per-character cost of the word is at most 1.0 -/
def CostLe (w : CWord) : Prop := ∀ x ∈ w.cost, x ≤ 10
/-- every per-character cost of the word is positive -/
def CostPos (w : CWord) : Prop := ∀ x ∈ w.cost, 0 < x
/-- every per-character cost of the word is a multiple of 0.5 -/
def CostMul5 (w : CWord) : Prop := ∀ x ∈ w.cost, x % 5 = 0
/-- one cost per character -/
def Aligned (w : CWord) : Prop := w.cost.length = w.ch.length

theorem k_eq_getElem (w : CWord) (i : Nat) (h : i < w.cost.length) : w.k i = w.cost[i] := by
  simp [CWord.k, List.getD, h]

theorem k_le (w : CWord) (h : CostLe w) (i : Nat) : w.k i ≤ 10 := by
  by_cases hi : i < w.cost.length
  · rw [k_eq_getElem w i hi]; exact h _ (List.getElem_mem hi)
  · simp [CWord.k, List.getD, Nat.not_lt.mp hi]

theorem k_mod5 (w : CWord) (h : CostMul5 w) (i : Nat) : w.k i % 5 = 0 := by
  by_cases hi : i < w.cost.length
  · rw [k_eq_getElem w i hi]; exact h _ (List.getElem_mem hi)
  · simp [CWord.k, List.getD, Nat.not_lt.mp hi]

theorem k_pos (w : CWord) (h : CostPos w) (ha : Aligned w) (i : Nat) (hi : i < w.len) : 0 < w.k i := by
  have hi' : i < w.cost.length := by rw [ha]; exact hi
  rw [k_eq_getElem w i hi']; exact h _ (List.getElem_mem hi')

theorem k_ge5 (w : CWord) (h : CostPos w) (h5 : CostMul5 w) (ha : Aligned w) (i : Nat) (hi : i < w.len) :
    5 ≤ w.k i := by
  have := k_pos w h ha i hi; have := k_mod5 w h5 i; omega

theorem indel_le (K : Consts) (w : CWord) (h : CostLe w) (i : Nat) : indel K w i ≤ 10 := by
  have := k_le w h i; unfold indel; omega

theorem sub_le (a b : CWord) (ha : CostLe a) (hb : CostLe b) (i j : Nat) : sub a b i j ≤ 10 := by
  have := k_le a ha i; have := k_le b hb j; unfold sub; split <;> omega

/-! ### upper bounds -/

/-- Levenshtein-style upper bound, needed so that the sentinel never wins -/
theorem D_le (K : Consts) (a b : CWord) (ha : CostLe a) (hb : CostLe b) :
    ∀ i j, D K a b i j ≤ 10 * max i j := by
  refine D_ind a b (fun i j => D K a b i j ≤ 10 * max i j) ?_ ?_ ?_ ?_
  · simp [D_zero_zero]
  · intro i ih; rw [D_succ_zero]; have := k_le a ha i; omega
  · intro j ih; rw [D_zero_succ]; have := k_le b hb j; omega
  · intro i j _ _ h3 _
    have hs := sub_le a b ha hb i j
    rw [D_succ_succ]
    split
    · omega
    · unfold cellVal min4; omega

/-- plain Levenshtein distance (unit costs, no transposition) of the prefixes `a[..i]`, `b[..j]` -/
def lev (a b : List Nat) : Nat → Nat → Nat
  | 0, j => j
  | i+1, 0 => i+1
  | i+1, j+1 =>
    min (min (lev a b (i+1) j + 1) (lev a b i (j+1) + 1))
        (lev a b i j + if a.getD i 0 == b.getD j 0 then 0 else 1)

example : lev ("kitten".toList.map (·.toNat)) ("sitting".toList.map (·.toNat)) 6 7 = 3 := by simp [lev]

theorem D_le_lev (K : Consts) (a b : CWord) (ha : CostLe a) (hb : CostLe b) :
    ∀ i j, D K a b i j ≤ 10 * lev a.ch b.ch i j := by
  refine D_ind a b (fun i j => D K a b i j ≤ 10 * lev a.ch b.ch i j) ?_ ?_ ?_ ?_
  · simp [D_zero_zero]
  · intro i ih; rw [D_succ_zero]; have := k_le a ha i
    have e : lev a.ch b.ch (i+1) 0 = i + 1 := by simp [lev]
    have e' : lev a.ch b.ch i 0 = i := by cases i <;> simp [lev]
    omega
  · intro j ih; rw [D_zero_succ]; have := k_le b hb j
    have e : lev a.ch b.ch 0 (j+1) = j + 1 := by simp [lev]
    have e' : lev a.ch b.ch 0 j = j := by simp [lev]
    omega
  · intro i j h1 h2 h3 _
    have hia := indel_le K a ha i
    have hib := indel_le K b hb j
    have hs : sub a b i j ≤ 10 * (if a.ch.getD i 0 == b.ch.getD j 0 then 0 else 1) := by
      have := k_le a ha i; have := k_le b hb j
      unfold sub CWord.c; split <;> omega
    have e : lev a.ch b.ch (i+1) (j+1) = min (min (lev a.ch b.ch (i+1) j + 1) (lev a.ch b.ch i (j+1) + 1))
        (lev a.ch b.ch i j + if a.ch.getD i 0 == b.ch.getD j 0 then 0 else 1) := by rw [lev]
    rw [D_succ_succ, e]
    generalize (if a.ch.getD i 0 == b.ch.getD j 0 then 0 else 1) = t at hs
    split
    · omega
    · unfold cellVal min4; omega

/-! ### lower bound: the same recurrence at unit cost (unrestricted Damerau-Levenshtein, Lowrance-Wagner) -/

/-- unrestricted Damerau-Levenshtein distance of the prefixes `a[..i]`, `b[..j]`, unit costs
    (Lowrance-Wagner recurrence: a transposition across gaps costs the gap lengths plus one) -/
def DLunit (a b : List Nat) : Nat → Nat → Nat
  | 0, 0 => 0
  | i+1, 0 => DLunit a b i 0 + 1
  | 0, j+1 => DLunit a b 0 j + 1
  | i+1, j+1 =>
    let l1 := lastOcc a i (b.getD j 0)
    let l2 := lastOcc b j (a.getD i 0)
    let base := min (min (DLunit a b (i+1) j + 1) (DLunit a b i (j+1) + 1))
                    (DLunit a b i j + if a.getD i 0 == b.getD j 0 then 0 else 1)
    if h : l1 = 0 ∨ l2 = 0 then base
    else
      have : l1 - 1 + (l2 - 1) < i + 1 + (j + 1) := by
        have := lastOcc_le a i (b.getD j 0); have := lastOcc_le b j (a.getD i 0); omega
      min base (DLunit a b (l1-1) (l2-1) + ((i - l1) + (j - l2) + 1))
termination_by i j => i + j

-- "ca" → "abc" is 2 in the unrestricted metric (3 in the restricted one)
example : DLunit [99, 97] [97, 98, 99] 2 3 = 2 := by simp [DLunit, lastOcc]

theorem DLunit_succ_succ (a b : List Nat) (i j : Nat) :
    DLunit a b (i+1) (j+1) =
      if lastOcc a i (b.getD j 0) = 0 ∨ lastOcc b j (a.getD i 0) = 0 then
        min (min (DLunit a b (i+1) j + 1) (DLunit a b i (j+1) + 1))
            (DLunit a b i j + if a.getD i 0 == b.getD j 0 then 0 else 1)
      else
        min (min (min (DLunit a b (i+1) j + 1) (DLunit a b i (j+1) + 1))
                 (DLunit a b i j + if a.getD i 0 == b.getD j 0 then 0 else 1))
            (DLunit a b (lastOcc a i (b.getD j 0) - 1) (lastOcc b j (a.getD i 0) - 1) +
              ((i - lastOcc a i (b.getD j 0)) + (j - lastOcc b j (a.getD i 0)) + 1)) := by
  rw [DLunit]; simp only []; split <;> rfl

theorem DLunit_succ_succ' (a b : CWord) (i j : Nat) :
    DLunit a.ch b.ch (i+1) (j+1) =
      if lastOcc a.ch i (b.c j) = 0 ∨ lastOcc b.ch j (a.c i) = 0 then
        min (min (DLunit a.ch b.ch (i+1) j + 1) (DLunit a.ch b.ch i (j+1) + 1))
            (DLunit a.ch b.ch i j + if a.c i == b.c j then 0 else 1)
      else
        min (min (min (DLunit a.ch b.ch (i+1) j + 1) (DLunit a.ch b.ch i (j+1) + 1))
                 (DLunit a.ch b.ch i j + if a.c i == b.c j then 0 else 1))
            (DLunit a.ch b.ch (lastOcc a.ch i (b.c j) - 1) (lastOcc b.ch j (a.c i) - 1) +
              ((i - lastOcc a.ch i (b.c j)) + (j - lastOcc b.ch j (a.c i)) + 1)) :=
  DLunit_succ_succ a.ch b.ch i j

theorem indel_ge5 (K : Consts) (hK : KOK K) (w : CWord) (h : CostPos w) (h5 : CostMul5 w) (ha : Aligned w)
    (i : Nat) (hi : i < w.len) : 5 ≤ indel K w i := by
  have := k_ge5 w h h5 ha i hi
  unfold indel; rw [hK.double, hK.single]; split <;> omega

theorem D_ge_DLunit (K : Consts) (hK : KOK K) (a b : CWord)
    (ha : Aligned a) (hb : Aligned b) (hpa : CostPos a) (hpb : CostPos b) (h5a : CostMul5 a) (h5b : CostMul5 b) :
    ∀ i j, i ≤ a.len → j ≤ b.len → 5 * DLunit a.ch b.ch i j ≤ D K a b i j := by
  refine D_ind a b (fun i j => i ≤ a.len → j ≤ b.len → 5 * DLunit a.ch b.ch i j ≤ D K a b i j) ?_ ?_ ?_ ?_
  · intro _ _; simp [DLunit]
  · intro i ih hi hj
    have := k_ge5 a hpa h5a ha i (by omega)
    have e : DLunit a.ch b.ch (i+1) 0 = DLunit a.ch b.ch i 0 + 1 := by rw [DLunit]
    have := ih (by omega) hj
    rw [D_succ_zero, e]; omega
  · intro j ih hi hj
    have := k_ge5 b hpb h5b hb j (by omega)
    have e : DLunit a.ch b.ch 0 (j+1) = DLunit a.ch b.ch 0 j + 1 := by rw [DLunit]
    have := ih hi (by omega)
    rw [D_zero_succ, e]; omega
  · intro i j h1 h2 h3 h4 hi hj
    have h1 := h1 hi (by omega)
    have h2 := h2 (by omega) hj
    have h3 := h3 (by omega) (by omega)
    have hia := indel_ge5 K hK a hpa h5a ha i (by omega)
    have hib := indel_ge5 K hK b hpb h5b hb j (by omega)
    have hs : 5 * (if a.c i == b.c j then 0 else 1) ≤ sub a b i j := by
      have := k_ge5 a hpa h5a ha i (by omega)
      unfold sub; split <;> omega
    rw [D_succ_succ, DLunit_succ_succ']
    generalize (if a.c i == b.c j then 0 else 1) = t at hs
    by_cases h : lastOcc a.ch i (b.c j) = 0 ∨ lastOcc b.ch j (a.c i) = 0
    · rw [if_pos h, if_pos h]; omega
    · rw [if_neg h, if_neg h]
      have hl1 := lastOcc_le a.ch i (b.c j); have hl2 := lastOcc_le b.ch j (a.c i)
      have h4 := h4 (fun e => h (Or.inl e)) (fun e => h (Or.inr e)) (by omega) (by omega)
      unfold cellVal min4; rw [hK.trans]; omega

/-! ### multiples of 0.5 -/

theorem D_mod5 (K : Consts) (hK : KOK K) (a b : CWord) (h5a : CostMul5 a) (h5b : CostMul5 b) :
    ∀ i j, D K a b i j % 5 = 0 := by
  refine D_ind a b (fun i j => D K a b i j % 5 = 0) ?_ ?_ ?_ ?_
  · simp [D_zero_zero]
  · intro i ih; rw [D_succ_zero]; have := k_mod5 a h5a i; omega
  · intro j ih; rw [D_zero_succ]; have := k_mod5 b h5b j; omega
  · intro i j h1 h2 h3 h4
    have hia : indel K a i % 5 = 0 := by
      have := k_mod5 a h5a i; unfold indel; rw [hK.double, hK.single]; split <;> omega
    have hib : indel K b j % 5 = 0 := by
      have := k_mod5 b h5b j; unfold indel; rw [hK.double, hK.single]; split <;> omega
    have hs : sub a b i j % 5 = 0 := by
      have := k_mod5 a h5a i; have := k_mod5 b h5b j; unfold sub; split <;> omega
    rw [D_succ_succ]
    by_cases h : lastOcc a.ch i (b.c j) = 0 ∨ lastOcc b.ch j (a.c i) = 0
    · rw [if_pos h]; omega
    · rw [if_neg h]
      have h4 := h4 (fun e => h (Or.inl e)) (fun e => h (Or.inr e))
      unfold cellVal min4; rw [hK.trans]; omega

/-! ### zero exactly on equal prefixes -/

theorem D_eq_zero_iff (K : Consts) (hK : KOK K) (a b : CWord)
    (ha : Aligned a) (hb : Aligned b) (hpa : CostPos a) (hpb : CostPos b) :
    ∀ i j, i ≤ a.len → j ≤ b.len → (D K a b i j = 0 ↔ i = j ∧ ∀ k, k < i → a.c k = b.c k) := by
  refine D_ind a b (fun i j => i ≤ a.len → j ≤ b.len → (D K a b i j = 0 ↔ i = j ∧ ∀ k, k < i → a.c k = b.c k))
    ?_ ?_ ?_ ?_
  · intro _ _; simp [D_zero_zero]
  · intro i _ hi _
    have := k_pos a hpa ha i (by omega)
    rw [D_succ_zero]; constructor
    · intro h; omega
    · intro ⟨h, _⟩; omega
  · intro j _ _ hj
    have := k_pos b hpb hb j (by omega)
    rw [D_zero_succ]; constructor
    · intro h; omega
    · intro ⟨h, _⟩; omega
  · intro i j _ _ h3 _ hi hj
    have h3 := h3 (by omega) (by omega)
    have hka := k_pos a hpa ha i (by omega)
    have hkb := k_pos b hpb hb j (by omega)
    have hia : 0 < indel K a i := by unfold indel; rw [hK.double, hK.single]; split <;> omega
    have hib : 0 < indel K b j := by unfold indel; rw [hK.double, hK.single]; split <;> omega
    -- the value is zero iff the substitution branch is
    have hz : D K a b (i+1) (j+1) = 0 ↔ sub a b i j + D K a b i j = 0 := by
      rw [D_succ_succ]
      split
      · omega
      · unfold cellVal min4; rw [hK.trans]; omega
    rw [hz]
    have hsz : sub a b i j = 0 ↔ a.c i = b.c j := by
      unfold sub
      by_cases e : a.c i = b.c j
      · simp [e]
      · simp [e]; omega
    constructor
    · intro h
      have hs0 : sub a b i j = 0 := by omega
      have hd0 : D K a b i j = 0 := by omega
      obtain ⟨e, hk⟩ := h3.mp hd0
      refine ⟨by omega, ?_⟩
      intro k hk'
      by_cases ek : k = i
      · subst ek; subst e; exact hsz.mp hs0
      · exact hk k (by omega)
    · intro ⟨e, hk⟩
      have e' : i = j := by omega
      have := hsz.mpr (by subst e'; exact hk i (by omega))
      have := h3.mpr ⟨e', fun k hk' => hk k (by omega)⟩
      omega

theorem prefix_eq_iff (a b : CWord) :
    (a.len = b.len ∧ ∀ k, k < a.len → a.c k = b.c k) ↔ a.ch = b.ch := by
  constructor
  · intro ⟨h, hk⟩
    apply List.ext_getElem h
    intro n h1 h2
    have := hk n h1
    simpa [CWord.c, List.getD, h1, h2] using this
  · intro h
    simp [CWord.len, CWord.c, h]

/-! ### monotonicity in the costs: discounts can only lower the distance -/

theorem D_mono (K K' : Consts) (a a' b b' : CWord) (hca : a.ch = a'.ch) (hcb : b.ch = b'.ch)
    (hka : ∀ i, a.k i ≤ a'.k i) (hkb : ∀ j, b.k j ≤ b'.k j)
    (hT : K.costTrans ≤ K'.costTrans) (hD : K.costDouble ≤ K'.costDouble) (hS : K.costSingle ≤ K'.costSingle) :
    ∀ i j, D K a b i j ≤ D K' a' b' i j := by
  have ca : ∀ i, a'.c i = a.c i := by intro i; simp [CWord.c, hca]
  have cb : ∀ i, b'.c i = b.c i := by intro i; simp [CWord.c, hcb]
  refine D_ind a b (fun i j => D K a b i j ≤ D K' a' b' i j) ?_ ?_ ?_ ?_
  · simp [D_zero_zero]
  · intro i ih; rw [D_succ_zero, D_succ_zero]; have := hka i; omega
  · intro j ih; rw [D_zero_succ, D_zero_succ]; have := hkb j; omega
  · intro i j h1 h2 h3 h4
    have hia : indel K a i ≤ indel K' a' i := by
      have := hka i
      have e : dbl a' i = dbl a i := by simp [dbl, ca]
      unfold indel; rw [e]; split <;> omega
    have hib : indel K b j ≤ indel K' b' j := by
      have := hkb j
      have e : dbl b' j = dbl b j := by simp [dbl, cb]
      unfold indel; rw [e]; split <;> omega
    have hs : sub a b i j ≤ sub a' b' i j := by
      have := hka i; have := hkb j
      unfold sub; rw [ca, cb]; split <;> omega
    rw [D_succ_succ, D_succ_succ, ← hca, ← hcb, ca, cb]
    by_cases h : lastOcc a.ch i (b.c j) = 0 ∨ lastOcc b.ch j (a.c i) = 0
    · rw [if_pos h, if_pos h]; omega
    · rw [if_neg h, if_neg h]
      have h4 := h4 (fun e => h (Or.inl e)) (fun e => h (Or.inr e))
      have hm : K.costTrans * ((i - lastOcc a.ch i (b.c j)) + (j - lastOcc b.ch j (a.c i)) + 1) ≤
          K'.costTrans * ((i - lastOcc a.ch i (b.c j)) + (j - lastOcc b.ch j (a.c i)) + 1) :=
        Nat.mul_le_mul_right _ hT
      unfold cellVal min4; omega

/-! ### the value depends on the prefixes only -/

theorem D_ext (K : Consts) (a a' b b' : CWord) :
    ∀ i j, (∀ k, k < i → a.c k = a'.c k ∧ a.k k = a'.k k) → (∀ k, k < j → b.c k = b'.c k ∧ b.k k = b'.k k) →
      D K a b i j = D K a' b' i j := by
  refine D_ind a b (fun i j => (∀ k, k < i → a.c k = a'.c k ∧ a.k k = a'.k k) →
      (∀ k, k < j → b.c k = b'.c k ∧ b.k k = b'.k k) → D K a b i j = D K a' b' i j) ?_ ?_ ?_ ?_
  · intro _ _; simp [D_zero_zero]
  · intro i ih ha hb; rw [D_succ_zero, D_succ_zero, ih (fun k hk => ha k (by omega)) hb, (ha i (by omega)).2]
  · intro j ih ha hb; rw [D_zero_succ, D_zero_succ, ih ha (fun k hk => hb k (by omega)), (hb j (by omega)).2]
  · intro i j h1 h2 h3 h4 ha hb
    have ha' : ∀ k, k < i → a.c k = a'.c k ∧ a.k k = a'.k k := fun k hk => ha k (by omega)
    have hb' : ∀ k, k < j → b.c k = b'.c k ∧ b.k k = b'.k k := fun k hk => hb k (by omega)
    have h1 := h1 ha hb'
    have h2 := h2 ha' hb
    have h3 := h3 ha' hb'
    have eai := ha i (by omega)
    have ebj := hb j (by omega)
    have hia : indel K a i = indel K a' i := by
      have e : dbl a i = dbl a' i := by
        unfold dbl
        by_cases hi : i > 0
        · rw [eai.1, (ha (i-1) (by omega)).1]
        · simp [hi]
      unfold indel; rw [e, eai.2]
    have hib : indel K b j = indel K b' j := by
      have e : dbl b j = dbl b' j := by
        unfold dbl
        by_cases hj : j > 0
        · rw [ebj.1, (hb (j-1) (by omega)).1]
        · simp [hj]
      unfold indel; rw [e, ebj.2]
    have hs : sub a b i j = sub a' b' i j := by unfold sub; rw [eai.1, eai.2, ebj.1, ebj.2]
    have el1 : lastOcc a.ch i (b.c j) = lastOcc a'.ch i (b'.c j) := by
      rw [ebj.1]; exact lastOcc_ext _ _ _ _ (fun k hk => (ha' k hk).1)
    have el2 : lastOcc b.ch j (a.c i) = lastOcc b'.ch j (a'.c i) := by
      rw [eai.1]; exact lastOcc_ext _ _ _ _ (fun k hk => (hb' k hk).1)
    rw [D_succ_succ, D_succ_succ, ← el1, ← el2, ← h1, ← h2, ← h3]
    by_cases h : lastOcc a.ch i (b.c j) = 0 ∨ lastOcc b.ch j (a.c i) = 0
    · rw [if_pos h, if_pos h, ← hia, ← hib, ← hs]
    · rw [if_neg h, if_neg h]
      have hl1 := lastOcc_le a.ch i (b.c j); have hl2 := lastOcc_le b.ch j (a.c i)
      have h4 := h4 (fun e => h (Or.inl e)) (fun e => h (Or.inr e))
        (fun k hk => ha k (by omega)) (fun k hk => hb k (by omega))
      unfold cellVal
      rw [← h4, ← hia, ← hib, ← hs]

/-- the word cut to its first `n` characters -/
def pre (w : CWord) (n : Nat) : CWord := { ch := w.ch.take n, cost := w.cost.take n }

theorem pre_c (w : CWord) (n k : Nat) (h : k < n) : (pre w n).c k = w.c k := by
  simp [pre, CWord.c, List.getD, h]

theorem pre_k (w : CWord) (n k : Nat) (h : k < n) : (pre w n).k k = w.k k := by
  simp [pre, CWord.k, List.getD, h]

theorem pre_len (w : CWord) (n : Nat) (h : n ≤ w.len) : (pre w n).len = n := by
  simp [pre, CWord.len] at *; omega

theorem D_pre (K : Consts) (a b : CWord) (i j : Nat) : D K a b i j = D K (pre a i) (pre b j) i j :=
  D_ext K a (pre a i) b (pre b j) i j (fun k hk => ⟨(pre_c a i k hk).symm, (pre_k a i k hk).symm⟩)
    (fun k hk => ⟨(pre_c b j k hk).symm, (pre_k b j k hk).symm⟩)

end DL
end Lucid
