/-
  LucidProofs.Lemmas.StableText2 — two stable words typed with ONE separator between them.

  For `Stable` character lists `a`, `b` (`Lemmas/StableText.lean`) and a separator character `sep` that is its
  own lower-case form and occurs in no key of the language's compose / reduce tables (`SepFreeTables`),
  `tokenize_query` of the typed string `a ++ [sep] ++ b` is computed exactly (`tokenizeQuery_split`): the two
  words `(0, |a|)` (finished) and `(|a|+1, |a|+1+|b|)` (unfinished) over the unchanged characters, the class of
  the separator position being `classOf E sep`. This discharges the tokenizer premises of the split-spelling
  theorem `C14_split_found_tokenized` (`C14b.lean`).
-/
import LucidProofs.Lemmas.StableText

namespace Lucid

/-! ### the normaliser on `a ++ [sep] ++ b` -/

/-- no key of the normalisation table contains the character `sep` -/
def sepFree (m : List (List Nat × List Nat)) (sep : Nat) : Bool := m.all (fun e => !(e.1.contains sep))

/-- `sep` takes part in no pattern of the language's compose and reduce tables -/
def SepFreeTables (T : LangTables) (sep : Nat) : Bool := sepFree T.compose sep && sepFree T.reduce sep

theorem mapGet_none_of_sepFree (m : List (List Nat × List Nat)) (sep : Nat) (hm : sepFree m sep = true)
    (k : List Nat) (hk : sep ∈ k) : mapGet m k = none := by
  cases h : mapGet m k with
  | none => rfl
  | some v =>
    have hmem := mapGet_mem m k v h
    have := List.all_eq_true.1 hm _ hmem
    simp [hk] at this

theorem normChunks_sep_cons (m : List (List Nat × List Nat)) (sep : Nat) (hm : sepFree m sep = true)
    (b : List Nat) : normChunks m (sep :: b) = ([sep], [sep]) :: normChunks m b := by
  have e1 : mapGet m [sep] = none := mapGet_none_of_sepFree m sep hm [sep] (by simp)
  cases b with
  | nil => simp [normChunks, e1]
  | cons c rest =>
    have e2 : mapGet m [sep, c] = none := mapGet_none_of_sepFree m sep hm [sep, c] (by simp)
    simp [normChunks, e1, e2]

/-- the normaliser works on `a` and on `b` separately and passes `sep` through -/
theorem normChunks_append_sep (m : List (List Nat × List Nat)) (sep : Nat) (hm : sepFree m sep = true) :
    ∀ (a b : List Nat),
      normChunks m (a ++ sep :: b) = normChunks m a ++ ([sep], [sep]) :: normChunks m b
  | [], b => by simpa [normChunks] using normChunks_sep_cons m sep hm b
  | [x], b => by
    have e2 : mapGet m [x, sep] = none := mapGet_none_of_sepFree m sep hm [x, sep] (by simp)
    have hs := normChunks_sep_cons m sep hm b
    show normChunks m (x :: sep :: b) = _
    cases hx : mapGet m [x] with
    | none => simp [normChunks, e2, hx, hs]
    | some r => simp [normChunks, e2, hx, hs]
  | x :: y :: rest, b => by
    show normChunks m (x :: y :: (rest ++ sep :: b)) = _
    cases hxy : mapGet m [x, y] with
    | some r =>
      simp only [normChunks, hxy]
      rw [normChunks_append_sep m sep hm rest b]
      rfl
    | none =>
      have := normChunks_append_sep m sep hm (y :: rest) b
      cases hx : mapGet m [x] with
      | none =>
        simp only [normChunks, hxy, hx]
        rw [← List.cons_append, this]
        rfl
      | some r =>
        simp only [normChunks, hxy, hx]
        rw [← List.cons_append, this]
        rfl

theorem composeWith_append_sep (m : List (List Nat × List Nat)) (sep : Nat) (hm : sepFree m sep = true)
    (a b : List Nat) : composeWith m (a ++ sep :: b) = composeWith m a ++ sep :: composeWith m b := by
  simp [composeWith, normChunks_append_sep m sep hm]

theorem reduceWith_none_iff (m : List (List Nat × List Nat)) (w : List Nat) :
    reduceWith m w = none ↔ composeWith m w = w := by
  simp only [reduceWith, composeWith]
  split <;> simp_all

theorem compose_append_sep (T : LangTables) (sep : Nat) (hT : SepFreeTables T sep = true) (a b : List Nat)
    (ha : compose T a = a) (hb : compose T b = b) : compose T (a ++ sep :: b) = a ++ sep :: b := by
  simp only [SepFreeTables, Bool.and_eq_true] at hT
  simp only [compose] at *
  rw [composeWith_append_sep _ _ hT.1, ha, hb]

theorem reduce_append_sep (T : LangTables) (sep : Nat) (hT : SepFreeTables T sep = true) (a b : List Nat)
    (ha : reduce T a = none) (hb : reduce T b = none) : reduce T (a ++ sep :: b) = none := by
  simp only [SepFreeTables, Bool.and_eq_true] at hT
  simp only [reduce, reduceWith_none_iff] at *
  rw [composeWith_append_sep _ _ hT.2, ha, hb]

/-! ### the split step -/

theorem splitSpans_some_append (isSep : Nat → Bool) (a : List Nat) (sep : Nat) (b : List Nat) (pos s : Nat)
    (ha : ∀ c ∈ a, isSep c = false) (hsep : isSep sep = true) :
    splitSpans isSep (a ++ sep :: b) pos (some s) =
      (s, pos + a.length) :: splitSpans isSep b (pos + a.length + 1) none := by
  induction a generalizing pos with
  | nil => simp [splitSpans, hsep]
  | cons c a ih =>
    have hc : isSep c = false := ha c (List.mem_cons_self ..)
    simp only [List.cons_append, splitSpans, hc, Bool.false_eq_true, if_false]
    rw [ih (pos + 1) (fun c hc => ha c (List.mem_cons_of_mem _ hc))]
    simp only [List.length_cons]
    have e : pos + 1 + a.length = pos + (a.length + 1) := by omega
    rw [e]

/-- two separator-free runs with one separator between them are two spans -/
theorem splitSpans_two (isSep : Nat → Bool) (a : List Nat) (sep : Nat) (b : List Nat)
    (hna : a ≠ []) (ha : ∀ c ∈ a, isSep c = false) (hsep : isSep sep = true)
    (hnb : b ≠ []) (hb : ∀ c ∈ b, isSep c = false) :
    splitSpans isSep (a ++ sep :: b) 0 none = [(0, a.length), (a.length + 1, a.length + 1 + b.length)] := by
  cases a with
  | nil => exact absurd rfl hna
  | cons c a =>
    have hc : isSep c = false := ha c (List.mem_cons_self ..)
    simp only [List.cons_append, splitSpans, hc, Bool.false_eq_true, if_false]
    rw [splitSpans_some_append isSep a sep b (0 + 1) 0 (fun c hc => ha c (List.mem_cons_of_mem _ hc)) hsep,
      splitSpans_nosep_none isSep b _ hnb hb]
    simp only [List.length_cons]
    have e : 0 + 1 + a.length = a.length + 1 := by omega
    rw [e]

/-! ### slices of `a ++ sep :: b` -/

theorem slice_two_left (a : List Nat) (sep : Nat) (b : List Nat) : slice (a ++ sep :: b) 0 a.length = a := by
  simp [slice]

theorem slice_two_right (a : List Nat) (sep : Nat) (b : List Nat) :
    slice (a ++ sep :: b) (a.length + 1) (a.length + 1 + b.length) = b := by
  have : List.drop (a.length + 1) (a ++ sep :: b) = b := by
    rw [List.drop_append]; simp
  simp [slice, this]

theorem getElem?_two_sep (a : List Nat) (sep : Nat) (b : List Nat) : (a ++ sep :: b)[a.length]? = some sep := by
  simp

/-! ### the pipeline, step by step -/

/-- the text after the `split` step of the query pipeline -/
def twoWords (a : List Nat) (sep : Nat) (b : List Nat) : Text :=
  { words := [{ offset := 0, lo := 0, hi := a.length, stem := a.length, pos := none, fin := true },
              { offset := 1, lo := a.length + 1, hi := a.length + 1 + b.length, stem := b.length, pos := none,
                fin := false }],
    source := a ++ sep :: b, chars := a ++ sep :: b, classes := (a ++ sep :: b).map (fun _ => CharClass.any) }

/-- first word of the tokenised query -/
def splitW0 (E : Env) (a : List Nat) : WordShape :=
  { offset := 0, lo := 0, hi := a.length, stem := if E.T.stemmer then E.stem a else a.length,
    pos := getPos E.T a, fin := true }

/-- second word of the tokenised query -/
def splitW1 (E : Env) (a b : List Nat) : WordShape :=
  { offset := 1, lo := a.length + 1, hi := a.length + 1 + b.length,
    stem := if E.T.stemmer then E.stem b else b.length, pos := getPos E.T b, fin := false }

/-- the result of the query pipeline on `a ++ [sep] ++ b` -/
def splitText (E : Env) (a : List Nat) (sep : Nat) (b : List Nat) : Text :=
  { words := [splitW0 E a, splitW1 E a b], source := a ++ sep :: b, chars := a ++ sep :: b,
    classes := (a ++ sep :: b).map (classOf E) }

theorem split_oneWord_two (E : Env) (a : List Nat) (sep : Nat) (b : List Nat)
    (hna : a ≠ []) (ha : ∀ c ∈ a, isSepChar E.U E.K c = false) (hsep : isSepChar E.U E.K sep = true)
    (hnb : b ≠ []) (hb : ∀ c ∈ b, isSepChar E.U E.K c = false) :
    (oneWord (a ++ sep :: b) false).split E [CharClass.whitespace, CharClass.control, CharClass.punctuation] =
      twoWords a sep b := by
  simp only [Text.split, oneWord, List.map_cons, List.map_nil, List.flatten_cons, List.flatten_nil,
    List.append_nil, splitWord, patMatches_sep, slice_full]
  rw [splitSpans_two _ a sep b hna ha hsep hnb hb]
  simp [renumber, WordShape.len, twoWords]
  omega

theorem strip_twoWords (E : Env) (a : List Nat) (sep : Nat) (b : List Nat)
    (hna : a ≠ []) (ha1 : a.head?.map E.U.isAlnum = some true) (ha2 : a.getLast?.map E.U.isAlnum = some true)
    (hnb : b ≠ []) (hb1 : b.head?.map E.U.isAlnum = some true) (hb2 : b.getLast?.map E.U.isAlnum = some true) :
    (twoWords a sep b).strip E [CharClass.notAlphaNum] = twoWords a sep b := by
  have hla : 0 < a.length := List.length_pos_iff.2 hna
  have hlb : 0 < b.length := List.length_pos_iff.2 hnb
  have ea1 : a.takeWhile (fun c => !E.U.isAlnum c) = [] := takeWhile_head_false _ _ (head?_map_not _ _ ha1)
  have ea2 : a.reverse.takeWhile (fun c => !E.U.isAlnum c) = [] := by
    apply takeWhile_head_false; apply head?_map_not; rw [List.head?_reverse]; exact ha2
  have eb1 : b.takeWhile (fun c => !E.U.isAlnum c) = [] := takeWhile_head_false _ _ (head?_map_not _ _ hb1)
  have eb2 : b.reverse.takeWhile (fun c => !E.U.isAlnum c) = [] := by
    apply takeWhile_head_false; apply head?_map_not; rw [List.head?_reverse]; exact hb2
  simp only [Text.strip, twoWords, List.map_cons, List.map_nil, stripWord, patMatches_notAlnum,
    slice_two_left, slice_two_right, ea1, ea2, eb1, eb2, List.length_nil, List.take_nil, Nat.add_zero, Nat.sub_zero,
    ne_eq, not_true_eq_false, decide_false, Bool.or_false]
  simp [renumber, WordShape.len, hla, hlb]

theorem lower_twoWords (E : Env) (a : List Nat) (sep : Nat) (b : List Nat)
    (ha : ∀ c ∈ a, E.U.lower1 c = c) (hsep : E.U.lower1 sep = sep) (hb : ∀ c ∈ b, E.U.lower1 c = c) :
    (twoWords a sep b).lower E = twoWords a sep b := by
  have : (twoWords a sep b).chars.map E.U.lower1 = (twoWords a sep b).chars := by
    apply map_lower_fixed
    intro c hc
    simp only [twoWords, List.mem_append, List.mem_cons] at hc
    rcases hc with h | rfl | h
    · exact ha c h
    · exact hsep
    · exact hb c h
  simp only [Text.lower, this]

theorem tail_twoWords (E : Env) (a : List Nat) (sep : Nat) (b : List Nat) :
    ((((twoWords a sep b).setPos E).setCharClasses E).setStem E) = splitText E a sep b := by
  simp only [Text.setPos, Text.setCharClasses, Text.setStem, twoWords, splitText, splitW0, splitW1, List.map_cons,
    List.map_nil, slice_two_left, slice_two_right, WordShape.len]
  simp

/-- **`tokenize_query` on two stable words typed with one separator between them.** -/
theorem tokenizeQuery_split (E : Env) (a : List Nat) (sep : Nat) (b : List Nat)
    (ha : Stable E a) (hb : Stable E b) (hsep : isSepChar E.U E.K sep = true) (hlow : E.U.lower1 sep = sep)
    (hT : SepFreeTables E.T sep = true) :
    tokenizeQuery Gen.srcProg E (a ++ sep :: b) = splitText E a sep b := by
  show ((((((((Text.fromChars (a ++ sep :: b)).normalize E).setFin false).split E _).strip E _).lower E).setPos E
    ).setCharClasses E).setStem E = _
  rw [normalize_stable E _ (compose_append_sep E.T sep hT a b ha.compose_id hb.compose_id)
      (reduce_append_sep E.T sep hT a b ha.reduce_none hb.reduce_none),
    setFin_oneWord, split_oneWord_two E a sep b ha.nonempty ha.no_sep hsep hb.nonempty hb.no_sep,
    strip_twoWords E a sep b ha.nonempty ha.first_alnum ha.last_alnum hb.nonempty hb.first_alnum hb.last_alnum,
    lower_twoWords E a sep b ha.lower_fixed hlow hb.lower_fixed, tail_twoWords]

theorem splitText_words (E : Env) (a : List Nat) (sep : Nat) (b : List Nat) :
    (splitText E a sep b).words = [splitW0 E a, splitW1 E a b] := rfl
theorem splitText_chars (E : Env) (a : List Nat) (sep : Nat) (b : List Nat) :
    (splitText E a sep b).chars = a ++ sep :: b := rfl
theorem wchars_splitText_0 (E : Env) (a : List Nat) (sep : Nat) (b : List Nat) :
    wchars (splitText E a sep b) (splitW0 E a) = a := slice_two_left a sep b
theorem wchars_splitText_1 (E : Env) (a : List Nat) (sep : Nat) (b : List Nat) :
    wchars (splitText E a sep b) (splitW1 E a b) = b := slice_two_right a sep b

/-- The statement in the form the split-spelling theorem consumes: exactly two words `q0` (finished, characters
    `a`) and `q1` (unfinished, characters `b`), `q1` starting one position after the end of `q0`; that position
    holds `sep` with class `classOf E sep`. -/
theorem tokenizeQuery_split_words (E : Env) (a : List Nat) (sep : Nat) (b : List Nat)
    (ha : Stable E a) (hb : Stable E b) (hsep : isSepChar E.U E.K sep = true) (hlow : E.U.lower1 sep = sep)
    (hT : SepFreeTables E.T sep = true) :
    ∃ q0 q1, (tokenizeQuery Gen.srcProg E (a ++ sep :: b)).words = [q0, q1] ∧
      q0.fin = true ∧ q1.fin = false ∧ q0.lo = 0 ∧ q0.hi = a.length ∧ q1.lo = q0.hi + 1 ∧
      q1.hi = a.length + 1 + b.length ∧
      (tokenizeQuery Gen.srcProg E (a ++ sep :: b)).chars = a ++ sep :: b ∧
      wchars (tokenizeQuery Gen.srcProg E (a ++ sep :: b)) q0 = a ∧
      wchars (tokenizeQuery Gen.srcProg E (a ++ sep :: b)) q1 = b ∧
      (tokenizeQuery Gen.srcProg E (a ++ sep :: b)).chars[q0.hi]? = some sep ∧
      (tokenizeQuery Gen.srcProg E (a ++ sep :: b)).classes[q0.hi]? = some (classOf E sep) := by
  rw [tokenizeQuery_split E a sep b ha hb hsep hlow hT]
  refine ⟨splitW0 E a, splitW1 E a b, rfl, rfl, rfl, rfl, rfl, rfl, rfl, rfl, wchars_splitText_0 E a sep b,
    wchars_splitText_1 E a sep b, getElem?_two_sep a sep b, ?_⟩
  show ((a ++ sep :: b).map (classOf E))[a.length]? = _
  rw [List.getElem?_map, getElem?_two_sep]; rfl

/-! ### the ASCII case: `sep` = space -/

/-- Oracle hypothesis about Rust's `std` on U+0020: it is whitespace and `to_lowercase` leaves it alone. -/
structure SpaceFacts (U : Unicode) : Prop where
  space_ws    : U.isWhitespace 32 = true
  space_lower : U.lower1 32 = 32

theorem SpaceFacts.sep {U : Unicode} (h : SpaceFacts U) (K : Consts) : isSepChar U K 32 = true := by
  simp [isSepChar, h.space_ws]

/-- the space occurs in no key of the language's normalisation tables and has no consonant/vowel class -/
def SpaceFreeTables (T : LangTables) : Bool := SepFreeTables T 32 && (getCharClass T 32).isNone

theorem spaceFree_none : SpaceFreeTables Gen.lang_none = true := by decide
theorem spaceFree_de : SpaceFreeTables Gen.lang_de = true := by decide
theorem spaceFree_en : SpaceFreeTables Gen.lang_en = true := by decide
theorem spaceFree_es : SpaceFreeTables Gen.lang_es = true := by decide
theorem spaceFree_fr : SpaceFreeTables Gen.lang_fr = true := by decide
theorem spaceFree_pt : SpaceFreeTables Gen.lang_pt = true := by decide
theorem spaceFree_ru : SpaceFreeTables Gen.lang_ru = true := by decide

theorem toyU_spaceFacts : SpaceFacts toyU := ⟨by decide, by decide⟩

/-! ### non-vacuity -/

example : (tokenizeQuery Gen.srcProg (toyEnv Gen.lang_en) [97, 98, 32, 99, 100]).words =
    [{ offset := 0, lo := 0, hi := 2, stem := 1, pos := none, fin := true },
     { offset := 1, lo := 3, hi := 5, stem := 1, pos := none, fin := false }] := by
  rw [show ([97, 98, 32, 99, 100] : List Nat) = [97, 98] ++ 32 :: [99, 100] from rfl,
    tokenizeQuery_split _ _ _ _ (by decide +kernel) (by decide +kernel) (by decide +kernel) (by decide +kernel)
      (by decide +kernel)]
  decide +kernel

end Lucid
