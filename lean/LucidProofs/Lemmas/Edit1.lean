/-
  LucidProofs.Lemmas.Edit1 — one typing error on a list of characters (`Edit1 w w'`: substitute one character by a
  different one, insert one, delete one, swap two adjacent different ones) and what it does to the quantities the
  matcher looks at:
  * lengths differ by at most one (`Edit1.length_le`, `Edit1.length_ge`);
  * each side has at most one character value the other side lacks (`Edit1.extra_left`, `Edit1.extra_right`);
  * the two words share a gram of `Lucid.trigrams` when the original has at least five characters
    (`Edit1.shares_gram`);
  * plain Levenshtein distance `DL.lev ≤ 1` for substitution / insertion / deletion (`Edit1.lev_le_one`);
  * weighted Damerau-Levenshtein distance of the model, `DL.D ≤ 10` (one full-cost typo) for all four kinds, by
    exhibiting an edit path (`DL.D_edit1_le`); a swap costs at most `costTrans = 5` (`DL.D_swap_le`).
-/
import LucidModel.Index
import LucidProofs.Lemmas.DamlevSpec

namespace Lucid

/-- `Edit1 w w'`: `w'` is `w` with one typing error -/
inductive Edit1 : List Nat → List Nat → Prop where
  | sub (x y : List Nat) (a b : Nat) (h : a ≠ b) : Edit1 (x ++ a :: y) (x ++ b :: y)
  | ins (x y : List Nat) (c : Nat) : Edit1 (x ++ y) (x ++ c :: y)
  | del (x y : List Nat) (c : Nat) : Edit1 (x ++ c :: y) (x ++ y)
  | swap (x y : List Nat) (a b : Nat) (h : a ≠ b) : Edit1 (x ++ a :: b :: y) (x ++ b :: a :: y)

namespace Edit1

/-- the four kinds come in inverse pairs -/
theorem symm {w w' : List Nat} (h : Edit1 w w') : Edit1 w' w := by
  cases h with
  | sub x y a b h => exact sub x y b a (fun e => h e.symm)
  | ins x y c => exact del x y c
  | del x y c => exact ins x y c
  | swap x y a b h => exact swap x y b a (fun e => h e.symm)

theorem length_le {w w' : List Nat} (h : Edit1 w w') : w'.length ≤ w.length + 1 := by
  cases h <;> simp only [List.length_append, List.length_cons] <;> omega

theorem length_ge {w w' : List Nat} (h : Edit1 w w') : w.length ≤ w'.length + 1 := h.symm.length_le

/-- at most one character value of `w` is missing from `w'` -/
theorem extra_left {w w' : List Nat} (h : Edit1 w w') : ∃ c, ∀ z, z ∈ w → z ∉ w' → z = c := by
  cases h with
  | sub x y a b h =>
    refine ⟨a, ?_⟩
    intro z hz hz'
    simp only [List.mem_append, List.mem_cons, not_or] at hz hz'
    rcases hz with hz | hz | hz
    · exact absurd hz hz'.1
    · exact hz
    · exact absurd hz hz'.2.2
  | ins x y c =>
    refine ⟨0, ?_⟩
    intro z hz hz'
    simp only [List.mem_append, List.mem_cons, not_or] at hz hz'
    rcases hz with hz | hz
    · exact absurd hz hz'.1
    · exact absurd hz hz'.2.2
  | del x y c =>
    refine ⟨c, ?_⟩
    intro z hz hz'
    simp only [List.mem_append, List.mem_cons, not_or] at hz hz'
    rcases hz with hz | hz | hz
    · exact absurd hz hz'.1
    · exact hz
    · exact absurd hz hz'.2
  | swap x y a b h =>
    refine ⟨0, ?_⟩
    intro z hz hz'
    simp only [List.mem_append, List.mem_cons, not_or] at hz hz'
    rcases hz with hz | hz | hz | hz
    · exact absurd hz hz'.1
    · exact absurd hz hz'.2.2.1
    · exact absurd hz hz'.2.1
    · exact absurd hz hz'.2.2.2

/-- at most one character value of `w'` is missing from `w` -/
theorem extra_right {w w' : List Nat} (h : Edit1 w w') : ∃ c, ∀ z, z ∈ w' → z ∉ w → z = c := h.symm.extra_left

/-! ### the shared gram -/

theorem mem_windows3_cons {g : Gram} (c : Nat) : ∀ (l : List Nat), g ∈ windows3 l → g ∈ windows3 (c :: l)
  | [], h => by simp [windows3] at h
  | [_], h => by simp [windows3] at h
  | [_, _], h => by simp [windows3] at h
  | a :: b :: d :: rest, h => by
    rw [windows3]
    exact List.mem_cons_of_mem _ h

theorem mem_trigrams_of_windows3 {g : Gram} {l : List Nat} (h : g ∈ windows3 l) : g ∈ trigrams l := by
  unfold trigrams
  exact List.mem_append_right _ h

theorem head_gram (c : Nat) (l : List Nat) : (c, 0, 0) ∈ trigrams (c :: l) := by
  cases l with
  | nil => simp [trigrams]
  | cons b t => simp [trigrams]

theorem window_head (a b c : Nat) (l : List Nat) : (a, b, c) ∈ windows3 (a :: b :: c :: l) := by
  rw [windows3]; exact List.mem_cons_self

/-- **gram lemma**: a word of at least five characters and the same word with one typing error share a gram.
    An error after the first character leaves the gram `(c0, NUL, NUL)`; an error at the first character leaves a
    window of three untouched characters further right. -/
theorem shares_gram {w w' : List Nat} (h : Edit1 w w') (hlen : 5 ≤ w.length) :
    ∃ g, g ∈ trigrams w ∧ g ∈ trigrams w' := by
  cases h with
  | sub x y a b h =>
    cases x with
    | cons c0 x' => exact ⟨(c0, 0, 0), head_gram _ _, head_gram _ _⟩
    | nil =>
      match y, hlen with
      | y0 :: y1 :: y2 :: rest, _ =>
        exact ⟨(y0, y1, y2), mem_trigrams_of_windows3 (mem_windows3_cons _ _ (window_head _ _ _ _)),
          mem_trigrams_of_windows3 (mem_windows3_cons _ _ (window_head _ _ _ _))⟩
      | [], h | [_], h | [_, _], h => simp at h
  | ins x y c =>
    cases x with
    | cons c0 x' => exact ⟨(c0, 0, 0), head_gram _ _, head_gram _ _⟩
    | nil =>
      match y, hlen with
      | y0 :: y1 :: y2 :: rest, _ =>
        exact ⟨(y0, y1, y2), mem_trigrams_of_windows3 (window_head _ _ _ _),
          mem_trigrams_of_windows3 (mem_windows3_cons _ _ (window_head _ _ _ _))⟩
      | [], h | [_], h | [_, _], h => simp at h
  | del x y c =>
    cases x with
    | cons c0 x' => exact ⟨(c0, 0, 0), head_gram _ _, head_gram _ _⟩
    | nil =>
      match y, hlen with
      | y0 :: y1 :: y2 :: rest, _ =>
        exact ⟨(y0, y1, y2), mem_trigrams_of_windows3 (mem_windows3_cons _ _ (window_head _ _ _ _)),
          mem_trigrams_of_windows3 (window_head _ _ _ _)⟩
      | [], h | [_], h | [_, _], h => simp at h
  | swap x y a b h =>
    cases x with
    | cons c0 x' => exact ⟨(c0, 0, 0), head_gram _ _, head_gram _ _⟩
    | nil =>
      match y, hlen with
      | y0 :: y1 :: y2 :: rest, _ =>
        exact ⟨(y0, y1, y2),
          mem_trigrams_of_windows3 (mem_windows3_cons _ _ (mem_windows3_cons _ _ (window_head _ _ _ _))),
          mem_trigrams_of_windows3 (mem_windows3_cons _ _ (mem_windows3_cons _ _ (window_head _ _ _ _)))⟩
      | [], h | [_], h | [_, _], h => simp at h

end Edit1

/-! ### reading characters of `x ++ …` -/

theorem getD_append_lt (x l : List Nat) (k : Nat) (h : k < x.length) : (x ++ l).getD k 0 = x.getD k 0 := by
  simp [List.getD, List.getElem?_append_left h]

theorem getD_append_add (x l : List Nat) (k : Nat) : (x ++ l).getD (x.length + k) 0 = l.getD k 0 := by
  simp [List.getD, List.getElem?_append_right]

theorem getD_cons_succ (c : Nat) (l : List Nat) (k : Nat) : (c :: l).getD (k + 1) 0 = l.getD k 0 := by
  simp [List.getD]

namespace DL

/-! ### plain Levenshtein: one edit step at a time -/

theorem lev_zero_right (a b : List Nat) (i : Nat) : lev a b i 0 = i := by
  cases i <;> simp [lev]

theorem lev_succ_succ (a b : List Nat) (i j : Nat) :
    lev a b (i+1) (j+1) = min (min (lev a b (i+1) j + 1) (lev a b i (j+1) + 1))
      (lev a b i j + if a.getD i 0 == b.getD j 0 then 0 else 1) := by rw [lev]

theorem lev_del1 (a b : List Nat) (i j : Nat) : lev a b (i+1) j ≤ lev a b i j + 1 := by
  cases j with
  | zero => rw [lev_zero_right, lev_zero_right]; omega
  | succ j => rw [lev_succ_succ]; omega

theorem lev_add1 (a b : List Nat) (i j : Nat) : lev a b i (j+1) ≤ lev a b i j + 1 := by
  cases i with
  | zero => simp [lev]
  | succ i => rw [lev_succ_succ]; omega

theorem lev_sub1 (a b : List Nat) (i j : Nat) : lev a b (i+1) (j+1) ≤ lev a b i j + 1 := by
  rw [lev_succ_succ]; split <;> omega

theorem lev_diag_le (a b : List Nat) (i j : Nat) :
    ∀ n, (∀ k, k < n → a.getD (i + k) 0 = b.getD (j + k) 0) → lev a b (i + n) (j + n) ≤ lev a b i j := by
  intro n
  induction n with
  | zero => intro _; exact Nat.le_refl _
  | succ n ih =>
    intro h
    have h1 := ih (fun k hk => h k (by omega))
    have e := h n (by omega)
    have : lev a b (i + n + 1) (j + n + 1) ≤ lev a b (i + n) (j + n) := by
      rw [lev_succ_succ, e]; simp only [beq_self_eq_true, if_true]; omega
    exact Nat.le_trans this h1

theorem lev_common_prefix (x u v : List Nat) : lev (x ++ u) (x ++ v) x.length x.length = 0 := by
  have := lev_diag_le (x ++ u) (x ++ v) 0 0 x.length (by
    intro k hk
    simp only [Nat.zero_add]
    rw [getD_append_lt _ _ _ hk, getD_append_lt _ _ _ hk])
  simp only [Nat.zero_add] at this
  have e : lev (x ++ u) (x ++ v) 0 0 = 0 := by simp [lev]
  omega

end DL

namespace DL

/-- substituting one character is one plain edit step -/
theorem lev_sub_le_one (x y : List Nat) (a b : Nat) :
    lev (x ++ a :: y) (x ++ b :: y) (x ++ a :: y).length (x ++ b :: y).length ≤ 1 := by
  have h0 := lev_common_prefix x (a :: y) (b :: y)
  have h1 := lev_sub1 (x ++ a :: y) (x ++ b :: y) x.length x.length
  have h2 := lev_diag_le (x ++ a :: y) (x ++ b :: y) (x.length + 1) (x.length + 1) y.length (by
    intro k _
    rw [Nat.add_assoc, getD_append_add, getD_append_add, Nat.add_comm 1 k, getD_cons_succ, getD_cons_succ])
  simp only [List.length_append, List.length_cons]
  have e : x.length + (y.length + 1) = x.length + 1 + y.length := by omega
  rw [e]; omega

/-- inserting one character is one plain edit step -/
theorem lev_ins_le_one (x y : List Nat) (c : Nat) :
    lev (x ++ y) (x ++ c :: y) (x ++ y).length (x ++ c :: y).length ≤ 1 := by
  have h0 := lev_common_prefix x y (c :: y)
  have h1 := lev_add1 (x ++ y) (x ++ c :: y) x.length x.length
  have h2 := lev_diag_le (x ++ y) (x ++ c :: y) x.length (x.length + 1) y.length (by
    intro k _
    rw [Nat.add_assoc, getD_append_add, getD_append_add, Nat.add_comm 1 k, getD_cons_succ])
  simp only [List.length_append, List.length_cons]
  have e : x.length + (y.length + 1) = x.length + 1 + y.length := by omega
  rw [e]; omega

/-- deleting one character is one plain edit step -/
theorem lev_del_le_one (x y : List Nat) (c : Nat) :
    lev (x ++ c :: y) (x ++ y) (x ++ c :: y).length (x ++ y).length ≤ 1 := by
  have h0 := lev_common_prefix x (c :: y) y
  have h1 := lev_del1 (x ++ c :: y) (x ++ y) x.length x.length
  have h2 := lev_diag_le (x ++ c :: y) (x ++ y) (x.length + 1) x.length y.length (by
    intro k _
    rw [Nat.add_assoc, getD_append_add, getD_append_add, Nat.add_comm 1 k, getD_cons_succ])
  simp only [List.length_append, List.length_cons]
  have e : x.length + (y.length + 1) = x.length + 1 + y.length := by omega
  rw [e]; omega

end DL

/-- **Levenshtein bound**: substitution, insertion and deletion are one plain edit step. (A swap is two plain steps;
    the model's distance prices it through its transposition branch, see `DL.D_swap_le`.) -/
theorem Edit1.lev_le_one {w w' : List Nat} (h : Edit1 w w')
    (hns : ∀ x y a b, ¬ (w = x ++ a :: b :: y ∧ w' = x ++ b :: a :: y ∧ a ≠ b)) :
    DL.lev w w' w.length w'.length ≤ 1 := by
  cases h with
  | sub x y a b h => exact DL.lev_sub_le_one x y a b
  | ins x y c => exact DL.lev_ins_le_one x y c
  | del x y c => exact DL.lev_del_le_one x y c
  | swap x y a b h => exact absurd ⟨rfl, rfl, h⟩ (hns x y a b)

namespace DL

/-! ### the weighted distance: one edit step at a time -/

theorem D_le_sub (K : Consts) (a b : CWord) (i j : Nat) :
    D K a b (i+1) (j+1) ≤ sub a b i j + D K a b i j := by
  rw [D_succ_succ]; split
  · omega
  · unfold cellVal min4; omega

theorem D_le_add (K : Consts) (a b : CWord) (i j : Nat) :
    D K a b (i+1) (j+1) ≤ indel K b j + D K a b (i+1) j := by
  rw [D_succ_succ]; split
  · omega
  · unfold cellVal min4; omega

theorem D_le_del (K : Consts) (a b : CWord) (i j : Nat) :
    D K a b (i+1) (j+1) ≤ indel K a i + D K a b i (j+1) := by
  rw [D_succ_succ]; split
  · omega
  · unfold cellVal min4; omega

/-- the transposition branch -/
theorem D_le_trans (K : Consts) (a b : CWord) (i j : Nat)
    (h1 : lastOcc a.ch i (b.c j) ≠ 0) (h2 : lastOcc b.ch j (a.c i) ≠ 0) :
    D K a b (i+1) (j+1) ≤ K.costTrans * ((i - lastOcc a.ch i (b.c j)) + (j - lastOcc b.ch j (a.c i)) + 1) +
      D K a b (lastOcc a.ch i (b.c j) - 1) (lastOcc b.ch j (a.c i) - 1) := by
  rw [D_succ_succ, if_neg (by omega)]
  unfold cellVal min4; omega

/-- dropping one character of the first word costs at most 1.0 -/
theorem D_del10 (K : Consts) (a b : CWord) (ha : CostLe a) (i j : Nat) : D K a b (i+1) j ≤ D K a b i j + 10 := by
  cases j with
  | zero => rw [D_succ_zero]; have := k_le a ha i; omega
  | succ j => have := D_le_del K a b i j; have := indel_le K a ha i; omega

/-- adding one character of the second word costs at most 1.0 -/
theorem D_add10 (K : Consts) (a b : CWord) (hb : CostLe b) (i j : Nat) : D K a b i (j+1) ≤ D K a b i j + 10 := by
  cases i with
  | zero => rw [D_zero_succ]; have := k_le b hb j; omega
  | succ i => have := D_le_add K a b i j; have := indel_le K b hb j; omega

/-- equal characters along a diagonal cost nothing -/
theorem D_diag_le (K : Consts) (a b : CWord) (i j : Nat) :
    ∀ n, (∀ k, k < n → a.c (i + k) = b.c (j + k)) → D K a b (i + n) (j + n) ≤ D K a b i j := by
  intro n
  induction n with
  | zero => intro _; exact Nat.le_refl _
  | succ n ih =>
    intro h
    have h1 := ih (fun k hk => h k (by omega))
    have e := h n (by omega)
    have h2 := D_le_sub K a b (i + n) (j + n)
    have : sub a b (i + n) (j + n) = 0 := by unfold sub; simp [e]
    have e1 : i + (n + 1) = i + n + 1 := rfl
    have e2 : j + (n + 1) = j + n + 1 := rfl
    rw [e1, e2]; omega

/-- a common prefix costs nothing -/
theorem D_common_prefix (K : Consts) (a b : CWord) (x u v : List Nat) (ea : a.ch = x ++ u) (eb : b.ch = x ++ v) :
    D K a b x.length x.length = 0 := by
  have := D_diag_le K a b 0 0 x.length (by
    intro k hk
    simp only [Nat.zero_add, CWord.c, ea, eb]
    rw [getD_append_lt _ _ _ hk, getD_append_lt _ _ _ hk])
  simp only [Nat.zero_add, D_zero_zero] at this
  omega

/-- a swap of two adjacent characters costs at most `costTrans` (0.5) -/
theorem D_swap_le (K : Consts) (a b : CWord) (x y : List Nat) (p q : Nat)
    (ea : a.ch = x ++ p :: q :: y) (eb : b.ch = x ++ q :: p :: y) :
    D K a b a.len b.len ≤ K.costTrans := by
  have h0 := D_common_prefix K a b x _ _ ea eb
  have ca0 : a.c x.length = p := by
    simp [CWord.c, ea]
  have ca1 : a.c (x.length + 1) = q := by
    simp [CWord.c, ea]
  have cb0 : b.c x.length = q := by
    simp [CWord.c, eb]
  have cb1 : b.c (x.length + 1) = p := by
    simp [CWord.c, eb]
  have l1 : lastOcc a.ch (x.length + 1) (b.c (x.length + 1)) = x.length + 1 := by
    rw [lastOcc, cb1]; rw [if_pos (by simpa [CWord.c] using ca0)]
  have l2 : lastOcc b.ch (x.length + 1) (a.c (x.length + 1)) = x.length + 1 := by
    rw [lastOcc, ca1]; rw [if_pos (by simpa [CWord.c] using cb0)]
  have h1 := D_le_trans K a b (x.length + 1) (x.length + 1) (by rw [l1]; omega) (by rw [l2]; omega)
  rw [l1, l2] at h1
  simp only [Nat.sub_self, Nat.zero_add, Nat.add_sub_cancel, Nat.mul_one] at h1
  have h1' : D K a b (x.length + 2) (x.length + 2) ≤ K.costTrans + D K a b x.length x.length := h1
  have h2 := D_diag_le K a b (x.length + 2) (x.length + 2) y.length (by
    intro k _
    simp only [CWord.c, ea, eb]
    rw [Nat.add_assoc, getD_append_add, getD_append_add, Nat.add_comm 2 k]
    simp [List.getD])
  have la : a.len = x.length + 2 + y.length := by simp [CWord.len, ea]; omega
  have lb : b.len = x.length + 2 + y.length := by simp [CWord.len, eb]; omega
  rw [la, lb]; omega

/-- **distance bound**: the weighted distance between a word and the same word with one typing error is at most
    1.0 (ten tenths), whatever the character classes are -/
theorem D_edit1_le (K : Consts) (hK : KOK K) (a b : CWord) (ha : CostLe a) (hb : CostLe b)
    (w w' : List Nat) (h : Edit1 w w') (eb : b.ch = w) (ea : a.ch = w') :
    D K a b a.len b.len ≤ 10 := by
  cases h with
  | sub x y p q hpq =>
    have h0 := D_common_prefix K a b x _ _ ea eb
    have h1 := D_le_sub K a b x.length x.length
    have hs := sub_le a b ha hb x.length x.length
    have h2 := D_diag_le K a b (x.length + 1) (x.length + 1) y.length (by
      intro k _
      simp only [CWord.c, ea, eb]
      rw [Nat.add_assoc, getD_append_add, getD_append_add, Nat.add_comm 1 k, getD_cons_succ, getD_cons_succ])
    have la : a.len = x.length + 1 + y.length := by simp [CWord.len, ea]; omega
    have lb : b.len = x.length + 1 + y.length := by simp [CWord.len, eb]; omega
    rw [la, lb]; omega
  | ins x y c =>
    -- the query `a` carries the extra character
    have h0 := D_common_prefix K a b x _ _ ea eb
    have h1 := D_del10 K a b ha x.length x.length
    have h2 := D_diag_le K a b (x.length + 1) x.length y.length (by
      intro k _
      simp only [CWord.c, ea, eb]
      rw [Nat.add_assoc, getD_append_add, getD_append_add, Nat.add_comm 1 k, getD_cons_succ])
    have la : a.len = x.length + 1 + y.length := by simp [CWord.len, ea]; omega
    have lb : b.len = x.length + y.length := by simp [CWord.len, eb]
    rw [la, lb]; omega
  | del x y c =>
    have h0 := D_common_prefix K a b x _ _ ea eb
    have h1 := D_add10 K a b hb x.length x.length
    have h2 := D_diag_le K a b x.length (x.length + 1) y.length (by
      intro k _
      simp only [CWord.c, ea, eb]
      rw [Nat.add_assoc, getD_append_add, getD_append_add, Nat.add_comm 1 k, getD_cons_succ])
    have la : a.len = x.length + y.length := by simp [CWord.len, ea]
    have lb : b.len = x.length + 1 + y.length := by simp [CWord.len, eb]; omega
    rw [la, lb]; omega
  | swap x y p q hpq =>
    have := D_swap_le K a b x y q p ea eb
    rw [hK.trans] at this; omega

end DL
end Lucid
