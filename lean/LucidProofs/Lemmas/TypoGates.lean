/-
  LucidProofs.Lemmas.TypoGates — the three gates and the two slice loops of `word_match`
  (`matching/word_match.rs`, model `Lucid.wordMatch`) let through an unfinished query word that is a record word
  of at least five characters (three of them distinct) with ONE typing error (`Edit1`, `Lemmas/Edit1.lean`):
  * `wmInner_accPair` / `wmOuter_accPair` — a slice pair that passes every guard and whose matrix cell is within the
    relative threshold forces a `some` result (generalises `wmInner_zeroPair` / `wmOuter_zeroPair` of
    `Lemmas/Gates.lean` from zero cells to accepted cells);
  * `wordMatchM_some_of_pair` — the same through `word_match`, the cell being the specification's distance `DL.D`;
  * `lengthCheck_edit1`, `jaccardCheck_edit1` — the length and Jaccard gates;
  * `wordMatch_edit1_some` — `word_match` returns a pair: the pair of FULL slices `(|w'|, |w|)` is accepted.
  Numeric hypotheses: `CostsOK K` (edit costs) and `TypoNumsOK K` (thresholds), both decided at `Gen.srcConsts`.
-/
import LucidProofs.Lemmas.Gates
import LucidProofs.Lemmas.PairOK
import LucidProofs.Lemmas.Edit1

namespace Lucid
open DL

/-- what one typing error needs of the three thresholds:
    * `1/6 < LENGTH_THRESHOLD`   — one extra character is tolerated from length 5 on (6 against 5);
    * `2/4 < JACCARD_THRESHOLD`  — two sets of ≥ 3 characters that differ by one element each way are similar enough;
    * `1.0/5 ≤ DAMLEV_THRESHOLD` — one full-cost typo is within the relative distance threshold from length 5 on. -/
def TypoNumsOK (K : Consts) : Bool :=
  decide (K.lenDen * 1 < K.lenNum * 6) && decide (K.jacDen * 2 < K.jacNum * 4) &&
  decide (K.damDen * 10 ≤ K.damNum * 10 * 5)

theorem typoNumsOK_src : TypoNumsOK Gen.srcConsts = true := by decide

theorem typoNumsOK_spec {K : Consts} (h : TypoNumsOK K = true) :
    K.lenDen < K.lenNum * 6 ∧ K.jacDen * 2 < K.jacNum * 4 ∧ K.damDen * 10 ≤ K.damNum * 10 * 5 := by
  simp only [TypoNumsOK, Bool.and_eq_true, decide_eq_true_eq] at h
  omega

/-! ### the two slice loops: an accepted pair forces a result -/

/-- a pair of slices that passes every guard of the loops, with a cell within the relative threshold -/
structure AccPair (c : WMCtx) (qs rs : Nat) : Prop where
  q_le   : qs ≤ c.q.len
  r_le   : rs ≤ c.r.len
  stem   : c.q.stem ≤ qs
  left   : ¬ (rs = c.left ∧ qs = c.left)
  nobrk  : ¬ (c.q.fin = true ∧ rs < c.r.stem)
  near   : ¬ ((if qs ≥ rs then qs - rs else rs - qs) > 1)
  rel    : relTooBig c.K (c.cell qs rs) qs rs = false

/-- the inner loop for `rs` returns a `some` if its range contains a `qs` with `AccPair c qs rs` -/
theorem wmInner_accPair (c : WMCtx) (qs rs : Nat) (hz : AccPair c qs rs) :
    ∀ (l : List Nat) (best : Option (WMatch × WMatch)), qs ∈ l → wmInner c rs l best ≠ none := by
  intro l
  induction l with
  | nil => intro best h; simp at h
  | cons x rest ih =>
    intro best hmem
    by_cases hx : x = qs
    · subst hx
      unfold wmInner
      have h1 : ¬ x > c.q.len := by have := hz.q_le; omega
      have h2 : ¬ rs > c.r.len := by have := hz.r_le; omega
      have h3 : ¬ x < c.q.stem := by have := hz.stem; omega
      simp only [h1, h2, h3, hz.left, hz.nobrk, hz.near, if_false, hz.rel, Bool.false_eq_true]
      have hb' : (match best with
          | some p => if p.1.typos ≤ c.cell x rs then some p else some (newPair c.K c.r c.q rs x (c.cell x rs))
          | none => some (newPair c.K c.r c.q rs x (c.cell x rs))) ≠ none := by
        cases best with
        | none => simp
        | some p => simp only; split <;> simp
      split
      · exact hb'
      · exact wmInner_some_mono c rs rest _ hb'
    · have hmem' : qs ∈ rest := by
        rcases List.mem_cons.mp hmem with h | h
        · exact absurd h.symm hx
        · exact h
      have hnb := hz.nobrk
      have hrest : ∀ b, wmInner c rs rest b ≠ none := fun b => ih b hmem'
      unfold wmInner
      grind

/-- the outer loop returns a `some` if the range contains both members of an `AccPair` -/
theorem wmOuter_accPair (c : WMCtx) (qs rs : Nat) (hz : AccPair c qs rs) (range : List Nat) (hq : qs ∈ range) :
    ∀ (l : List Nat) (best : Option (WMatch × WMatch)), rs ∈ l → wmOuter c range l best ≠ none := by
  intro l
  induction l with
  | nil => intro best h; simp at h
  | cons x rest ih =>
    intro best hmem
    unfold wmOuter
    by_cases hx : x = rs
    · subst hx
      exact wmOuter_some_mono c range rest _ (wmInner_accPair c qs x hz range best hq)
    · rcases List.mem_cons.mp hmem with h | h
      · exact absurd h.symm hx
      · exact ih _ h

/-- generic form: the gates pass and `(qs, rs)` is an accepted pair inside the range; the cell `word_match`
    reads for it is the specification's distance `D` of the two prefixes -/
theorem wordMatchM_some_of_pair (K : Consts) (hK : CostsOK K = true) (m : Mat) (hm : MInv m)
    (rt : Text) (r : WordShape) (qt : Text) (q : WordShape) (hr : WordIn rt r) (hq : WordIn qt q)
    (hlc : lengthCheck K r q = true) (hjc : jaccardCheck K rt r qt q = true)
    (qs rs : Nat) (hqs : qs ≤ q.len) (hrs : rs ≤ r.len) (hstem : q.stem ≤ qs)
    (hlq : wmLeftRaw r q - 1 ≤ qs) (hlr : wmLeftRaw r q - 1 ≤ rs)
    (hleft : ¬ (rs = wmLeftRaw r q - 1 ∧ qs = wmLeftRaw r q - 1))
    (hbrk : ¬ (q.fin = true ∧ rs < r.stem))
    (hnear : qs ≤ rs + 1 ∧ rs ≤ qs + 1)
    (hrel : relTooBig K (D K (cword K qt q) (cword K rt r) qs rs) qs rs = false) :
    (wordMatchM K m rt r qt q).1 ≠ none := by
  have hql := hq.len_pos
  have hrl := hr.len_pos
  unfold wordMatchM
  have h0 : ¬ (q.len = 0 ∨ r.len = 0) := by omega
  simp only [h0, hlc, hjc, if_false, Bool.not_true, Bool.false_eq_true]
  have hrange : ¬ (max q.len r.len + 1 ≤ wmLeftRaw r q - 1) := by omega
  simp only [hrange, if_false]
  have hinq : qs ∈ descRange (wmLeftRaw r q - 1) (max q.len r.len + 1) := mem_descRange.mpr ⟨hlq, by omega⟩
  have hinr : rs ∈ descRange (wmLeftRaw r q - 1) (max q.len r.len + 1) := mem_descRange.mpr ⟨hlr, by omega⟩
  refine wmOuter_accPair _ qs rs ?_ _ hinq _ none hinr
  exact {
    q_le := hqs, r_le := hrs, stem := hstem,
    left := hleft,
    nobrk := hbrk,
    near := by split <;> omega,
    rel := by
      show relTooBig K ((distanceM K m (cword K qt q) (cword K rt r)).2.get (qs + 1) (rs + 1)) qs rs = false
      rw [wordMatch_cell K hK rt r qt q hr hq m hm qs rs hqs hrs]
      exact hrel }

/-! ### the length gate -/

/-- an unfinished query word whose length differs from the record word's by at most one passes the length gate
    when the record word has at least five characters -/
theorem lengthCheck_near (K : Consts) (hT : TypoNumsOK K = true) (r q : WordShape)
    (hfin : q.fin = false) (hr5 : 5 ≤ r.len) (h1 : q.len ≤ r.len + 1) (h2 : r.len ≤ q.len + 1) :
    lengthCheck K r q = true := by
  obtain ⟨hl, _, _⟩ := typoNumsOK_spec hT
  unfold lengthCheck
  simp only [hfin, Bool.false_eq_true, if_false]
  have hA : ¬ (q.len ≤ 1) := by omega
  have hB : ¬ (min q.len r.len ≤ 1) := by omega
  simp only [hA, hB, decide_false, Bool.or_self, Bool.false_eq_true, if_false, decide_eq_true_eq]
  by_cases hle : q.len ≤ r.len
  · -- the record word is cut to the query's length
    have e : max q.len (min q.len r.len) - min q.len (min q.len r.len) = 0 := by omega
    rw [e, Nat.mul_zero]
    exact Nat.mul_pos (by omega) (by omega)
  · have e : max q.len (min q.len r.len) - min q.len (min q.len r.len) = 1 := by omega
    have e' : max q.len (min q.len r.len) = q.len := by omega
    rw [e, e', Nat.mul_one]
    have : K.lenNum * 6 ≤ K.lenNum * q.len := Nat.mul_le_mul_left _ (by omega)
    omega

/-! ### the Jaccard gate -/

/-- a duplicate-free list all of whose members equal `c` has at most one member -/
theorem length_le_one_of_nodup_const {l : List Nat} (hn : l.Nodup) (c : Nat) (h : ∀ z ∈ l, z = c) :
    l.length ≤ 1 := by
  match l, hn, h with
  | [], _, _ => simp
  | [_], _, _ => simp
  | a :: b :: t, hn, h =>
    have ea := h a (by simp)
    have eb := h b (by simp)
    rw [List.nodup_cons] at hn
    exact absurd (by rw [ea, eb]; simp) hn.1

/-- if every member of `a` missing from `b` equals `c`, the set of `a` has at most one element outside `b` -/
theorem diffCard_le_one (a b : List Nat) (c : Nat) (h : ∀ z, z ∈ a → z ∉ b → z = c) :
    ((natSet a).filter (· ∉ b)).length ≤ 1 := by
  apply length_le_one_of_nodup_const ((natSet_nodup a).sublist List.filter_sublist) c
  intro z hz
  obtain ⟨hz1, hz2⟩ := List.mem_filter.mp hz
  exact h z (mem_natSet.mp hz1) (by simpa using hz2)

/-- arithmetic of the Jaccard gate for two sets that differ by at most one element each way, one of them having
    at least three elements -/
theorem jaccard_arith_typo (K : Consts) (hT : TypoNumsOK K = true) (i u ca cb da db : Nat)
    (hincl : i + u = ca + cb) (hua : u = ca + db) (hub : u = cb + da)
    (hda : da ≤ 1) (hdb : db ≤ 1) (h3 : 3 ≤ ca) :
    K.jacDen * (u - i) < K.jacNum * u := by
  obtain ⟨_, hj, _⟩ := typoNumsOK_spec hT
  have hd : u - i = da + db := by omega
  have hcases : (u - i = 0) ∨ (u - i = 1 ∧ 3 ≤ u) ∨ (u - i = 2 ∧ 4 ≤ u) := by omega
  rcases hcases with e | ⟨e, hu⟩ | ⟨e, hu⟩
  · rw [e, Nat.mul_zero]
    exact Nat.mul_pos (by omega) (by omega)
  · rw [e]
    have : K.jacNum * 3 ≤ K.jacNum * u := Nat.mul_le_mul_left _ hu
    omega
  · rw [e]
    have : K.jacNum * 4 ≤ K.jacNum * u := Nat.mul_le_mul_left _ hu
    omega

/-- the Jaccard value of two non-empty character lists that differ by at most one character value each way passes
    the gate when the first has at least three distinct characters -/
theorem jaccard_typo (K : Consts) (hT : TypoNumsOK K = true) (a b : List Nat) (ha : a ≠ []) (hb : b ≠ [])
    (ca cb : Nat) (hab : ∀ z, z ∈ a → z ∉ b → z = ca) (hba : ∀ z, z ∈ b → z ∉ a → z = cb)
    (h3 : 3 ≤ distinctCard a) :
    K.jacDen * ((jaccard a b).2 - (jaccard a b).1) < K.jacNum * (jaccard a b).2 := by
  rw [C17_value.1 a b ha hb]
  simp only []
  have hincl := interCard_add_unionCard a b
  have hua := unionCard_eq a b
  have hub := unionCard_eq b a
  rw [unionCard_comm b a] at hub
  exact jaccard_arith_typo K hT _ _ (distinctCard a) (distinctCard b) _ _ hincl hua hub
    (diffCard_le_one a b ca hab) (diffCard_le_one b a cb hba) h3

/-- the record slice handed to the Jaccard gate is the whole record word when the unfinished query word is at most
    one character shorter -/
theorem jaccardSlice_full (rt : Text) (r q : WordShape) (hr : WordIn rt r) (hfin : q.fin = false)
    (h2 : r.len ≤ q.len + 1) : jaccardSlice rt r q = wchars rt r := by
  unfold jaccardSlice
  simp only [hfin, Bool.false_eq_true, if_false]
  apply List.take_of_length_le
  rw [wchars_length hr]; omega

/-- **Jaccard gate**: an unfinished query word that is the record word with one typing error passes, when the record
    word has at least three distinct characters -/
theorem jaccardCheck_edit1 (K : Consts) (hT : TypoNumsOK K = true) (rt : Text) (r : WordShape) (qt : Text)
    (q : WordShape) (hr : WordIn rt r) (hq : WordIn qt q) (hfin : q.fin = false)
    (h3 : 3 ≤ distinctCard (wchars rt r))
    (hed : Edit1 (wchars rt r) (wchars qt q)) : jaccardCheck K rt r qt q = true := by
  have hlr := wchars_length hr
  have hlq := wchars_length hq
  have hA : wchars rt r ≠ [] := by
    intro e; rw [e] at hlr; have := hr.len_pos; simp at hlr; omega
  have hB : wchars qt q ≠ [] := by
    intro e; rw [e] at hlq; have := hq.len_pos; simp at hlq; omega
  have hge := hed.length_ge
  rw [hlr, hlq] at hge
  obtain ⟨ca, hab⟩ := hed.extra_left
  obtain ⟨cb, hba⟩ := hed.extra_right
  unfold jaccardCheck
  rw [jaccardSlice_full rt r q hr hfin hge]
  have := jaccard_typo K hT (wchars rt r) (wchars qt q) hA hB ca cb hab hba h3
  generalize jaccard (wchars rt r) (wchars qt q) = p at this
  obtain ⟨i, u⟩ := p
  simpa using this

/-! ### `word_match` succeeds -/

/-- **one typing error**: an unfinished query word whose characters are those of a record word of at least five
    characters, three of them distinct, with one typing error, is matched by `word_match`, whatever the reused
    distance matrix held before. The accepted pair is the pair of full slices. -/
theorem wordMatchM_edit1_some (K : Consts) (hK : CostsOK K = true) (hT : TypoNumsOK K = true) (m : Mat) (hm : MInv m)
    (rt : Text) (r : WordShape) (qt : Text) (q : WordShape) (hr : WordIn rt r) (hq : WordIn qt q)
    (hfin : q.fin = false) (hstem : q.stem ≤ q.len)
    (h5 : 5 ≤ r.len) (h3 : 3 ≤ distinctCard (wchars rt r))
    (hed : Edit1 (wchars rt r) (wchars qt q)) :
    (wordMatchM K m rt r qt q).1 ≠ none := by
  have hlr := wchars_length hr
  have hlq := wchars_length hq
  have hle := hed.length_le
  have hge := hed.length_ge
  rw [hlr, hlq] at hle hge
  obtain ⟨_, _, hd⟩ := typoNumsOK_spec hT
  have hD : D K (cword K qt q) (cword K rt r) q.len r.len ≤ 10 := by
    have := D_edit1_le K (KOK_of_CostsOK K hK) (cword K qt q) (cword K rt r) (cword_costLe K hK qt q)
      (cword_costLe K hK rt r) _ _ hed rfl rfl
    rwa [cword_len_of_wordIn K hq, cword_len_of_wordIn K hr] at this
  have hleft : wmLeftRaw r q = q.stem := by simp [wmLeftRaw, hfin]
  refine wordMatchM_some_of_pair K hK m hm rt r qt q hr hq
    (lengthCheck_near K hT r q hfin h5 hle hge)
    (jaccardCheck_edit1 K hT rt r qt q hr hq hfin h3 hed)
    q.len r.len (Nat.le_refl _) (Nat.le_refl _) hstem (by rw [hleft]; omega) (by rw [hleft]; omega)
    (by rw [hleft]; omega) (by simp [hfin]) ⟨hle, hge⟩ ?_
  unfold relTooBig
  simp only [decide_eq_false_iff_not, Nat.not_lt, gt_iff_lt]
  have h1 : K.damDen * D K (cword K qt q) (cword K rt r) q.len r.len ≤ K.damDen * 10 := Nat.mul_le_mul_left _ hD
  have h2 : K.damNum * 10 * 5 ≤ K.damNum * 10 * max (max q.len r.len) 1 := Nat.mul_le_mul_left _ (by omega)
  omega

theorem wordMatch_edit1_some (K : Consts) (hK : CostsOK K = true) (hT : TypoNumsOK K = true)
    (rt : Text) (r : WordShape) (qt : Text) (q : WordShape) (hr : WordIn rt r) (hq : WordIn qt q)
    (hfin : q.fin = false) (hstem : q.stem ≤ q.len)
    (h5 : 5 ≤ r.len) (h3 : 3 ≤ distinctCard (wchars rt r))
    (hed : Edit1 (wchars rt r) (wchars qt q)) :
    wordMatch K rt r qt q ≠ none :=
  wordMatchM_edit1_some K hK hT _ (MInv_new _).1 rt r qt q hr hq hfin hstem h5 h3 hed

end Lucid
