/-
  LucidProofs.Lemmas.Index — the trigram index (`store/trigram_index.rs`, `utils/trigrams.rs`; model:
  `LucidModel/Index.lean`).

  * `gramLt` is a strict total order; `gramInsert` / `gramSet` / `collectGrams` return the canonical strictly
    ascending (hence duplicate-free) list with the same members as the input.
  * `buildIndex titles` adds title k at position k (what `Store::add` does); `IndexInv idx titles` says that
    the posting list of every gram is exactly the ascending list of positions of the titles containing it.
    It holds for `Index.new`, is preserved by `Index.add`, hence holds for every index built by adds.
  * under `IndexInv` neither trap site fires (`addSafe`, `prepareSafe`), and the counting loop `countShared`
    returns, for every record, the number of distinct query grams occurring in that record (`sharedCount`).
  * `IndexInv.prepare_topk`: `Index.prepare` is a bounded top-k selection (`TopK`) of the positive counts;
    generic consequences of `TopK` (`TopK.mem_of_mem`, `TopK.perm_of_length_le`, …).
  * `StoreIndexInv`: every store reachable by `add` / `clear` / `setLimit` / `setDividers` / `searchM` carries an
    index satisfying `IndexInv` for the titles of its records.
  Used by C18, C19 (trigram counter part), C05.
-/
import LucidModel.Index
import LucidProofs.Lemmas.Orders
import LucidProofs.Lemmas.Sorter

namespace Lucid

/-! ## `gramLt` is a strict total order on grams -/

theorem gramLt_irrefl (a : Gram) : gramLt a a = false := by
  simp [gramLt]

theorem gramLt_trans {a b c : Gram} (h1 : gramLt a b = true) (h2 : gramLt b c = true) :
    gramLt a c = true := by
  obtain ⟨a1, a2, a3⟩ := a
  obtain ⟨b1, b2, b3⟩ := b
  obtain ⟨c1, c2, c3⟩ := c
  simp only [gramLt, Bool.or_eq_true, Bool.and_eq_true, decide_eq_true_eq, beq_iff_eq] at *
  omega

theorem gramLt_asymm {a b : Gram} (h1 : gramLt a b = true) : gramLt b a = false := by
  cases h : gramLt b a with
  | false => rfl
  | true => have := gramLt_trans h1 h; rw [gramLt_irrefl] at this; cases this

/-- trichotomy -/
theorem gramLt_of_not_lt_of_ne {a b : Gram} (h1 : gramLt a b = false) (h2 : a ≠ b) : gramLt b a = true := by
  obtain ⟨a1, a2, a3⟩ := a
  obtain ⟨b1, b2, b3⟩ := b
  have h2' : ¬ (a1 = b1 ∧ a2 = b2 ∧ a3 = b3) := by
    intro ⟨e1, e2, e3⟩; exact h2 (by rw [e1, e2, e3])
  rw [← Bool.not_eq_true] at h1
  simp only [gramLt, Bool.or_eq_true, Bool.and_eq_true, decide_eq_true_eq, beq_iff_eq] at *
  omega

theorem gramLt_ne {a b : Gram} (h : gramLt a b = true) : a ≠ b := by
  intro e; subst e; rw [gramLt_irrefl] at h; cases h

/-- strictly ascending -/
def GramSorted (l : List Gram) : Prop := l.Pairwise (fun a b => gramLt a b = true)

theorem GramSorted.nodup {l : List Gram} (h : GramSorted l) : l.Nodup :=
  List.Pairwise.imp (fun hab => gramLt_ne hab) h

/-! ## `gramInsert`, `gramSet`, `collectGrams` -/

theorem mem_gramInsert {g x : Gram} {l : List Gram} : x ∈ gramInsert g l ↔ x = g ∨ x ∈ l := by
  induction l with
  | nil => simp [gramInsert]
  | cons h t ih =>
    unfold gramInsert
    split
    · simp
    · split
      · rename_i _ e; subst e
        constructor
        · intro hx; exact Or.inr hx
        · intro hx; rcases hx with hx | hx
          · subst hx; simp
          · exact hx
      · simp only [List.mem_cons, ih]
        constructor
        · rintro (h1 | h1 | h1)
          · exact Or.inr (Or.inl h1)
          · exact Or.inl h1
          · exact Or.inr (Or.inr h1)
        · rintro (h1 | h1 | h1)
          · exact Or.inr (Or.inl h1)
          · exact Or.inl h1
          · exact Or.inr (Or.inr h1)

theorem gramInsert_sorted {g : Gram} {l : List Gram} (hl : GramSorted l) : GramSorted (gramInsert g l) := by
  induction l with
  | nil => simp [gramInsert, GramSorted]
  | cons h t ih =>
    have hl' := List.pairwise_cons.mp hl
    unfold gramInsert
    split
    · rename_i hlt
      refine List.pairwise_cons.mpr ⟨?_, hl⟩
      intro x hx
      rcases List.mem_cons.mp hx with hx | hx
      · subst hx; exact hlt
      · exact gramLt_trans hlt (hl'.1 x hx)
    · split
      · exact hl
      · rename_i hnlt hne
        refine List.pairwise_cons.mpr ⟨?_, ih hl'.2⟩
        intro x hx
        rcases mem_gramInsert.mp hx with hx | hx
        · subst hx
          exact gramLt_of_not_lt_of_ne (by simpa using hnlt) hne
        · exact hl'.1 x hx

theorem mem_gramSet {x : Gram} {gs : List Gram} : x ∈ gramSet gs ↔ x ∈ gs := by
  induction gs with
  | nil => simp [gramSet]
  | cons g gs ih =>
    have : gramSet (g :: gs) = gramInsert g (gramSet gs) := rfl
    rw [this, mem_gramInsert, ih, List.mem_cons]

theorem gramSet_sorted (gs : List Gram) : GramSorted (gramSet gs) := by
  induction gs with
  | nil => simp [gramSet, GramSorted]
  | cons g gs ih =>
    have : gramSet (g :: gs) = gramInsert g (gramSet gs) := rfl
    rw [this]; exact gramInsert_sorted ih

theorem gramSet_nodup (gs : List Gram) : (gramSet gs).Nodup := (gramSet_sorted gs).nodup

theorem collectGrams_sorted (t : Text) : GramSorted (collectGrams t) := gramSet_sorted _

theorem collectGrams_nodup (t : Text) : (collectGrams t).Nodup := gramSet_nodup _

/-- the grams of a text are exactly the grams (trigrams and padded one- and two-letter starts) of its words -/
theorem mem_collectGrams {g : Gram} {t : Text} :
    g ∈ collectGrams t ↔ ∃ w ∈ t.words, g ∈ trigrams (slice t.chars w.lo w.hi) := by
  unfold collectGrams
  rw [mem_gramSet]
  simp only [List.mem_flatten, List.mem_map]
  constructor
  · rintro ⟨l, ⟨w, hw, rfl⟩, hg⟩; exact ⟨w, hw, hg⟩
  · rintro ⟨w, hw, hg⟩; exact ⟨_, ⟨w, hw, rfl⟩, hg⟩

theorem collectGrams_of_no_words {t : Text} (h : t.words = []) : collectGrams t = [] := by
  simp [collectGrams, h, gramSet]

/-! ## the dictionary -/

theorem dictGet_dictPush (g g' : Gram) (ix : Nat) (d : List (Gram × List Nat)) :
    (dictGet (dictPush g ix d) g').getD [] = (dictGet d g').getD [] ++ (if g' = g then [ix] else []) := by
  induction d with
  | nil =>
    by_cases h : g = g'
    · subst h; simp [dictGet, dictPush]
    · have h' : ¬ g' = g := fun e => h e.symm
      simp [dictGet, dictPush, h, h']
  | cons e rest ih =>
    obtain ⟨h, ixs⟩ := e
    unfold dictPush
    split
    · rename_i hg; subst hg
      by_cases h2 : h = g'
      · subst h2; simp [dictGet]
      · have h2' : ¬ g' = h := fun e => h2 e.symm
        simp [dictGet, h2, h2']
    · rename_i hg
      by_cases h2 : h = g'
      · subst h2
        have : ¬ h = g := hg
        simp [dictGet, this]
      · have e1 : dictGet ((h, ixs) :: dictPush g ix rest) g' = dictGet (dictPush g ix rest) g' := by
          simp [dictGet, h2]
        have e2 : dictGet ((h, ixs) :: rest) g' = dictGet rest g' := by
          simp [dictGet, h2]
        rw [e1, e2, ih]

theorem dictGet_foldl_push (gs : List Gram) (hnd : gs.Nodup) (ix : Nat) (d : List (Gram × List Nat)) (g' : Gram) :
    (dictGet (gs.foldl (fun d g => dictPush g ix d) d) g').getD []
      = (dictGet d g').getD [] ++ (if g' ∈ gs then [ix] else []) := by
  induction gs generalizing d with
  | nil => simp
  | cons g gs ih =>
    have hnd' := List.nodup_cons.mp hnd
    rw [List.foldl_cons, ih hnd'.2, dictGet_dictPush]
    by_cases h1 : g' = g
    · subst h1; simp [hnd'.1]
    · simp [h1]

theorem mem_keys_dictPush (g k : Gram) (ix : Nat) (d : List (Gram × List Nat)) :
    k ∈ (dictPush g ix d).map (·.1) ↔ k = g ∨ k ∈ d.map (·.1) := by
  induction d with
  | nil => simp [dictPush]
  | cons e rest ih =>
    obtain ⟨h, ixs⟩ := e
    unfold dictPush
    split
    · rename_i hg; subst hg
      simp only [List.map_cons, List.mem_cons]
      constructor
      · intro hx; exact Or.inr hx
      · rintro (hx | hx)
        · exact Or.inl hx
        · exact hx
    · simp only [List.map_cons, List.mem_cons, ih]
      constructor
      · rintro (h1 | h1 | h1)
        · exact Or.inr (Or.inl h1)
        · exact Or.inl h1
        · exact Or.inr (Or.inr h1)
      · rintro (h1 | h1 | h1)
        · exact Or.inr (Or.inl h1)
        · exact Or.inl h1
        · exact Or.inr (Or.inr h1)

theorem keys_nodup_dictPush (g : Gram) (ix : Nat) (d : List (Gram × List Nat))
    (hd : (d.map (·.1)).Nodup) : ((dictPush g ix d).map (·.1)).Nodup := by
  induction d with
  | nil => simp [dictPush]
  | cons e rest ih =>
    obtain ⟨h, ixs⟩ := e
    have hd' : h ∉ rest.map (·.1) ∧ (rest.map (·.1)).Nodup := List.nodup_cons.mp hd
    unfold dictPush
    split
    · simpa using hd
    · rename_i hg
      simp only [List.map_cons]
      refine List.nodup_cons.mpr ⟨?_, ih hd'.2⟩
      intro hm
      rcases (mem_keys_dictPush g h ix rest).mp hm with hm | hm
      · exact hg hm
      · exact hd'.1 hm

theorem keys_nodup_foldl_push (gs : List Gram) (ix : Nat) (d : List (Gram × List Nat))
    (hd : (d.map (·.1)).Nodup) : ((gs.foldl (fun d g => dictPush g ix d) d).map (·.1)).Nodup := by
  induction gs generalizing d with
  | nil => simpa using hd
  | cons g gs ih => rw [List.foldl_cons]; exact ih _ (keys_nodup_dictPush g ix d hd)

/-! ## the invariant of an index built by adds -/

/-- the grams of the record at position `ix` (none beyond the end) -/
def recGrams (titles : List Text) (ix : Nat) : List Gram :=
  match titles[ix]? with
  | some t => collectGrams t
  | none => []

theorem recGrams_eq {titles : List Text} {ix : Nat} (h : ix < titles.length) :
    recGrams titles ix = collectGrams titles[ix] := by
  simp [recGrams, List.getElem?_eq_getElem h]

theorem recGrams_of_ge {titles : List Text} {ix : Nat} (h : titles.length ≤ ix) :
    recGrams titles ix = [] := by
  simp [recGrams, List.getElem?_eq_none h]

theorem recGrams_append_left {ts : List Text} {t : Text} {ix : Nat} (h : ix < ts.length) :
    recGrams (ts ++ [t]) ix = recGrams ts ix := by
  simp [recGrams, List.getElem?_append_left h]

theorem recGrams_append_last (ts : List Text) (t : Text) :
    recGrams (ts ++ [t]) ts.length = collectGrams t := by
  simp [recGrams]

/-- the index obtained by adding title k at position k, k = 0, 1, 2, … (what `Store::add` does) -/
def buildIndex (titles : List Text) : Index :=
  titles.zipIdx.foldl (fun idx (p : Text × Nat) => idx.add p.2 p.1) Index.new

/-- `idx` is the trigram index of `titles`: the counter equals the number of records, the posting list of every
    gram is the ascending, duplicate-free list of the positions of the titles that contain it, and the keys of
    the dictionary are distinct. -/
structure IndexInv (idx : Index) (titles : List Text) : Prop where
  len      : idx.len = titles.length
  postings : ∀ g, (dictGet idx.dict g).getD []
               = (List.range titles.length).filter (fun ix => decide (g ∈ recGrams titles ix))
  keys     : (idx.dict.map (·.1)).Nodup

theorem IndexInv.new : IndexInv Index.new [] :=
  ⟨rfl, fun g => by simp [Index.new, dictGet], by simp [Index.new]⟩

theorem IndexInv.add {idx : Index} {ts : List Text} (h : IndexInv idx ts) (t : Text) :
    IndexInv (idx.add ts.length t) (ts ++ [t]) := by
  refine ⟨?_, fun g => ?_, ?_⟩
  · simp [Index.add, h.len]
  · show (dictGet ((collectGrams t).foldl (fun d g => dictPush g ts.length d) idx.dict) g).getD [] = _
    rw [dictGet_foldl_push _ (collectGrams_nodup t), h.postings g]
    have hl : (ts ++ [t]).length = ts.length + 1 := by simp
    rw [hl, List.range_succ, List.filter_append]
    congr 1
    · apply List.filter_congr
      intro ix hix
      rw [recGrams_append_left (List.mem_range.mp hix)]
    · rw [List.filter_cons, List.filter_nil, recGrams_append_last]
      by_cases hg : g ∈ collectGrams t <;> simp [hg]
  · exact keys_nodup_foldl_push _ _ _ h.keys

theorem buildIndex_append (ts : List Text) (t : Text) :
    buildIndex (ts ++ [t]) = (buildIndex ts).add ts.length t := by
  simp [buildIndex, List.zipIdx_append, List.foldl_append]

theorem IndexInv.foldl_add (ts : List Text) : ∀ (pre : List Text) (idx : Index) (k : Nat), k = pre.length →
    IndexInv idx pre →
    IndexInv ((ts.zipIdx k).foldl (fun idx (p : Text × Nat) => idx.add p.2 p.1) idx) (pre ++ ts) := by
  induction ts with
  | nil => intro pre idx k _ h; simpa using h
  | cons t ts ih =>
    intro pre idx k hk h
    subst hk
    rw [List.zipIdx_cons, List.foldl_cons]
    have := ih (pre ++ [t]) (idx.add pre.length t) (pre.length + 1) (by simp) (h.add t)
    simpa using this

/-- every index built by a sequence of adds (at positions 0, 1, 2, …) satisfies the invariant -/
theorem buildIndex_inv (titles : List Text) : IndexInv (buildIndex titles) titles := by
  have := IndexInv.foldl_add titles [] Index.new 0 rfl IndexInv.new
  simpa [buildIndex] using this

theorem IndexInv.mem_postings {idx : Index} {titles : List Text} (h : IndexInv idx titles) {g : Gram} {ix : Nat} :
    ix ∈ (dictGet idx.dict g).getD [] ↔ ix < titles.length ∧ g ∈ recGrams titles ix := by
  rw [h.postings g]; simp

theorem IndexInv.postings_of_some {idx : Index} {titles : List Text} (h : IndexInv idx titles) {g : Gram}
    {ixs : List Nat} (hs : dictGet idx.dict g = some ixs) :
    ixs = (List.range titles.length).filter (fun ix => decide (g ∈ recGrams titles ix)) := by
  rw [← h.postings g, hs]; rfl

/-- postings are strictly ascending -/
theorem IndexInv.postings_sorted {idx : Index} {titles : List Text} (h : IndexInv idx titles) (g : Gram) :
    ((dictGet idx.dict g).getD []).Pairwise (· < ·) := by
  rw [h.postings g]
  exact List.Pairwise.sublist List.filter_sublist List.pairwise_lt_range

/-! ## the trap sites never fire -/

/-- the `debug_assert!` of `TrigramIndex::add` (postings strictly increasing) holds when the next position is
    added -/
theorem IndexInv.addSafe {idx : Index} {ts : List Text} (h : IndexInv idx ts) (t : Text) :
    idx.addSafe ts.length t = true := by
  unfold Index.addSafe
  rw [List.all_eq_true]
  intro g _
  split
  · rename_i ixs hs
    split
    · rename_i l hl
      have hm : l ∈ ixs := List.mem_of_getLast? hl
      have : l ∈ (dictGet idx.dict g).getD [] := by rw [hs]; exact hm
      simpa using (h.mem_postings.mp this).1
    · rfl
  · rfl

/-- the `get_unchecked_mut(ix)` on the counter vector in `TrigramIndex::prepare` is in range: every posting
    is smaller than the counter `len` (trigram-counter part of C19) -/
theorem IndexInv.prepareSafe {idx : Index} {titles : List Text} (h : IndexInv idx titles) (q : Text) :
    idx.prepareSafe q = true := by
  unfold Index.prepareSafe
  rw [List.all_eq_true]
  intro g _
  split
  · rename_i ixs hs
    rw [List.all_eq_true]
    intro ix hix
    have : ix ∈ (dictGet idx.dict g).getD [] := by rw [hs]; exact hix
    have := (h.mem_postings.mp this).1
    simpa [h.len] using this
  · rfl

/-! ## the counting loop -/

theorem length_bump (counts : List Nat) (ix : Nat) : (bump counts ix).length = counts.length := by
  simp [bump]

theorem getElem?_foldl_bump (l : List Nat) (counts : List Nat) (i : Nat) :
    (l.foldl bump counts)[i]? = counts[i]?.map (· + l.count i) := by
  induction l generalizing counts with
  | nil => rw [List.foldl_nil]; generalize counts[i]? = o; cases o <;> simp
  | cons a l ih =>
    rw [List.foldl_cons, ih, bump, List.getElem?_modify, List.count_cons]
    generalize counts[i]? = o
    cases o with
    | none => simp
    | some c =>
      by_cases hai : a = i
      · subst hai; simp; omega
      · simp [hai]

theorem count_filter_range (p : Nat → Bool) (n i : Nat) :
    ((List.range n).filter p).count i = if i < n ∧ p i = true then 1 else 0 := by
  induction n with
  | zero => simp
  | succ n ih =>
    rw [List.range_succ, List.filter_append, List.count_append, ih, List.filter_cons, List.filter_nil]
    by_cases hin : i = n
    · subst hin
      by_cases hp : p i = true
      · simp [hp]
      · simp [hp]
    · have hni : ¬ n = i := fun e => hin e.symm
      by_cases hp : p n = true
      · simp only [hp, if_true, List.count_cons, List.count_nil, beq_iff_eq, hni, if_false]
        by_cases h1 : i < n
        · have : i < n + 1 := by omega
          simp [h1, this]
        · have : ¬ i < n + 1 := by omega
          simp [h1, this]
      · simp only [hp]
        by_cases h1 : i < n
        · have : i < n + 1 := by omega
          simp [h1, this]
        · have : ¬ i < n + 1 := by omega
          simp [h1, this]

theorem countShared_eq_foldl (idx : Index) (qgrams : List Gram) :
    countShared idx qgrams
      = qgrams.foldl (fun counts g => ((dictGet idx.dict g).getD []).foldl bump counts)
          (List.replicate idx.len 0) := by
  unfold countShared
  congr 1
  funext counts g
  cases dictGet idx.dict g <;> rfl

theorem IndexInv.count_postings {idx : Index} {titles : List Text} (h : IndexInv idx titles) (g : Gram) (i : Nat) :
    ((dictGet idx.dict g).getD []).count i = if g ∈ recGrams titles i then 1 else 0 := by
  rw [h.postings g, count_filter_range]
  by_cases hi : i < titles.length
  · simp [hi]
  · simp [hi, recGrams_of_ge (Nat.le_of_not_lt hi)]

theorem IndexInv.getElem?_count_loop {idx : Index} {titles : List Text} (h : IndexInv idx titles)
    (qs : List Gram) (counts : List Nat) (i : Nat) :
    (qs.foldl (fun counts g => ((dictGet idx.dict g).getD []).foldl bump counts) counts)[i]?
      = counts[i]?.map (· + (qs.filter (fun g => decide (g ∈ recGrams titles i))).length) := by
  induction qs generalizing counts with
  | nil => rw [List.foldl_nil]; generalize counts[i]? = o; cases o <;> simp
  | cons g qs ih =>
    rw [List.foldl_cons, ih, getElem?_foldl_bump, h.count_postings, List.filter_cons]
    generalize counts[i]? = o
    cases o with
    | none => simp
    | some c =>
      by_cases hg : g ∈ recGrams titles i
      · simp [hg]; omega
      · simp [hg]

/-- number of distinct grams of the query `q` that occur in the record at position `ix` -/
def sharedCount (titles : List Text) (q : Text) (ix : Nat) : Nat :=
  ((collectGrams q).filter (fun g => decide (g ∈ recGrams titles ix))).length

theorem sharedCount_eq {titles : List Text} {ix : Nat} (h : ix < titles.length) (q : Text) :
    sharedCount titles q ix = ((collectGrams q).filter (fun g => decide (g ∈ collectGrams titles[ix]))).length := by
  unfold sharedCount; rw [recGrams_eq h]

theorem sharedCount_pos_iff {titles : List Text} {q : Text} {ix : Nat} :
    0 < sharedCount titles q ix ↔ ∃ g, g ∈ collectGrams q ∧ g ∈ recGrams titles ix := by
  unfold sharedCount
  rw [List.length_pos_iff_exists_mem]
  simp [List.mem_filter]

theorem sharedCount_of_no_words (titles : List Text) {q : Text} (h : q.words = []) (ix : Nat) :
    sharedCount titles q ix = 0 := by
  simp [sharedCount, collectGrams_of_no_words h]

/-- the counter vector after the counting loop: one entry per record, holding the number of distinct query
    grams that occur in that record -/
theorem IndexInv.countShared_eq {idx : Index} {titles : List Text} (h : IndexInv idx titles) (q : Text) :
    countShared idx (collectGrams q) = (List.range titles.length).map (sharedCount titles q) := by
  rw [countShared_eq_foldl]
  apply List.ext_getElem?
  intro i
  rw [h.getElem?_count_loop, h.len]
  by_cases hi : i < titles.length
  · simp [hi, sharedCount]
  · simp [hi]

/-- the input of the bounded selection: the records with a positive count, in position order -/
theorem IndexInv.positiveCounts_eq {idx : Index} {titles : List Text} (h : IndexInv idx titles) (q : Text) :
    positiveCounts idx q
      = ((List.range titles.length).map (fun ix => (ix, sharedCount titles q ix))).filter
          (fun p => decide (p.2 > 0)) := by
  unfold positiveCounts
  rw [h.countShared_eq]
  congr 1
  apply List.ext_getElem?
  intro i
  by_cases hi : i < titles.length
  · simp [hi]
  · simp [hi]

theorem IndexInv.mem_positiveCounts {idx : Index} {titles : List Text} (h : IndexInv idx titles) (q : Text)
    (p : Nat × Nat) :
    p ∈ positiveCounts idx q ↔ p.1 < titles.length ∧ p.2 = sharedCount titles q p.1 ∧ 0 < p.2 := by
  rw [h.positiveCounts_eq]
  obtain ⟨a, b⟩ := p
  simp only [List.mem_filter, List.mem_map, List.mem_range, Prod.mk.injEq, decide_eq_true_eq]
  constructor
  · rintro ⟨⟨ix, hix, rfl, rfl⟩, hp⟩; exact ⟨hix, rfl, hp⟩
  · rintro ⟨h1, h2, h3⟩; exact ⟨⟨a, h1, rfl, h2.symm⟩, h3⟩

theorem IndexInv.positiveCounts_fst {idx : Index} {titles : List Text} (h : IndexInv idx titles) (q : Text) :
    (positiveCounts idx q).map (·.1)
      = (List.range titles.length).filter (fun ix => decide (0 < sharedCount titles q ix)) := by
  rw [h.positiveCounts_eq, List.filter_map, List.map_map]
  have : ((fun x : Nat × Nat => x.1) ∘ fun ix => (ix, sharedCount titles q ix)) = id := by
    funext ix; rfl
  rw [this, List.map_id]
  rfl

theorem IndexInv.positiveCounts_fst_nodup {idx : Index} {titles : List Text} (h : IndexInv idx titles) (q : Text) :
    ((positiveCounts idx q).map (·.1)).Nodup := by
  rw [h.positiveCounts_fst]
  exact List.Nodup.sublist List.filter_sublist List.nodup_range

theorem IndexInv.positiveCounts_of_no_words {idx : Index} {titles : List Text} (h : IndexInv idx titles)
    {q : Text} (hq : q.words = []) : positiveCounts idx q = [] := by
  rw [h.positiveCounts_eq, List.filter_eq_nil_iff]
  intro p hp
  obtain ⟨ix, _, rfl⟩ := List.mem_map.mp hp
  simp [sharedCount_of_no_words titles hq]

/-! ## generic consequences of the top-k specification -/

section TopKFacts
variable {α : Type} {le : α → α → Bool} {k : Nat} {xs ys : List α}

theorem TopK.mem_of_mem (h : TopK le k xs ys) {y : α} (hy : y ∈ ys) : y ∈ xs := by
  obtain ⟨_, _, rest, hp, _⟩ := h
  exact hp.subset (List.mem_append_left _ hy)

theorem TopK.length_le (h : TopK le k xs ys) : ys.length ≤ k := by
  rw [h.2.1]; exact Nat.min_le_left _ _

/-- if the input is not longer than the cap, nothing is omitted -/
theorem TopK.perm_of_length_le (h : TopK le k xs ys) (hk : xs.length ≤ k) : ys.Perm xs := by
  obtain ⟨_, hlen, rest, hp, _⟩ := h
  have h1 := hp.length_eq
  rw [List.length_append] at h1
  have h2 : ys.length = xs.length := by rw [hlen]; exact Nat.min_eq_right hk
  have : rest = [] := List.eq_nil_of_length_eq_zero (by omega)
  subst this
  simpa using hp

/-- if the input is at least as long as the cap, exactly `k` items are selected -/
theorem TopK.length_of_le (h : TopK le k xs ys) (hk : k ≤ xs.length) : ys.length = k := by
  rw [h.2.1]; exact Nat.min_eq_left hk

/-- an input item that was not selected is not better than any selected one -/
theorem TopK.le_of_not_mem (h : TopK le k xs ys) {x : α} (hx : x ∈ xs) (hn : x ∉ ys) {y : α} (hy : y ∈ ys) :
    le y x = true := by
  obtain ⟨_, _, rest, hp, hle⟩ := h
  have : x ∈ ys ++ rest := hp.symm.subset hx
  rcases List.mem_append.mp this with h1 | h1
  · exact absurd h1 hn
  · exact hle y hy x h1

theorem TopK.map_nodup {β : Type} (f : α → β) (h : TopK le k xs ys) (hx : (xs.map f).Nodup) :
    (ys.map f).Nodup := by
  obtain ⟨_, _, rest, hp, _⟩ := h
  have h1 : ((ys ++ rest).map f).Nodup := (hp.map f).nodup_iff.mpr hx
  rw [List.map_append] at h1
  exact (List.nodup_append.mp h1).1

end TopKFacts

/-! ## `Index.prepare` is a bounded top-k selection of the positive counts -/

theorem IndexInv.prepare_topk {idx : Index} {titles : List Text} (hI : IndexInv idx titles)
    (S : Sorter) (hS : SorterOK S) (K : Consts) (hK : 1 ≤ K.sortFactor) (q : Text) (size : Nat) :
    ∃ sel, TopK countLe (size * K.prepFactor) (positiveCounts idx q) sel ∧
      idx.prepare S K q size = sel.map (·.1) := by
  by_cases hq : q.words = []
  · refine ⟨[], ?_, ?_⟩
    · rw [hI.positiveCounts_of_no_words hq]
      exact ⟨List.Pairwise.nil, by simp, [], by simp, by simp⟩
    · simp [Index.prepare, hq]
  · refine ⟨_, limitSort_TopK countLe_preorder (hS countLe countLe_preorder) K.sortFactor hK
      (size * K.prepFactor) (positiveCounts idx q), ?_⟩
    have : ¬ q.words.length = 0 := fun h => hq (List.eq_nil_of_length_eq_zero h)
    simp [Index.prepare, this]

/-- membership in the selection, in terms of positions -/
theorem IndexInv.mem_sel {idx : Index} {titles : List Text} (hI : IndexInv idx titles) {q : Text} {k : Nat}
    {sel : List (Nat × Nat)} (hT : TopK countLe k (positiveCounts idx q) sel) {p : Nat × Nat} (hp : p ∈ sel) :
    p.1 < titles.length ∧ p.2 = sharedCount titles q p.1 ∧ 0 < p.2 :=
  (hI.mem_positiveCounts q p).mp (hT.mem_of_mem hp)

theorem IndexInv.length_positiveCounts {idx : Index} {titles : List Text} (hI : IndexInv idx titles) (q : Text) :
    (positiveCounts idx q).length
      = ((List.range titles.length).filter (fun ix => decide (0 < sharedCount titles q ix))).length := by
  rw [← hI.positiveCounts_fst, List.length_map]

/-! ## stores built by adds carry an index satisfying the invariant -/

/-- the index of the store is the trigram index of the titles of its records, and the next position is the
    number of records -/
def StoreIndexInv (st : Store) : Prop :=
  st.nextIx = st.records.length ∧ IndexInv st.index (st.records.map (·.title))

theorem StoreIndexInv.new (K : Consts) : StoreIndexInv (Store.new K) :=
  ⟨rfl, IndexInv.new⟩

theorem StoreIndexInv.add {st : Store} (h : StoreIndexInv st) (id : Nat) (title : Text) (rating : Nat) :
    StoreIndexInv (st.add id title rating) := by
  obtain ⟨h1, h2⟩ := h
  refine ⟨by simp [Store.add, h1], ?_⟩
  have := h2.add title
  simpa [Store.add, h1] using this

theorem StoreIndexInv.clear (st : Store) : StoreIndexInv st.clear :=
  ⟨rfl, IndexInv.new⟩

theorem StoreIndexInv.setLimit {st : Store} (h : StoreIndexInv st) (n : Nat) : StoreIndexInv (st.setLimit n) := h

theorem StoreIndexInv.setDividers {st : Store} (h : StoreIndexInv st) (l r : List Nat) :
    StoreIndexInv (st.setDividers l r) := h

theorem StoreIndexInv.topIxsM {st : Store} (h : StoreIndexInv st) (S : Sorter) (K : Consts) :
    StoreIndexInv (st.topIxsM S K).2 := by
  unfold Store.topIxsM
  split
  · split
    · exact h
    · exact h
  · exact h

theorem StoreIndexInv.searchM {st : Store} (h : StoreIndexInv st) (S : Sorter) (K : Consts)
    (order : List ScoreType) (q : Text) : StoreIndexInv (st.searchM S K order q).2 := by
  show StoreIndexInv (st.candidatesM S K q).2
  unfold Store.candidatesM
  split
  · exact h
  · exact h.topIxsM S K

end Lucid
