/-
  LucidProofs.Lemmas.Locality — what a search result depends on.

  * `scoreHit` (score vector, matches), the filter `hitMatches` and the rendering of a hit depend only on the
    record's own `(id, title, rating)` and the query — not on the record's position `ix`, not on other records.
  * `verdict K dv q d`: the result a record `d = (id, title, rating)` produces on its own (or `none`).
  * `mkStore` = `Store.fresh`: a new store with limit, markers, and the records added in order; it satisfies
    `StoreInv` and `StoreIndexInv`.
  * the candidate records of a search (`Store.candRecs`): distinct positions, records of the store, all sharing a
    gram with a wordy query, complete below the cap; for the empty query the `TopK topLe` selection.
  * the central characterisation `search_topK_passing`: below the cap the hits of a wordy query are a `TopK hitLe`
    selection of the scored hits of ALL records that pass on their own.
  Used by C06b, C07.
-/
import LucidModel.Gen.Consts
import LucidProofs.Lemmas.Store
import LucidProofs.Lemmas.TopKUnique
import LucidProofs.Lemmas.SearchGlue
import LucidProofs.C18

namespace Lucid

/-! ## `mkStore`: the freshly constructed store -/

/-- `Store::new()`, then the limit, the markers, then every `(id, title, rating)` record in order -/
abbrev mkStore (K : Consts) (limit : Nat) (dv : List Nat × List Nat) (recs : List (Nat × Text × Nat)) : Store :=
  Store.fresh K limit dv recs

theorem StoreInv_addAll {S : Sorter} {K : Consts} {st : Store} (h : StoreInv S K st)
    (rs : List (Nat × Text × Nat)) : StoreInv S K (st.addAll rs) := by
  induction rs generalizing st with
  | nil => exact h
  | cons r rs ih => rw [addAll_cons]; exact ih (StoreInv_add h _ _ _)

theorem StoreInv_fresh (S : Sorter) (K : Consts) (limit : Nat) (dv : List Nat × List Nat)
    (rs : List (Nat × Text × Nat)) : StoreInv S K (Store.fresh K limit dv rs) :=
  StoreInv_addAll (StoreInv_setDividers (StoreInv_setLimit (StoreInv_new S K) limit) dv.1 dv.2) rs

theorem StoreIndexInv.addAll {st : Store} (h : StoreIndexInv st) (rs : List (Nat × Text × Nat)) :
    StoreIndexInv (st.addAll rs) := by
  induction rs generalizing st with
  | nil => exact h
  | cons r rs ih => rw [addAll_cons]; exact ih (h.add _ _ _)

theorem StoreIndexInv.fresh (K : Consts) (limit : Nat) (dv : List Nat × List Nat)
    (rs : List (Nat × Text × Nat)) : StoreIndexInv (Store.fresh K limit dv rs) :=
  (((StoreIndexInv.new K).setLimit limit).setDividers dv.1 dv.2).addAll rs

/-- the index kept by `StoreInv` is the trigram index of the titles: `StoreInv` implies `StoreIndexInv` -/
theorem indexAll_inv (rs : List (Nat × Text × Nat)) : ∀ (idx : Index) (ts : List Text) (n : Nat), n = ts.length →
    IndexInv idx ts → IndexInv (indexAll idx n rs) (ts ++ rs.map (·.2.1)) := by
  induction rs with
  | nil => intro idx ts n _ h; simpa [indexAll] using h
  | cons r rs ih =>
    intro idx ts n hn h
    subst hn
    have := ih (idx.add ts.length r.2.1) (ts ++ [r.2.1]) (ts.length + 1) (by simp) (h.add r.2.1)
    simpa [indexAll] using this

theorem StoreInv.indexInv {S : Sorter} {K : Consts} {st : Store} (h : StoreInv S K st) : StoreIndexInv st := by
  refine ⟨h.nextIx, ?_⟩
  rw [h.index, rebuild_index]
  have := indexAll_inv (st.records.map Record.data) Index.new [] 0 rfl IndexInv.new
  simpa [List.map_map, Function.comp_def, Record.data] using this

theorem mkStore_setLimit (K : Consts) (l L : Nat) (dv : List Nat × List Nat) (recs : List (Nat × Text × Nat)) :
    (mkStore K L dv recs).setLimit l = mkStore K l dv recs := by
  apply Store.ext'
  · simp [Store.setLimit, fresh_nextIx]
  · simp [Store.setLimit, fresh_records]
  · simp [Store.setLimit, fresh_limit]
  · simp [Store.setLimit, fresh_dividers]
  · simp [Store.setLimit, fresh_index]
  · simp [Store.setLimit, fresh_topIxs]

/-! ## locality of `scoreHit`, `hitMatches`, `hitLe`, `render` -/

theorem scoreHit_scores (K : Consts) (order : List ScoreType) (q : Text) (r : Record) :
    (scoreHit K order q r).scores = order.map (scoreOf r.title r.rating (textMatch K r.title q).1) := rfl
theorem scoreHit_ix (K : Consts) (order : List ScoreType) (q : Text) (r : Record) : (scoreHit K order q r).ix = r.ix := rfl
theorem scoreHit_title (K : Consts) (order : List ScoreType) (q : Text) (r : Record) :
    (scoreHit K order q r).title = r.title := rfl
theorem scoreHit_rating (K : Consts) (order : List ScoreType) (q : Text) (r : Record) :
    (scoreHit K order q r).rating = r.rating := rfl

/-- the score vector depends only on the record's title and rating (and the query) -/
theorem scoreHit_scores_local (K : Consts) (order : List ScoreType) (q : Text) (r r' : Record)
    (ht : r.title = r'.title) (hr : r.rating = r'.rating) :
    (scoreHit K order q r).scores = (scoreHit K order q r').scores := by
  simp only [scoreHit_scores, ht, hr]

/-- the matches depend only on the record's title (and the query) -/
theorem scoreHit_rmatches_local (K : Consts) (order order' : List ScoreType) (q : Text) (r r' : Record)
    (ht : r.title = r'.title) :
    (scoreHit K order q r).rmatches = (scoreHit K order' q r').rmatches := by
  simp only [scoreHit_rmatches, ht]

theorem scoreHit_qmatches_local (K : Consts) (order order' : List ScoreType) (q : Text) (r r' : Record)
    (ht : r.title = r'.title) :
    (scoreHit K order q r).qmatches = (scoreHit K order' q r').qmatches := by
  simp only [scoreHit_qmatches, ht]

/-- the filter looks at the matches only -/
theorem hitMatches_local (q : Text) (h h' : Hit) (h1 : h.rmatches = h'.rmatches) (h2 : h.qmatches = h'.qmatches) :
    hitMatches q h = hitMatches q h' := by
  unfold hitMatches; rw [h1, h2]

/-- whether a record passes the filter depends only on its title (and the query) -/
theorem hitMatches_scoreHit_local (K : Consts) (order order' : List ScoreType) (q : Text) (r r' : Record)
    (ht : r.title = r'.title) :
    hitMatches q (scoreHit K order q r) = hitMatches q (scoreHit K order' q r') :=
  hitMatches_local q _ _ (scoreHit_rmatches_local K order order' q r r' ht)
    (scoreHit_qmatches_local K order order' q r r' ht)

/-- the comparison of two hits depends only on the two records' titles and ratings -/
theorem hitLe_scoreHit_local (K : Consts) (order : List ScoreType) (q : Text) (a a' b b' : Record)
    (hat : a.title = a'.title) (har : a.rating = a'.rating) (hbt : b.title = b'.title) (hbr : b.rating = b'.rating) :
    hitLe (scoreHit K order q a) (scoreHit K order q b) = hitLe (scoreHit K order q a') (scoreHit K order q b') := by
  unfold hitLe
  rw [scoreHit_scores_local K order q a a' hat har, scoreHit_scores_local K order q b b' hbt hbr]

/-- rendering with explicit markers -/
def renderWith (dv : List Nat × List Nat) (h : Hit) : Result := { id := h.id, title := highlight h dv.1 dv.2 }

theorem render_eq_renderWith (st : Store) (h : Hit) : st.render h = renderWith st.dividers h := rfl

/-- the rendering of a hit depends only on its id, title, record matches and the markers -/
theorem renderWith_local (dv : List Nat × List Nat) (h h' : Hit) (hid : h.id = h'.id) (ht : h.title = h'.title)
    (hm : h.rmatches = h'.rmatches) : renderWith dv h = renderWith dv h' := by
  simp only [renderWith, highlight, hid, ht, hm]

theorem render_local (st st' : Store) (h h' : Hit) (hd : st.dividers = st'.dividers) (hid : h.id = h'.id)
    (ht : h.title = h'.title) (hm : h.rmatches = h'.rmatches) : st.render h = st'.render h' := by
  rw [render_eq_renderWith, render_eq_renderWith, hd]; exact renderWith_local _ h h' hid ht hm

/-- … hence the rendering of a record's hit depends only on the record's id and title, the query and the markers -/
theorem renderWith_scoreHit_local (K : Consts) (order order' : List ScoreType) (dv : List Nat × List Nat) (q : Text)
    (r r' : Record) (hid : r.id = r'.id) (ht : r.title = r'.title) :
    renderWith dv (scoreHit K order q r) = renderWith dv (scoreHit K order' q r') :=
  renderWith_local dv _ _ hid ht (scoreHit_rmatches_local K order order' q r r' ht)

/-- the hit with its position forgotten -/
def Hit.noIx (h : Hit) : Hit := { h with ix := 0 }

/-- the scored hit of a record given as `(id, title, rating)` -/
def dataHit (K : Consts) (order : List ScoreType) (q : Text) (d : Nat × Text × Nat) : Hit :=
  scoreHit K order q { ix := 0, id := d.1, title := d.2.1, rating := d.2.2 }

theorem scoreHit_noIx (K : Consts) (order : List ScoreType) (q : Text) (r : Record) :
    (scoreHit K order q r).noIx = dataHit K order q r.data := rfl

theorem hitLe_noIx (a b : Hit) : hitLe a.noIx b.noIx = hitLe a b := rfl
theorem renderWith_noIx (dv : List Nat × List Nat) (h : Hit) : renderWith dv h.noIx = renderWith dv h := rfl
theorem hitMatches_noIx (q : Text) (h : Hit) : hitMatches q h.noIx = hitMatches q h := rfl

/-! ## the verdict of a record on its own -/

/-- the title has a gram (trigram or one/two-letter word start) in common with the query -/
def sharesGram (q t : Text) : Bool := (collectGrams q).any (fun g => decide (g ∈ collectGrams t))

theorem sharesGram_iff {q t : Text} : sharesGram q t = true ↔ ∃ g, g ∈ collectGrams q ∧ g ∈ collectGrams t := by
  simp [sharesGram]

/-- a record with title `t` is a hit for `q`: it is a candidate (the query has no word, or title and query share a
    gram) and its matches pass the filter. Depends on the title and the query only. -/
def isHit (K : Consts) (q t : Text) : Bool :=
  (decide (q.words = []) || sharesGram q t) &&
    hitMatches q (scoreHit K [] q { ix := 0, id := 0, title := t, rating := 0 })

/-- what a record `(id, title, rating)` yields on its own: its rendered hit, or nothing. (The rating plays no role.) -/
def verdict (K : Consts) (dv : List Nat × List Nat) (q : Text) (d : Nat × Text × Nat) : Option Result :=
  if isHit K q d.2.1 then some (renderWith dv (dataHit K [] q d)) else none

theorem verdict_rating_irrelevant (K : Consts) (dv : List Nat × List Nat) (q : Text) (id : Nat) (t : Text)
    (r r' : Nat) : verdict K dv q (id, t, r) = verdict K dv q (id, t, r') := rfl

theorem isHit_iff (K : Consts) (order : List ScoreType) (q : Text) (r : Record) :
    isHit K q r.title = true ↔
      (q.words = [] ∨ sharesGram q r.title = true) ∧ hitMatches q (scoreHit K order q r) = true := by
  unfold isHit
  rw [hitMatches_scoreHit_local K [] order q { ix := 0, id := 0, title := r.title, rating := 0 } r rfl]
  simp

theorem verdict_of_isHit (K : Consts) (order : List ScoreType) (dv : List Nat × List Nat) (q : Text) (r : Record)
    (h : isHit K q r.title = true) : verdict K dv q r.data = some (renderWith dv (scoreHit K order q r)) := by
  have h' : isHit K q r.data.2.1 = true := h
  simp only [verdict, h', if_true]
  congr 1

theorem verdict_of_not_isHit (K : Consts) (dv : List Nat × List Nat) (q : Text) (d : Nat × Text × Nat)
    (h : isHit K q d.2.1 = false) : verdict K dv q d = none := by
  simp [verdict, h]

theorem verdict_eq_some_iff (K : Consts) (order : List ScoreType) (dv : List Nat × List Nat) (q : Text) (r : Record)
    (res : Result) :
    verdict K dv q r.data = some res ↔ isHit K q r.title = true ∧ res = renderWith dv (scoreHit K order q r) := by
  by_cases h : isHit K q r.title = true
  · rw [verdict_of_isHit K order dv q r h]
    simp [h, eq_comm]
  · have h' : isHit K q r.data.2.1 = false := by
      have : isHit K q r.title = false := by simpa using h
      exact this
    rw [verdict_of_not_isHit K dv q _ h']
    simp [h]

/-! ## more generic consequences of the top-k specification -/

section TopKMore
variable {α β : Type} {le : α → α → Bool} {k : Nat} {xs xs' ys : List α}

/-- the specification does not look at the order of the input -/
theorem TopK.of_perm (h : TopK le k xs ys) (hp : xs.Perm xs') : TopK le k xs' ys := by
  obtain ⟨h1, h2, rest, h3, h4⟩ := h
  exact ⟨h1, by rw [h2, hp.length_eq], rest, h3.trans hp, h4⟩

/-- transport along a map that preserves the comparison -/
theorem TopK.mapLe (f : α → β) (le' : β → β → Bool) (hle : ∀ a b, le' (f a) (f b) = le a b)
    (h : TopK le k xs ys) : TopK le' k (xs.map f) (ys.map f) := by
  obtain ⟨h1, h2, rest, h3, h4⟩ := h
  refine ⟨?_, by simp [h2], rest.map f, ?_, ?_⟩
  · rw [List.pairwise_map]; exact h1.imp (fun {a b} hab => by rw [hle]; exact hab)
  · rw [← List.map_append]; exact h3.map f
  · intro y hy r hr
    obtain ⟨y', hy', rfl⟩ := List.mem_map.mp hy
    obtain ⟨r', hr', rfl⟩ := List.mem_map.mp hr
    rw [hle]; exact h4 y' hy' r' hr'

/-- the first `k'` of a top-`k` selection are a top-`k'` selection -/
theorem TopK.take (h : TopK le k xs ys) {k' : Nat} (hk : k' ≤ k) : TopK le k' xs (ys.take k') := by
  obtain ⟨h1, h2, rest, h3, h4⟩ := h
  refine ⟨h1.sublist (List.take_sublist _ _), ?_, ys.drop k' ++ rest, ?_, ?_⟩
  · rw [List.length_take, h2]; omega
  · rw [← List.append_assoc, List.take_append_drop]; exact h3
  · intro y hy r hr
    rcases List.mem_append.mp hr with hr | hr
    · exact take_dropped_worse h1 k' y hy r hr
    · exact h4 y (List.mem_of_mem_take hy) r hr

/-- a sorted list not longer than `k` is its own top-`k` selection -/
theorem TopK.self_of_sorted (hs : xs.Pairwise (fun a b => le a b = true)) (hk : xs.length ≤ k) :
    TopK le k xs xs :=
  ⟨hs, by omega, [], by simp, by simp⟩

end TopKMore

/-! ## list helpers -/

theorem filter_map_comm {α β : Type} (f : α → β) (p : β → Bool) (l : List α) :
    (l.map f).filter p = (l.filter (fun a => p (f a))).map f := by
  induction l with
  | nil => rfl
  | cons a l ih => by_cases h : p (f a) <;> simp [h, ih]

theorem nodup_of_map_nodup {α β : Type} (f : α → β) {l : List α} (h : (l.map f).Nodup) : l.Nodup :=
  List.Pairwise.of_map f (fun _ _ hne e => hne (congrArg f e)) h

/-- looking positions up in a record list whose `ix` fields are the positions gives records with those `ix` -/
theorem lookup_map_ix (recs : List Record) (hpos : ∀ (i : Nat) (h : i < recs.length), (recs[i]).ix = i) :
    ∀ ixs : List Nat, (∀ ix ∈ ixs, ix < recs.length) →
      (ixs.filterMap (fun ix => recs[ix]?)).map (·.ix) = ixs := by
  intro ixs
  induction ixs with
  | nil => intro _; rfl
  | cons ix ixs ih =>
    intro h
    have hlt := h ix (by simp)
    simp only [List.filterMap_cons, List.getElem?_eq_getElem hlt, List.map_cons, hpos ix hlt]
    rw [ih (fun j hj => h j (by simp [hj]))]

theorem records_map_ix {S : Sorter} {K : Consts} {st : Store} (h : StoreInv S K st) :
    st.records.map (·.ix) = List.range st.records.length := by
  apply List.ext_getElem
  · simp
  · intro i h1 h2
    simp only [List.getElem_map, List.getElem_range]
    exact h.ixPos i (by simpa using h1)

theorem records_nodup_ix {S : Sorter} {K : Consts} {st : Store} (h : StoreInv S K st) :
    (st.records.map (·.ix)).Nodup := by
  rw [records_map_ix h]; exact List.nodup_range

theorem records_nodup {S : Sorter} {K : Consts} {st : Store} (h : StoreInv S K st) : st.records.Nodup :=
  nodup_of_map_nodup _ (records_nodup_ix h)

theorem mem_records_iff {S : Sorter} {K : Consts} {st : Store} (h : StoreInv S K st) (r : Record) :
    r ∈ st.records ↔ st.records[r.ix]? = some r :=
  ⟨records_lookup h r, fun e => List.mem_of_getElem? e⟩

/-! ## the candidate records of a search -/

/-- the records at the candidate positions, in candidate order -/
def Store.candRecs (S : Sorter) (K : Consts) (st : Store) (q : Text) : List Record :=
  (st.candidatesM S K q).1.filterMap (fun ix => st.records[ix]?)

theorem hitsOf_eq_candRecs (S : Sorter) (K : Consts) (order : List ScoreType) (st : Store) (q : Text) :
    st.hitsOf K order q (st.candidatesM S K q).1 =
      ((st.candRecs S K q).map (scoreHit K order q)).filter (hitMatches q) := rfl

theorem candRecs_subset (S : Sorter) (K : Consts) (st : Store) (q : Text) :
    ∀ r ∈ st.candRecs S K q, r ∈ st.records := by
  intro r hr
  obtain ⟨ix, _, h⟩ := List.mem_filterMap.mp hr
  exact List.mem_of_getElem? h

theorem candidatesM_wordy (S : Sorter) (K : Consts) (st : Store) (q : Text) (hq : q.words ≠ []) :
    (st.candidatesM S K q).1 = st.index.prepare S K q st.limit := by
  have : q.words.length > 0 := List.length_pos_iff.mpr hq
  simp [Store.candidatesM, this]

/-- number of grams shared, in terms of `sharesGram` -/
theorem sharedCount_pos_iff_sharesGram {titles : List Text} {q : Text} {ix : Nat} (h : ix < titles.length) :
    0 < sharedCount titles q ix ↔ sharesGram q titles[ix] = true := by
  rw [sharedCount_pos_iff, sharesGram_iff, recGrams_eq h]

theorem sharingPositions_length_le (titles : List Text) (q : Text) :
    (sharingPositions titles q).length ≤ titles.length := by
  unfold sharingPositions
  exact Nat.le_trans (List.length_filter_le _ _) (by simp)

section Cand
variable {S : Sorter} {K : Consts} {st : Store}

/-- wordy query: the candidate positions are in range -/
theorem candidates_range_wordy (hS : SorterOK S) (hK : 1 ≤ K.sortFactor) (h : StoreInv S K st) (q : Text)
    (hq : q.words ≠ []) : ∀ ix ∈ (st.candidatesM S K q).1, ix < st.records.length := by
  intro ix hix
  rw [candidatesM_wordy S K st q hq] at hix
  have := (C18_in_range_and_shares S hS K hK _ _ h.indexInv.2 q st.limit ix hix).1
  simpa using this

/-- the positions of the candidate records are the candidate positions -/
theorem candRecs_map_ix (hS : SorterOK S) (hK : 1 ≤ K.sortFactor) (h : StoreInv S K st) (q : Text) :
    (st.candRecs S K q).map (·.ix) = (st.candidatesM S K q).1 := by
  by_cases hq : q.words = []
  · unfold Store.candRecs
    rw [candidatesM_empty h q hq,
      filterMap_lookup st.records (st.cand S K)
        (fun r hr => records_lookup h r (TopK_mem_input (cand_TopK S hS K hK st) r hr))]
  · exact lookup_map_ix st.records h.ixPos _ (candidates_range_wordy hS hK h q hq)

/-- the candidate list never contains a position twice (any query) -/
theorem candidates_nodup (hS : SorterOK S) (hK : 1 ≤ K.sortFactor) (h : StoreInv S K st) (q : Text) :
    (st.candidatesM S K q).1.Nodup := by
  by_cases hq : q.words = []
  · rw [candidatesM_empty h q hq]
    exact (cand_TopK S hS K hK st).map_nodup _ (records_nodup_ix h)
  · rw [candidatesM_wordy S K st q hq]
    exact C18_nodup S hS K hK _ _ h.indexInv.2 q st.limit

theorem candRecs_nodup_ix (hS : SorterOK S) (hK : 1 ≤ K.sortFactor) (h : StoreInv S K st) (q : Text) :
    ((st.candRecs S K q).map (·.ix)).Nodup := by
  rw [candRecs_map_ix hS hK h q]; exact candidates_nodup hS hK h q

theorem candRecs_nodup (hS : SorterOK S) (hK : 1 ≤ K.sortFactor) (h : StoreInv S K st) (q : Text) :
    (st.candRecs S K q).Nodup := nodup_of_map_nodup _ (candRecs_nodup_ix hS hK h q)

/-- empty query: the candidate records are the `TopK topLe` selection -/
theorem candRecs_empty (hS : SorterOK S) (hK : 1 ≤ K.sortFactor) (h : StoreInv S K st) (q : Text)
    (hq : q.words = []) : st.candRecs S K q = st.cand S K := by
  unfold Store.candRecs
  rw [candidatesM_empty h q hq,
    filterMap_lookup st.records (st.cand S K)
      (fun r hr => records_lookup h r (TopK_mem_input (cand_TopK S hS K hK st) r hr))]

/-- wordy query: every candidate record shares a gram with the query -/
theorem candRecs_shares (hS : SorterOK S) (hK : 1 ≤ K.sortFactor) (h : StoreInv S K st) (q : Text)
    (hq : q.words ≠ []) : ∀ r ∈ st.candRecs S K q, sharesGram q r.title = true := by
  intro r hr
  obtain ⟨ix, hix, hget⟩ := List.mem_filterMap.mp hr
  rw [candidatesM_wordy S K st q hq] at hix
  obtain ⟨h1, h2⟩ := C18_in_range_and_shares S hS K hK _ _ h.indexInv.2 q st.limit ix hix
  have h3 := (sharedCount_pos_iff_sharesGram h1).mp h2
  have hlt : ix < st.records.length := by simpa using h1
  rw [List.getElem?_eq_getElem hlt] at hget
  have : r = st.records[ix] := (Option.some.inj hget).symm
  subst this
  simpa using h3

/-- wordy query below the cap: every record sharing a gram with the query is a candidate -/
theorem candRecs_complete (hS : SorterOK S) (hK : 1 ≤ K.sortFactor) (h : StoreInv S K st) (q : Text)
    (hq : q.words ≠ []) (hcap : st.records.length ≤ st.limit * K.prepFactor) :
    ∀ r ∈ st.records, sharesGram q r.title = true → r ∈ st.candRecs S K q := by
  intro r hr hs
  obtain ⟨i, hi, rfl⟩ := List.mem_iff_getElem.mp hr
  have hi' : i < (st.records.map (·.title)).length := by simpa using hi
  have hpos : 0 < sharedCount (st.records.map (·.title)) q i :=
    (sharedCount_pos_iff_sharesGram hi').mpr (by simpa using hs)
  have hc : (sharingPositions (st.records.map (·.title)) q).length ≤ st.limit * K.prepFactor :=
    Nat.le_trans (sharingPositions_length_le _ _) (by simpa using hcap)
  have := C18_all_listed_below_cap S hS K hK _ _ h.indexInv.2 q st.limit hc i hi' hpos
  unfold Store.candRecs
  rw [candidatesM_wordy S K st q hq]
  exact List.mem_filterMap.mpr ⟨i, this, List.getElem?_eq_getElem hi⟩

end Cand

/-! ## the hits as a bounded selection of the records that pass on their own -/

/-- the scored hits of all records that are hits on their own (`isHit`), in store order -/
def Store.passing (K : Consts) (order : List ScoreType) (st : Store) (q : Text) : List Hit :=
  (st.records.filter (fun r => isHit K q r.title)).map (scoreHit K order q)

/-- candidate condition alone -/
def isCand (q t : Text) : Bool := decide (q.words = []) || sharesGram q t

theorem passing_eq (K : Consts) (order : List ScoreType) (st : Store) (q : Text) :
    st.passing K order q =
      ((st.records.filter (fun r => isCand q r.title)).map (scoreHit K order q)).filter (hitMatches q) := by
  rw [filter_map_comm, List.filter_filter]
  unfold Store.passing
  congr 1
  apply List.filter_congr
  intro r _
  unfold isHit isCand
  rw [hitMatches_scoreHit_local K [] order q { ix := 0, id := 0, title := r.title, rating := 0 } r rfl]
  exact Bool.and_comm _ _

section Central
variable {S : Sorter} {K : Consts} {st : Store}

/-- the hits are a `TopK hitLe` selection of the filtered scored candidates, rendered (restates `C06_topk`) -/
theorem search_topK (hS : SorterOK S) (hK : 1 ≤ K.sortFactor) (order : List ScoreType) (st : Store) (q : Text) :
    ∃ top, TopK hitLe st.limit (st.hitsOf K order q (st.candidatesM S K q).1) top ∧
      st.search S K order q = top.map (renderWith st.dividers) :=
  ⟨_, limitSort_TopK hitLe_preorder (hS hitLe hitLe_preorder) K.sortFactor hK st.limit _,
    search_eq_limitSort S K order st q⟩

/-- below the cap (and, for the empty query, below the limit) the candidate records are exactly the records meeting
    the candidate condition, possibly in another order -/
theorem candRecs_perm (hS : SorterOK S) (hK : 1 ≤ K.sortFactor) (h : StoreInv S K st) (q : Text)
    (hcap : st.records.length ≤ st.limit * K.prepFactor)
    (hq : q.words ≠ [] ∨ st.records.length ≤ st.limit) :
    (st.candRecs S K q).Perm (st.records.filter (fun r => isCand q r.title)) := by
  by_cases hw : q.words = []
  · have hlen : st.records.length ≤ st.limit := hq.resolve_left (fun h => h hw)
    rw [candRecs_empty hS hK h q hw]
    have : st.records.filter (fun r => isCand q r.title) = st.records :=
      List.filter_eq_self.mpr (fun r _ => by simp [isCand, hw])
    rw [this]
    exact TopK_perm_of_short (cand_TopK S hS K hK st) hlen
  · rw [List.perm_ext_iff_of_nodup (candRecs_nodup hS hK h q)
      ((records_nodup h).sublist List.filter_sublist)]
    intro r
    rw [List.mem_filter]
    constructor
    · intro hr
      exact ⟨candRecs_subset S K st q r hr, by simp [isCand, candRecs_shares hS hK h q hw r hr]⟩
    · rintro ⟨hr, hc⟩
      have : sharesGram q r.title = true := by simpa [isCand, hw] using hc
      exact candRecs_complete hS hK h q hw hcap r hr this

theorem hitsOf_perm_passing (hS : SorterOK S) (hK : 1 ≤ K.sortFactor) (order : List ScoreType)
    (h : StoreInv S K st) (q : Text) (hcap : st.records.length ≤ st.limit * K.prepFactor)
    (hq : q.words ≠ [] ∨ st.records.length ≤ st.limit) :
    (st.hitsOf K order q (st.candidatesM S K q).1).Perm (st.passing K order q) := by
  rw [hitsOf_eq_candRecs, passing_eq]
  exact ((candRecs_perm hS hK h q hcap hq).map _).filter _

/-- CENTRAL: below the cap the hits of a wordy query (any query when the store is not over the limit) are a
    `TopK hitLe` selection of the scored hits of ALL records that are hits on their own -/
theorem search_topK_passing (hS : SorterOK S) (hK : 1 ≤ K.sortFactor) (order : List ScoreType)
    (h : StoreInv S K st) (q : Text) (hcap : st.records.length ≤ st.limit * K.prepFactor)
    (hq : q.words ≠ [] ∨ st.records.length ≤ st.limit) :
    ∃ top, TopK hitLe st.limit (st.passing K order q) top ∧
      st.search S K order q = top.map (renderWith st.dividers) := by
  obtain ⟨top, ht, he⟩ := search_topK hS hK order st q
  exact ⟨top, ht.of_perm (hitsOf_perm_passing hS hK order h q hcap hq), he⟩

/-- empty query: the hits are a `TopK hitLe` selection of the scored `TopK topLe` selection of the records -/
theorem search_topK_empty (hS : SorterOK S) (hK : 1 ≤ K.sortFactor) (order : List ScoreType)
    (h : StoreInv S K st) (q : Text) (hq : q.words = []) :
    ∃ cand top, TopK topLe st.limit st.records cand ∧ TopK hitLe st.limit (cand.map (scoreHit K order q)) top ∧
      st.search S K order q = top.map (renderWith st.dividers) := by
  obtain ⟨top, ht, he⟩ := search_topK hS hK order st q
  rw [hitsOf_empty S hS K hK order h q hq] at ht
  exact ⟨_, top, cand_TopK S hS K hK st, ht, he⟩

end Central

/-! ## strictness of the order under pairwise distinct ratings -/

theorem scoresLe_antisymm : ∀ a b : List Int, a.length = b.length → scoresLe a b = true → scoresLe b a = true → a = b
  | [], [], _, _, _ => rfl
  | [], _ :: _, h, _, _ => by simp at h
  | _ :: _, [], h, _, _ => by simp at h
  | a :: as, b :: bs, hl, h1, h2 => by
    by_cases hab : a = b
    · subst hab
      simp only [scoresLe, if_true] at h1 h2
      rw [scoresLe_antisymm as bs (by simpa using hl) h1 h2]
    · have hba : ¬ b = a := fun e => hab e.symm
      simp only [scoresLe, hab, hba, if_false, decide_eq_true_eq] at h1 h2
      omega

/-- when the score order contains the rating, two hits that tie in both directions have the same rating -/
theorem hitLe_antisymm_rating (K : Consts) (order : List ScoreType) (hr : ScoreType.rating ∈ order) (q : Text)
    (a b : Record) (h1 : hitLe (scoreHit K order q a) (scoreHit K order q b) = true)
    (h2 : hitLe (scoreHit K order q b) (scoreHit K order q a) = true) : a.rating = b.rating := by
  unfold hitLe at h1 h2
  have he := scoresLe_antisymm _ _ (by simp [scoreHit_scores]) h1 h2
  rw [scoreHit_scores, scoreHit_scores, List.map_inj_left] at he
  have := he _ hr
  simp only [scoreOf] at this
  omega

theorem topLe_antisymm_rating (a b : Record) (h1 : topLe a b = true) (h2 : topLe b a = true) :
    a.rating = b.rating := by
  unfold topLe at h1 h2
  by_cases hab : a.rating = b.rating
  · exact hab
  · have hba : ¬ b.rating = a.rating := fun e => hab e.symm
    simp only [hab, hba, if_false, decide_eq_true_eq] at h1 h2
    omega

theorem inj_of_pairwise_ne {α β : Type} (f : α → β) : ∀ (l : List α), l.Pairwise (fun a b => f a ≠ f b) →
    ∀ a ∈ l, ∀ b ∈ l, f a = f b → a = b
  | [], _, a, ha, _, _, _ => by simp at ha
  | x :: l, hp, a, ha, b, hb, e => by
    rw [List.pairwise_cons] at hp
    rcases List.mem_cons.mp ha with rfl | ha' <;> rcases List.mem_cons.mp hb with rfl | hb'
    · rfl
    · exact absurd e (hp.1 b hb')
    · exact absurd e.symm (hp.1 a ha')
    · exact inj_of_pairwise_ne f l hp.2 a ha' b hb' e

/-- "pairwise distinct ratings" for a list of `(id, title, rating)` records -/
def DistinctRatings (recs : List (Nat × Text × Nat)) : Prop := recs.Pairwise (fun a b => a.2.2 ≠ b.2.2)

theorem DistinctRatings.perm {recs recs' : List (Nat × Text × Nat)} (h : DistinctRatings recs)
    (hp : recs.Perm recs') : DistinctRatings recs' :=
  hp.pairwise h (fun {_ _} hab e => hab e.symm)

theorem DistinctRatings.records {st : Store} (h : DistinctRatings (st.records.map Record.data)) :
    st.records.Pairwise (fun a b => a.rating ≠ b.rating) := by
  unfold DistinctRatings at h
  rw [List.pairwise_map] at h
  exact h

/-- the comparison of two records given as data -/
def dataLe (K : Consts) (order : List ScoreType) (q : Text) (a b : Nat × Text × Nat) : Bool :=
  hitLe (dataHit K order q a) (dataHit K order q b)

theorem dataLe_preorder (K : Consts) (order : List ScoreType) (q : Text) : Preorder' (dataLe K order q) :=
  ⟨fun _ _ _ => hitLe_preorder.trans _ _ _, fun _ _ => hitLe_preorder.total _ _⟩

theorem dataLe_record (K : Consts) (order : List ScoreType) (q : Text) (a b : Record) :
    dataLe K order q a.data b.data = hitLe (scoreHit K order q a) (scoreHit K order q b) := rfl

/-- under distinct ratings (and a score order containing the rating) `dataLe` has no ties -/
theorem dataLe_antisymm (K : Consts) (order : List ScoreType) (hr : ScoreType.rating ∈ order) (q : Text)
    {recs : List (Nat × Text × Nat)} (hd : DistinctRatings recs) :
    ∀ a ∈ recs, ∀ b ∈ recs, dataLe K order q a b = true → dataLe K order q b a = true → a = b := by
  intro a ha b hb h1 h2
  exact inj_of_pairwise_ne (fun d : Nat × Text × Nat => d.2.2) recs hd a ha b hb
    (hitLe_antisymm_rating K order hr q _ _ h1 h2)

/-! ## the hits as the sorted prefix of the records that pass on their own -/

theorem TopK.sorted_take {α : Type} {le : α → α → Bool} {xs : List α}
    (hs : xs.Pairwise (fun a b => le a b = true)) (k : Nat) : TopK le k xs (xs.take k) :=
  ⟨hs.sublist (List.take_sublist _ _), by rw [List.length_take], xs.drop k, by rw [List.take_append_drop],
    take_dropped_worse hs k⟩

theorem map_renderWith_noIx (dv : List Nat × List Nat) (l : List Hit) :
    (l.map Hit.noIx).map (renderWith dv) = l.map (renderWith dv) := by
  rw [List.map_map]; rfl

theorem map_scoreHit_noIx (K : Consts) (order : List ScoreType) (q : Text) (l : List Record) :
    (l.map (scoreHit K order q)).map Hit.noIx = (l.map Record.data).map (dataHit K order q) := by
  rw [List.map_map, List.map_map]; rfl

theorem passing_noIx (K : Consts) (order : List ScoreType) (st : Store) (q : Text) :
    (st.passing K order q).map Hit.noIx =
      ((st.records.map Record.data).filter (fun d => isHit K q d.2.1)).map (dataHit K order q) := by
  unfold Store.passing
  rw [map_scoreHit_noIx, filter_map_comm]
  rfl

section Sorted
variable {S : Sorter} {K : Consts} {st : Store}

/-- CORE: if `ds` lists the records that are hits on their own, sorted by the hit order, and the order has no ties
    on `ds`, the results are the first `limit` entries of `ds`, rendered. -/
theorem search_eq_sorted_take (hS : SorterOK S) (hK : 1 ≤ K.sortFactor) (order : List ScoreType)
    (h : StoreInv S K st) (q : Text) (hcap : st.records.length ≤ st.limit * K.prepFactor)
    (hq : q.words ≠ [] ∨ st.records.length ≤ st.limit)
    (ds : List (Nat × Text × Nat))
    (hp : ds.Perm ((st.records.map Record.data).filter (fun d => isHit K q d.2.1)))
    (hs : ds.Pairwise (fun a b => dataLe K order q a b = true))
    (anti : ∀ a ∈ ds, ∀ b ∈ ds, dataLe K order q a b = true → dataLe K order q b a = true → a = b) :
    st.search S K order q = (ds.take st.limit).map (fun d => renderWith st.dividers (dataHit K order q d)) := by
  obtain ⟨top, ht, he⟩ := search_topK_passing hS hK order h q hcap hq
  have T1 : TopK hitLe st.limit (ds.map (dataHit K order q)) (top.map Hit.noIx) := by
    have := ht.mapLe Hit.noIx hitLe hitLe_noIx
    rw [passing_noIx] at this
    exact this.of_perm (hp.symm.map _)
  have hs' : (ds.map (dataHit K order q)).Pairwise (fun a b => hitLe a b = true) := by
    rw [List.pairwise_map]; exact hs
  have T2 := TopK.sorted_take hs' st.limit
  have anti' : ∀ a ∈ ds.map (dataHit K order q), ∀ b ∈ ds.map (dataHit K order q),
      hitLe a b = true → hitLe b a = true → a = b := by
    intro a ha b hb h1 h2
    obtain ⟨da, hda, rfl⟩ := List.mem_map.mp ha
    obtain ⟨db, hdb, rfl⟩ := List.mem_map.mp hb
    rw [anti da hda db hdb h1 h2]
  have := TopK_unique hitLe_preorder anti' T1 T2
  rw [he, ← map_renderWith_noIx, this, ← List.map_take, List.map_map]
  rfl

/-- the canonical list: the records that are hits on their own, merge-sorted by the hit order -/
def idealOrder (K : Consts) (order : List ScoreType) (q : Text) (recs : List (Nat × Text × Nat)) :
    List (Nat × Text × Nat) :=
  (recs.filter (fun d => isHit K q d.2.1)).mergeSort (dataLe K order q)

theorem idealOrder_sorted (K : Consts) (order : List ScoreType) (q : Text) (recs : List (Nat × Text × Nat)) :
    (idealOrder K order q recs).Pairwise (fun a b => dataLe K order q a b = true) :=
  List.pairwise_mergeSort (dataLe_preorder K order q).trans
    (fun a b => by simpa using (dataLe_preorder K order q).total a b) _

theorem idealOrder_perm (K : Consts) (order : List ScoreType) (q : Text) (recs : List (Nat × Text × Nat)) :
    (idealOrder K order q recs).Perm (recs.filter (fun d => isHit K q d.2.1)) :=
  List.mergeSort_perm _ _

theorem idealOrder_mem {K : Consts} {order : List ScoreType} {q : Text} {recs : List (Nat × Text × Nat)}
    {d : Nat × Text × Nat} (h : d ∈ idealOrder K order q recs) : d ∈ recs :=
  (List.mem_filter.mp ((idealOrder_perm K order q recs).mem_iff.mp h)).1

/-- with pairwise distinct ratings the canonical list does not depend on the order of the records -/
theorem idealOrder_of_perm (K : Consts) (order : List ScoreType) (hr : ScoreType.rating ∈ order) (q : Text)
    {recs recs' : List (Nat × Text × Nat)} (hd : DistinctRatings recs) (hp : recs.Perm recs') :
    idealOrder K order q recs = idealOrder K order q recs' := by
  apply List.Perm.eq_of_pairwise (le := fun a b => dataLe K order q a b = true)
  · intro a b ha hb h1 h2
    exact dataLe_antisymm K order hr q hd a (idealOrder_mem ha) b (hp.symm.subset (idealOrder_mem hb)) h1 h2
  · exact idealOrder_sorted K order q recs
  · exact idealOrder_sorted K order q recs'
  · exact (idealOrder_perm K order q recs).trans ((hp.filter _).trans (idealOrder_perm K order q recs').symm)

/-- below the cap, with pairwise distinct ratings: the results are the first `limit` entries of the canonical list -/
theorem search_eq_ideal (hS : SorterOK S) (hK : 1 ≤ K.sortFactor) (order : List ScoreType)
    (hr : ScoreType.rating ∈ order) (h : StoreInv S K st) (q : Text)
    (hcap : st.records.length ≤ st.limit * K.prepFactor)
    (hq : q.words ≠ [] ∨ st.records.length ≤ st.limit)
    (hd : DistinctRatings (st.records.map Record.data)) :
    st.search S K order q =
      ((idealOrder K order q (st.records.map Record.data)).take st.limit).map
        (fun d => renderWith st.dividers (dataHit K order q d)) :=
  search_eq_sorted_take hS hK order h q hcap hq _ (idealOrder_perm K order q _) (idealOrder_sorted K order q _)
    (fun a ha b hb => dataLe_antisymm K order hr q hd a (idealOrder_mem ha) b (idealOrder_mem hb))

end Sorted

/-! ## the records behind the hits (`Store.listed`), any query -/

section Listed
variable {S : Sorter} {K : Consts}

theorem mem_hitsOf_iff (order : List ScoreType) (st : Store) (q : Text) (h : Hit) :
    h ∈ st.hitsOf K order q (st.candidatesM S K q).1 ↔
      ∃ r ∈ st.candRecs S K q, h = scoreHit K order q r ∧ hitMatches q (scoreHit K order q r) = true := by
  rw [hitsOf_eq_candRecs, List.mem_filter, List.mem_map]
  constructor
  · rintro ⟨⟨r, hr, rfl⟩, hm⟩; exact ⟨r, hr, rfl, hm⟩
  · rintro ⟨r, hr, rfl, hm⟩; exact ⟨⟨r, hr, rfl⟩, hm⟩

/-- the selected hits are the scored listed records (any store, any query) -/
theorem top_eq_listed_map_any (hS : SorterOK S) (hK : 1 ≤ K.sortFactor) (order : List ScoreType) (st : Store)
    (q : Text) :
    limitSort (S.sort hitLe) K.sortFactor st.limit (st.hitsOf K order q (st.candidatesM S K q).1) =
      (st.listed S K order q).map (scoreHit K order q) := by
  have ht := limitSort_TopK hitLe_preorder (hS hitLe hitLe_preorder) K.sortFactor hK st.limit
    (st.hitsOf K order q (st.candidatesM S K q).1)
  simp only [Store.listed, List.map_map]
  symm
  rw [List.map_congr_left (g := id)]
  · simp
  · intro x hx
    obtain ⟨r, _, rfl, _⟩ := (mem_hitsOf_iff order st q x).mp (ht.mem_of_mem hx)
    simp [record_scoreHit]

/-- the results are the rendered hits of the listed records, in order -/
theorem search_eq_listed (hS : SorterOK S) (hK : 1 ≤ K.sortFactor) (order : List ScoreType) (st : Store)
    (q : Text) :
    st.search S K order q =
      (st.listed S K order q).map (fun r => renderWith st.dividers (scoreHit K order q r)) := by
  rw [search_eq_limitSort, top_eq_listed_map_any hS hK order st q, List.map_map]
  rfl

theorem listed_TopK (hS : SorterOK S) (hK : 1 ≤ K.sortFactor) (order : List ScoreType) (st : Store) (q : Text) :
    TopK hitLe st.limit (st.hitsOf K order q (st.candidatesM S K q).1)
      ((st.listed S K order q).map (scoreHit K order q)) := by
  rw [← top_eq_listed_map_any hS hK order st q]
  exact limitSort_TopK hitLe_preorder (hS hitLe hitLe_preorder) K.sortFactor hK st.limit _

/-- the listed records are in hit order -/
theorem listed_sorted (hS : SorterOK S) (hK : 1 ≤ K.sortFactor) (order : List ScoreType) (st : Store) (q : Text) :
    (st.listed S K order q).Pairwise
      (fun a b => hitLe (scoreHit K order q a) (scoreHit K order q b) = true) := by
  have := (listed_TopK hS hK order st q).1
  rwa [List.pairwise_map] at this

theorem listed_length_le (hS : SorterOK S) (hK : 1 ≤ K.sortFactor) (order : List ScoreType) (st : Store) (q : Text) :
    (st.listed S K order q).length ≤ st.limit := by
  have := (listed_TopK hS hK order st q).length_le
  simpa using this

/-- a listed record is a candidate record whose hit passes the filter -/
theorem listed_mem (hS : SorterOK S) (hK : 1 ≤ K.sortFactor) (order : List ScoreType) (st : Store) (q : Text)
    (r : Record) (hr : r ∈ st.listed S K order q) :
    r ∈ st.candRecs S K q ∧ hitMatches q (scoreHit K order q r) = true := by
  have hm : scoreHit K order q r ∈ (st.listed S K order q).map (scoreHit K order q) :=
    List.mem_map.mpr ⟨r, hr, rfl⟩
  obtain ⟨r', hr', he, hmm⟩ := (mem_hitsOf_iff order st q _).mp ((listed_TopK hS hK order st q).mem_of_mem hm)
  have : r = r' := by
    have := congrArg Hit.record he
    rwa [record_scoreHit, record_scoreHit] at this
  subst this
  exact ⟨hr', hmm⟩

/-- a listed record is a record of the store and is a hit on its own -/
theorem listed_isHit {st : Store} (hS : SorterOK S) (hK : 1 ≤ K.sortFactor) (order : List ScoreType)
    (h : StoreInv S K st) (q : Text) (r : Record) (hr : r ∈ st.listed S K order q) :
    r ∈ st.records ∧ isHit K q r.title = true := by
  obtain ⟨h1, h2⟩ := listed_mem hS hK order st q r hr
  refine ⟨candRecs_subset S K st q r h1, (isHit_iff K order q r).mpr ⟨?_, h2⟩⟩
  by_cases hw : q.words = []
  · exact Or.inl hw
  · exact Or.inr (candRecs_shares hS hK h q hw r h1)

/-- no position is listed twice -/
theorem listed_nodup_ix {st : Store} (hS : SorterOK S) (hK : 1 ≤ K.sortFactor) (order : List ScoreType)
    (h : StoreInv S K st) (q : Text) : ((st.listed S K order q).map (·.ix)).Nodup := by
  have hT := listed_TopK hS hK order st q
  have h1 : ((st.hitsOf K order q (st.candidatesM S K q).1).map (·.ix)).Nodup := by
    rw [hitsOf_eq_candRecs]
    refine List.Nodup.sublist (List.filter_sublist.map _) ?_
    rw [List.map_map]
    exact candRecs_nodup_ix hS hK h q
  have := hT.map_nodup (·.ix) h1
  rwa [List.map_map] at this

theorem listed_nodup {st : Store} (hS : SorterOK S) (hK : 1 ≤ K.sortFactor) (order : List ScoreType)
    (h : StoreInv S K st) (q : Text) : (st.listed S K order q).Nodup :=
  nodup_of_map_nodup _ (listed_nodup_ix hS hK order h q)

end Listed

/-! ## invariance under reordering the records -/

/-- the comparator of `top_ixs` on records given as data -/
def dataTopLe (a b : Nat × Text × Nat) : Bool :=
  topLe { ix := 0, id := a.1, title := a.2.1, rating := a.2.2 } { ix := 0, id := b.1, title := b.2.1, rating := b.2.2 }

theorem dataTopLe_record (a b : Record) : dataTopLe a.data b.data = topLe a b := rfl

theorem dataTopLe_preorder : Preorder' dataTopLe :=
  ⟨fun _ _ _ => topLe_preorder.trans _ _ _, fun _ _ => topLe_preorder.total _ _⟩

theorem dataTopLe_antisymm {recs : List (Nat × Text × Nat)} (hd : DistinctRatings recs) :
    ∀ a ∈ recs, ∀ b ∈ recs, dataTopLe a b = true → dataTopLe b a = true → a = b := by
  intro a ha b hb h1 h2
  exact inj_of_pairwise_ne (fun d : Nat × Text × Nat => d.2.2) recs hd a ha b hb
    (topLe_antisymm_rating _ _ h1 h2)

section PermInv
variable {S : Sorter} {K : Consts}

/-- two stores (satisfying the invariant) with the same limit and markers whose records are the same
    `(id, title, rating)` triples in a different order, with pairwise distinct ratings and below the cap,
    answer every query identically -/
theorem search_perm_invariant (hS : SorterOK S) (hK : 1 ≤ K.sortFactor) (order : List ScoreType)
    (hr : ScoreType.rating ∈ order) {A B : Store} (hA : StoreInv S K A) (hB : StoreInv S K B)
    (hlim : A.limit = B.limit) (hdv : A.dividers = B.dividers)
    (hp : (A.records.map Record.data).Perm (B.records.map Record.data))
    (hd : DistinctRatings (A.records.map Record.data))
    (hcap : A.records.length ≤ A.limit * K.prepFactor) (q : Text) :
    A.search S K order q = B.search S K order q := by
  have hlen : A.records.length = B.records.length := by simpa using hp.length_eq
  by_cases hw : q.words = []
  · obtain ⟨candA, topA, TA, HA, eA⟩ := search_topK_empty hS hK order hA q hw
    obtain ⟨candB, topB, TB, HB, eB⟩ := search_topK_empty hS hK order hB q hw
    have TA' := TA.mapLe Record.data dataTopLe dataTopLe_record
    have TB' := (TB.mapLe Record.data dataTopLe dataTopLe_record).of_perm hp.symm
    rw [← hlim] at TB'
    have hc : candA.map Record.data = candB.map Record.data :=
      TopK_unique dataTopLe_preorder (dataTopLe_antisymm hd) TA' TB'
    have HA' := HA.mapLe Hit.noIx hitLe hitLe_noIx
    have HB' := HB.mapLe Hit.noIx hitLe hitLe_noIx
    rw [map_scoreHit_noIx] at HA' HB'
    rw [← hc, ← hlim] at HB'
    have anti : ∀ a ∈ (candA.map Record.data).map (dataHit K order q),
        ∀ b ∈ (candA.map Record.data).map (dataHit K order q), hitLe a b = true → hitLe b a = true → a = b := by
      intro a ha b hb h1 h2
      obtain ⟨da, hda, rfl⟩ := List.mem_map.mp ha
      obtain ⟨db, hdb, rfl⟩ := List.mem_map.mp hb
      rw [dataLe_antisymm K order hr q hd da (TA'.mem_of_mem hda) db (TA'.mem_of_mem hdb) h1 h2]
    have := TopK_unique hitLe_preorder anti HA' HB'
    rw [eA, eB, ← map_renderWith_noIx, this, map_renderWith_noIx, hdv]
  · rw [search_eq_ideal hS hK order hr hA q hcap (Or.inl hw) hd,
      search_eq_ideal hS hK order hr hB q (by rw [← hlen, ← hlim]; exact hcap) (Or.inl hw) (hd.perm hp),
      idealOrder_of_perm K order hr q hd hp, hlim, hdv]

end PermInv

/-! ## the records of `mkStore` -/

theorem mkStore_records_data (K : Consts) (limit : Nat) (dv : List Nat × List Nat) (recs : List (Nat × Text × Nat)) :
    (mkStore K limit dv recs).records.map Record.data = recs := by
  rw [fresh_records, mkRecords_map_data]

theorem mkStore_records_length (K : Consts) (limit : Nat) (dv : List Nat × List Nat) (recs : List (Nat × Text × Nat)) :
    (mkStore K limit dv recs).records.length = recs.length := by
  rw [fresh_records, mkRecords_length]

/-! ## property level: a result is the record's own verdict -/

/-- Every search result is the verdict of the record behind it: the results are, in order, the verdicts
    (`verdict` = what the record yields in a store of its own, see `C06_single_store`) of the listed records,
    which are records of the store. Any store satisfying the invariant, any query, any limit. -/
theorem C06_results_are_verdicts (S : Sorter) (hS : SorterOK S) (K : Consts) (hK : 1 ≤ K.sortFactor)
    (order : List ScoreType) (st : Store) (h : StoreInv S K st) (q : Text) :
    (st.search S K order q).map some = (st.listed S K order q).map (fun r => verdict K st.dividers q r.data) ∧
    ∀ r ∈ st.listed S K order q, r ∈ st.records := by
  refine ⟨?_, fun r hr => (listed_isHit hS hK order h q r hr).1⟩
  rw [search_eq_listed hS hK order st q, List.map_map]
  apply List.map_congr_left
  intro r hr
  rw [verdict_of_isHit K order st.dividers q r (listed_isHit hS hK order h q r hr).2]
  rfl

/-- Whether a record is a hit and how its title is highlighted depends only on that record and the query:
    every result of a search on ANY store satisfying the invariant (every reachable store, `C10_invariant`)
    is the verdict of one of the store's records — the result that record yields in a store containing it alone
    (`C06_single_store`). -/
theorem C06_local_sound (S : Sorter) (hS : SorterOK S) (K : Consts) (hK : 1 ≤ K.sortFactor)
    (order : List ScoreType) (st : Store) (h : StoreInv S K st) (q : Text) :
    ∀ res ∈ st.search S K order q, ∃ r ∈ st.records, verdict K st.dividers q r.data = some res := by
  intro res hres
  rw [search_eq_listed hS hK order st q] at hres
  obtain ⟨r, hr, rfl⟩ := List.mem_map.mp hres
  obtain ⟨h1, h2⟩ := listed_isHit hS hK order h q r hr
  exact ⟨r, h1, verdict_of_isHit K order st.dividers q r h2⟩

/-- A store containing one record `d = (id, title, rating)` alone (any limit ≥ 1, any markers) returns exactly the
    verdict of that record: one result if `verdict … = some res`, none otherwise. -/
theorem C06_single_store (S : Sorter) (hS : SorterOK S) (K : Consts) (hK : 1 ≤ K.sortFactor)
    (hP : 1 ≤ K.prepFactor) (order : List ScoreType) (limit : Nat) (hl : 1 ≤ limit) (dv : List Nat × List Nat)
    (d : Nat × Text × Nat) (q : Text) :
    (mkStore K limit dv [d]).search S K order q = (verdict K dv q d).toList := by
  have hI := StoreInv_fresh S K limit dv [d]
  have hlim : (mkStore K limit dv [d]).limit = limit := fresh_limit ..
  have hdv : (mkStore K limit dv [d]).dividers = dv := fresh_dividers ..
  have hlen : (mkStore K limit dv [d]).records.length = 1 := by rw [mkStore_records_length]; rfl
  have hcap : (mkStore K limit dv [d]).records.length ≤ (mkStore K limit dv [d]).limit * K.prepFactor := by
    rw [hlen, hlim]; exact Nat.mul_le_mul hl hP
  have hq : q.words ≠ [] ∨ (mkStore K limit dv [d]).records.length ≤ (mkStore K limit dv [d]).limit :=
    Or.inr (by rw [hlen, hlim]; exact hl)
  have key := search_eq_sorted_take hS hK order hI q hcap hq ([d].filter (fun d => isHit K q d.2.1))
    (by rw [mkStore_records_data]) (by
      by_cases hh : isHit K q d.2.1 = true <;> simp [hh])
    (by
      intro a ha b hb _ _
      have ha' := (List.mem_filter.mp ha).1
      have hb' := (List.mem_filter.mp hb).1
      simp only [List.mem_singleton] at ha' hb'
      rw [ha', hb'])
  rw [key, hlim, hdv]
  by_cases hh : isHit K q d.2.1 = true
  · have : List.take limit [d] = [d] := by
      cases limit with
      | zero => omega
      | succ n => simp
    simp only [hh, List.filter_cons_of_pos, List.filter_nil, this, List.map_cons, List.map_nil, verdict, if_true,
      Option.toList_some]
    congr 1
  · have hh' : isHit K q d.2.1 = false := by simpa using hh
    simp [hh', verdict]

/-- at the constants and score order generated from the source -/
theorem C06_local_sound_src (S : Sorter) (hS : SorterOK S) (st : Store) (h : StoreInv S Gen.srcConsts st)
    (q : Text) :
    ∀ res ∈ st.search S Gen.srcConsts Gen.srcScoreOrder q,
      ∃ r ∈ st.records, verdict Gen.srcConsts st.dividers q r.data = some res :=
  C06_local_sound S hS Gen.srcConsts (by decide) Gen.srcScoreOrder st h q

theorem C06_single_store_src (S : Sorter) (hS : SorterOK S) (limit : Nat) (hl : 1 ≤ limit)
    (dv : List Nat × List Nat) (d : Nat × Text × Nat) (q : Text) :
    (mkStore Gen.srcConsts limit dv [d]).search S Gen.srcConsts Gen.srcScoreOrder q
      = (verdict Gen.srcConsts dv q d).toList :=
  C06_single_store S hS Gen.srcConsts (by decide) (by decide) Gen.srcScoreOrder limit hl dv d q

/-- every store reachable from `Store.new` by adds, clears, setters and searches meets the hypothesis -/
theorem C06_local_sound_reachable_src (S : Sorter) (hS : SorterOK S) (ops : List StoreOp) (q : Text) :
    let st := Store.run S Gen.srcConsts Gen.srcScoreOrder (Store.new Gen.srcConsts) ops
    ∀ res ∈ st.search S Gen.srcConsts Gen.srcScoreOrder q,
      ∃ r ∈ st.records, verdict Gen.srcConsts st.dividers q r.data = some res :=
  C06_local_sound_src S hS _ (StoreInv_reachable S _ _ ops) q

/-! ### an evaluable sorter for concrete examples -/

/-- insertion step of `locInsSorter` -/
def locInsert {α : Type} (le : α → α → Bool) (x : α) : List α → List α
  | [] => [x]
  | y :: ys => if le x y then x :: y :: ys else y :: locInsert le x ys

/-- an insertion sort meeting `SorterOK`: structurally recursive (so that `decide` can run it, unlike the
    well-founded `List.mergeSort`), stable -/
def locInsSorter : Sorter := ⟨fun le l => l.foldr (locInsert le) []⟩

theorem locInsert_perm {α : Type} (le : α → α → Bool) (x : α) :
    ∀ l : List α, (locInsert le x l).Perm (x :: l)
  | [] => List.Perm.refl _
  | y :: ys => by
    unfold locInsert
    split
    · exact List.Perm.refl _
    · exact ((locInsert_perm le x ys).cons y).trans (List.Perm.swap x y ys)

theorem locInsert_sorted {α : Type} {le : α → α → Bool} (P : Preorder' le) (x : α) :
    ∀ l : List α, l.Pairwise (fun a b => le a b = true) →
      (locInsert le x l).Pairwise (fun a b => le a b = true)
  | [], _ => by simp [locInsert]
  | y :: ys, h => by
    rw [List.pairwise_cons] at h
    unfold locInsert
    split
    · rename_i hxy
      refine List.pairwise_cons.mpr ⟨?_, List.pairwise_cons.mpr h⟩
      intro z hz
      rcases List.mem_cons.mp hz with rfl | hz
      · exact hxy
      · exact P.trans _ _ _ hxy (h.1 z hz)
    · rename_i hxy
      refine List.pairwise_cons.mpr ⟨?_, locInsert_sorted P x ys h.2⟩
      intro z hz
      rcases List.mem_cons.mp ((locInsert_perm le x ys).mem_iff.mp hz) with rfl | hz
      · exact (P.total z y).resolve_left hxy
      · exact h.1 z hz

theorem locInsSorter_ok : SorterOK locInsSorter := by
  intro α le P
  refine ⟨fun l => ?_, fun l => ?_⟩
  · induction l with
    | nil => exact List.Perm.refl _
    | cons x l ih => exact (locInsert_perm le x _).trans (ih.cons x)
  · induction l with
    | nil => exact List.Pairwise.nil
    | cons x l ih => exact locInsert_sorted P x _ ih

/-! ### non-vacuity -/

example : SorterOK mergeSorter := mergeSorter_ok
example : SorterOK locInsSorter := locInsSorter_ok
example : 1 ≤ Gen.srcConsts.sortFactor ∧ 1 ≤ Gen.srcConsts.prepFactor := by decide
example (S : Sorter) (K : Consts) : StoreInv S K (mkStore K 3 ([91], [93]) [(7, default, 1), (8, default, 2)]) :=
  StoreInv_fresh ..

end Lucid
