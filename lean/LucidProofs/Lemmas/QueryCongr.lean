/-
  LucidProofs.Lemmas.QueryCongr — the search pipeline reads a query only through its words:
  their characters, classes, `offset`/`stem`/`pos`/`fin` and the gaps between them. Shifting every
  word (and the character / class arrays under the words) by a constant `d`, and changing `source`
  or anything outside the words arbitrarily, changes nothing but the `lo`/`hi` of the *query* matches.
  Used by C11.
-/
import LucidModel.Search
import LucidProofs.Lemmas.Orders
import LucidProofs.Lemmas.Sorter
import LucidProofs.Lemmas.Normalize

namespace Lucid

/-! ### shifted words, shifted matches, `QEquiv` -/

/-- the word moved right by `d` characters -/
def WordShape.shift (d : Nat) (w : WordShape) : WordShape := { w with lo := w.lo + d, hi := w.hi + d }

/-- the match moved right by `d` characters (`sub` bounds are relative to the word, so they stay) -/
def WMatch.shift (d : Nat) (m : WMatch) : WMatch := { m with lo := m.lo + d, hi := m.hi + d }

/-- `q'` is `q` shifted right by `d` positions: the words are those of `q` moved by `d` (same `offset`,
    `stem`, `pos`, `fin`), and the characters / classes of every stretch that starts at the beginning of a
    word and ends at the end of a word agree. For a text whose words are in order this says: everything
    between the start of the first word and the end of the last word agrees (`QEquiv.of_range`).
    `source`, and `chars`/`classes` outside that range, are unconstrained. -/
structure QEquiv (d : Nat) (q q' : Text) : Prop where
  words   : q'.words = q.words.map (WordShape.shift d)
  chars   : ∀ a ∈ q.words, ∀ b ∈ q.words, slice q'.chars (a.lo + d) (b.hi + d) = slice q.chars a.lo b.hi
  classes : ∀ a ∈ q.words, ∀ b ∈ q.words, slice q'.classes (a.lo + d) (b.hi + d) = slice q.classes a.lo b.hi

@[simp] theorem WordShape.shift_len (d : Nat) (w : WordShape) : (w.shift d).len = w.len := by
  simp only [WordShape.shift, WordShape.len]; omega
@[simp] theorem WordShape.shift_offset (d : Nat) (w : WordShape) : (w.shift d).offset = w.offset := rfl
@[simp] theorem WordShape.shift_stem (d : Nat) (w : WordShape) : (w.shift d).stem = w.stem := rfl
@[simp] theorem WordShape.shift_pos (d : Nat) (w : WordShape) : (w.shift d).pos = w.pos := rfl
@[simp] theorem WordShape.shift_fin (d : Nat) (w : WordShape) : (w.shift d).fin = w.fin := rfl
@[simp] theorem WordShape.shift_lo (d : Nat) (w : WordShape) : (w.shift d).lo = w.lo + d := rfl
@[simp] theorem WordShape.shift_hi (d : Nat) (w : WordShape) : (w.shift d).hi = w.hi + d := rfl

@[simp] theorem WMatch.shift_wordLen (d : Nat) (m : WMatch) : (m.shift d).wordLen = m.wordLen := by
  simp only [WMatch.shift, WMatch.wordLen]; omega
@[simp] theorem WMatch.shift_matchLen (d : Nat) (m : WMatch) : (m.shift d).matchLen = m.matchLen := rfl
@[simp] theorem WMatch.shift_offset (d : Nat) (m : WMatch) : (m.shift d).offset = m.offset := rfl
@[simp] theorem WMatch.shift_typos (d : Nat) (m : WMatch) : (m.shift d).typos = m.typos := rfl
@[simp] theorem WMatch.shift_func (d : Nat) (m : WMatch) : (m.shift d).func = m.func := rfl
@[simp] theorem WMatch.shift_fin (d : Nat) (m : WMatch) : (m.shift d).fin = m.fin := rfl
@[simp] theorem WMatch.shift_subLo (d : Nat) (m : WMatch) : (m.shift d).subLo = m.subLo := rfl
@[simp] theorem WMatch.shift_subHi (d : Nat) (m : WMatch) : (m.shift d).subHi = m.subHi := rfl

/-! ### joined words and gaps -/

/-- `WordShape.join` commutes with the shift -/
theorem WordShape.join_shift (d : Nat) (a b : WordShape) : (a.shift d).join (b.shift d) = (a.join b).shift d := by
  simp only [WordShape.join, WordShape.shift, WordShape.mk.injEq, true_and, and_true]
  omega

/-- the gap between two words is invariant under the shift -/
theorem WordShape.dist_shift (d : Nat) (a b : WordShape) : (a.shift d).dist (b.shift d) = a.dist b := by
  simp only [WordShape.dist, WordShape.shift, ge_iff_le, Nat.add_le_add_iff_right]
  split <;> omega

/-- the character and class content of word `w` of `q` is found `d` positions further in `q'` -/
def WAgree (d : Nat) (q q' : Text) (w : WordShape) : Prop :=
  wchars q' (w.shift d) = wchars q w ∧ wclasses q' (w.shift d) = wclasses q w

theorem QEquiv.agree {d : Nat} {q q' : Text} (h : QEquiv d q q') {w : WordShape} (hw : w ∈ q.words) :
    WAgree d q q' w :=
  ⟨h.chars w hw w hw, h.classes w hw w hw⟩

theorem QEquiv.agree_join {d : Nat} {q q' : Text} (h : QEquiv d q q') {a b : WordShape}
    (ha : a ∈ q.words) (hb : b ∈ q.words) : WAgree d q q' (a.join b) :=
  ⟨h.chars a ha b hb, h.classes a ha b hb⟩

/-! ### word level: `lengthCheck`, `jaccardCheck`, `cword`, `wordMatch` -/

theorem lengthCheck_shift (K : Consts) (r q : WordShape) (d : Nat) :
    lengthCheck K r (q.shift d) = lengthCheck K r q := by
  simp [lengthCheck]

theorem jaccardSlice_shift (rt : Text) (r q : WordShape) (d : Nat) :
    jaccardSlice rt r (q.shift d) = jaccardSlice rt r q := by
  simp [jaccardSlice]

theorem jaccardCheck_shift (K : Consts) (rt : Text) (r : WordShape) {d : Nat} {qt qt' : Text} {q : WordShape}
    (h : WAgree d qt qt' q) : jaccardCheck K rt r qt' (q.shift d) = jaccardCheck K rt r qt q := by
  simp [jaccardCheck, jaccardSlice_shift, h.1]

theorem cword_shift (K : Consts) {d : Nat} {qt qt' : Text} {q : WordShape} (h : WAgree d qt qt' q) :
    cword K qt' (q.shift d) = cword K qt q := by
  simp [cword, h.1, h.2]

/-- shift the query half of a pair of matches -/
def pairShift (d : Nat) (p : WMatch × WMatch) : WMatch × WMatch := (p.1, p.2.shift d)

theorem newPair_shift (K : Consts) (r q : WordShape) (d rs qs t : Nat) :
    newPair K r (q.shift d) rs qs t = pairShift d (newPair K r q rs qs t) := by
  simp [newPair, pairShift, WMatch.shift]

theorem bestUpd_shift (K : Consts) (r q : WordShape) (d rs qs dist : Nat) (best : Option (WMatch × WMatch)) :
    (match best.map (pairShift d) with
      | some p => if p.1.typos ≤ dist then some p else some (newPair K r (q.shift d) rs qs dist)
      | none => some (newPair K r (q.shift d) rs qs dist)) =
    (match best with
      | some p => if p.1.typos ≤ dist then some p else some (newPair K r q rs qs dist)
      | none => some (newPair K r q rs qs dist)).map (pairShift d) := by
  cases best with
  | none => simp [newPair_shift]
  | some p =>
    simp only [Option.map_some, newPair_shift]
    by_cases h : p.1.typos ≤ dist <;> simp [pairShift, h]

theorem wmInner_shift (c : WMCtx) (d rslice : Nat) (l : List Nat) (best : Option (WMatch × WMatch)) :
    wmInner { c with q := c.q.shift d } rslice l (best.map (pairShift d)) =
      (wmInner c rslice l best).map (pairShift d) := by
  induction l generalizing best with
  | nil => simp [wmInner]
  | cons qs rest ih =>
    simp only [wmInner, WordShape.shift_len, WordShape.shift_stem, WordShape.shift_fin]
    by_cases h1 : qs > c.q.len
    · simp only [if_pos h1]; exact ih best
    simp only [if_neg h1]
    by_cases h2 : rslice > c.r.len
    · simp only [if_pos h2]; exact ih best
    simp only [if_neg h2]
    by_cases h3 : qs < c.q.stem
    · simp only [if_pos h3]; exact ih best
    simp only [if_neg h3]
    by_cases h4 : rslice = c.left ∧ qs = c.left
    · simp only [if_pos h4]; exact ih best
    simp only [if_neg h4]
    by_cases h5 : c.q.fin = true ∧ rslice < c.r.stem
    · simp only [if_pos h5]
    simp only [if_neg h5]
    by_cases h6 : (if qs ≥ rslice then qs - rslice else rslice - qs) > 1
    · simp only [if_pos h6]; exact ih best
    simp only [if_neg h6]
    by_cases h7 : relTooBig c.K (c.cell qs rslice) qs rslice = true
    · simp only [if_pos h7]; exact ih best
    simp only [if_neg h7]
    have hb := bestUpd_shift c.K c.r c.q d rslice qs (c.cell qs rslice) best
    by_cases h8 : c.cell qs rslice = 0
    · simp only [if_pos h8]; exact hb
    · simp only [if_neg h8]
      exact (congrArg (wmInner { c with q := c.q.shift d } rslice rest) hb).trans (ih _)

theorem wmOuter_shift (c : WMCtx) (d : Nat) (range l : List Nat) (best : Option (WMatch × WMatch)) :
    wmOuter { c with q := c.q.shift d } range l (best.map (pairShift d)) =
      (wmOuter c range l best).map (pairShift d) := by
  induction l generalizing best with
  | nil => simp [wmOuter]
  | cons rs rest ih =>
    simp only [wmOuter]
    rw [wmInner_shift]; exact ih _

theorem wmLeftRaw_shift (r q : WordShape) (d : Nat) : wmLeftRaw r (q.shift d) = wmLeftRaw r q := rfl

/-- `word_match` against a shifted query word: same record match, same matrix afterwards (the `distance`
    inputs are identical), the query match shifted -/
theorem wordMatchM_shift (K : Consts) (m : Mat) (rt : Text) (r : WordShape) {d : Nat} {qt qt' : Text}
    {q : WordShape} (h : WAgree d qt qt' q) :
    wordMatchM K m rt r qt' (q.shift d) =
      ((wordMatchM K m rt r qt q).1.map (pairShift d), (wordMatchM K m rt r qt q).2) := by
  simp only [wordMatchM, WordShape.shift_len, lengthCheck_shift, jaccardCheck_shift K rt r h,
    cword_shift K h, wmLeftRaw_shift]
  by_cases h1 : q.len = 0 ∨ r.len = 0
  · simp only [if_pos h1, Option.map_none]
  simp only [if_neg h1]
  by_cases h2 : (!lengthCheck K r q) = true
  · simp only [if_pos h2, Option.map_none]
  simp only [if_neg h2]
  by_cases h3 : (!jaccardCheck K rt r qt q) = true
  · simp only [if_pos h3, Option.map_none]
  simp only [if_neg h3]
  by_cases h4 : max q.len r.len + 1 ≤ wmLeftRaw r q - 1
  · simp only [if_pos h4, Option.map_none]
  simp only [if_neg h4]
  exact congrArg (fun x => (x, _)) (wmOuter_shift
    { K := K, r := r, q := q, left := wmLeftRaw r q - 1,
      cell := fun qs rs => (distanceM K m (cword K qt q) (cword K rt r)).snd.get (qs + 1) (rs + 1) } d _ _ none)

theorem wordMatch_shift (K : Consts) (rt : Text) (r : WordShape) {d : Nat} {qt qt' : Text}
    {q : WordShape} (h : WAgree d qt qt' q) :
    wordMatch K rt r qt' (q.shift d) = (wordMatch K rt r qt q).map (pairShift d) := by
  simp only [wordMatch, wordMatchM_shift K _ rt r h]

/-! ### `WordMatch::split` on a query match commutes with the shift -/

theorem WMatch.split_shift (K : Consts) (m : WMatch) (a b : WordShape) (d : Nat) :
    (m.shift d).split K (a.shift d) (b.shift d) =
      (m.split K a b).map (fun p => (p.1.shift d, p.2.shift d)) := by
  simp only [WMatch.split, WordShape.shift_lo, WMatch.shift_subHi, WordShape.shift_len, WMatch.shift_typos,
    WordShape.shift_offset, WordShape.shift_hi, WordShape.shift_pos, WMatch.shift_fin]
  by_cases h : a.lo + m.subHi ≤ b.lo
  · have h' : a.lo + d + m.subHi ≤ b.lo + d := by omega
    simp only [if_pos h, if_pos h', Option.map_none]
  · have h' : ¬ a.lo + d + m.subHi ≤ b.lo + d := by omega
    have e : b.lo + d - (a.lo + d) = b.lo - a.lo := by omega
    simp only [if_neg h, if_neg h', Option.map_some, WMatch.shift, e]

/-! ### text level -/

/-- shift every query match of a scratch vector -/
def qmShift (d : Nat) (l : List (Option WMatch)) : List (Option WMatch) := l.map (Option.map (WMatch.shift d))

/-- scan state with the query side shifted -/
def TMState.shift (d : Nat) (s : TMState) : TMState :=
  { rm := s.rm, qm := qmShift d s.qm, cand := s.cand.map (pairShift d) }

theorem isSet_qmShift (d : Nat) (l : List (Option WMatch)) (i : Nat) : isSet (qmShift d l) i = isSet l i := by
  simp only [isSet, qmShift, List.getD_eq_getElem?_getD, List.getElem?_map]
  cases l[i]? with
  | none => rfl
  | some o => cases o <;> rfl

theorem setAt_qmShift (d : Nat) (l : List (Option WMatch)) (i : Nat) (m : WMatch) :
    setAt (qmShift d l) i (m.shift d) = qmShift d (setAt l i m) := by
  simp [setAt, qmShift, List.map_set]

theorem getElem?_qmShift (d : Nat) (l : List (Option WMatch)) (i : Nat) :
    (qmShift d l)[i]? = (l[i]?).map (Option.map (WMatch.shift d)) := by
  simp [qmShift]

theorem tryJoinR_shift (K : Consts) (rt : Text) {d : Nat} {qt qt' : Text} (s : TMState) (r : WordShape)
    {q : WordShape} (h : WAgree d qt qt' q) :
    tryJoinR K rt qt' (s.shift d) r (q.shift d) = (tryJoinR K rt qt s r q).map (TMState.shift d) := by
  simp only [tryJoinR, WordShape.shift_len, wordMatch_shift K rt _ h]
  rcases rt.words[r.offset + 1]? with _ | rnext
  · rfl
  simp only
  by_cases h1 : q.len < r.len + r.dist rnext
  · simp only [if_pos h1, Option.map_none]
  simp only [if_neg h1]
  show (match s.rm[r.offset + 1]? with
        | none => none
        | some (some _) => none
        | some none => _) = _
  rcases s.rm[r.offset + 1]? with _ | (_ | _)
  · rfl
  · simp only
    rcases wordMatch K rt (r.join rnext) qt q with _ | ⟨rmatch, qmatch⟩
    · rfl
    simp only [Option.map_some, pairShift]
    rcases rmatch.split K r rnext with _ | ⟨r1, r2⟩
    · rfl
    simp only [Option.map_some, TMState.shift, WMatch.shift_offset, setAt_qmShift, Option.map_none]
  · rfl

theorem tryJoinQ_shift (K : Consts) (rt : Text) {d : Nat} {qt qt' : Text} (s : TMState) (r : WordShape)
    {q : WordShape} (hw : qt'.words = qt.words.map (WordShape.shift d))
    (hj : ∀ b ∈ qt.words, WAgree d qt qt' (q.join b)) :
    tryJoinQ K rt qt' (s.shift d) r (q.shift d) = (tryJoinQ K rt qt s r q).map (TMState.shift d) := by
  simp only [tryJoinQ, WordShape.shift_len, WordShape.shift_offset, hw, List.getElem?_map]
  rcases hq : qt.words[q.offset + 1]? with _ | qnext
  · rfl
  have hmem : qnext ∈ qt.words := List.mem_of_getElem? hq
  simp only [Option.map_some, WordShape.dist_shift, WordShape.join_shift,
    wordMatch_shift K rt r (hj qnext hmem)]
  by_cases h1 : r.len < q.len + q.dist qnext
  · simp only [if_pos h1, Option.map_none]
  simp only [if_neg h1]
  show (match (s.shift d).qm[q.offset + 1]? with
        | none => none
        | some (some _) => none
        | some none => _) = _
  simp only [TMState.shift, getElem?_qmShift]
  rcases s.qm[q.offset + 1]? with _ | (_ | _)
  · rfl
  · simp only [Option.map_some, Option.map_none]
    rcases wordMatch K rt r qt (q.join qnext) with _ | ⟨rmatch, qmatch⟩
    · rfl
    simp only [Option.map_some, pairShift, WMatch.split_shift]
    rcases qmatch.split K q qnext with _ | ⟨q1, q2⟩
    · rfl
    simp only [Option.map_some, WMatch.shift_offset, setAt_qmShift]
    rfl
  · rfl

theorem shouldReplace_shift (d : Nat) (cand : Option (WMatch × WMatch)) (r2 : WMatch) :
    shouldReplace (cand.map (pairShift d)) r2 = shouldReplace cand r2 := by
  cases cand <;> rfl

/-- everything the scan for query word `q` reads of the two query texts agrees -/
structure QWordOK (d : Nat) (qt qt' : Text) (q : WordShape) : Prop where
  words : qt'.words = qt.words.map (WordShape.shift d)
  self  : WAgree d qt qt' q
  join  : ∀ b ∈ qt.words, WAgree d qt qt' (q.join b)

theorem QEquiv.wordOK {d : Nat} {q q' : Text} (h : QEquiv d q q') {w : WordShape} (hw : w ∈ q.words) :
    QWordOK d q q' w :=
  ⟨h.words, h.agree hw, fun _ hb => h.agree_join hw hb⟩

theorem tmStep_shift (K : Consts) (rt : Text) {d : Nat} {qt qt' : Text} {q : WordShape}
    (h : QWordOK d qt qt' q) (s : TMState) (r : WordShape) :
    tmStep K rt qt' (q.shift d) (s.shift d) r =
      ((tmStep K rt qt q s r).1.shift d, (tmStep K rt qt q s r).2) := by
  simp only [tmStep, tryJoinR_shift K rt s r h.self, tryJoinQ_shift K rt s r h.words h.join,
    wordMatch_shift K rt r h.self]
  rcases tryJoinR K rt qt s r q with _ | s1
  · simp only [Option.map_none]
    rcases tryJoinQ K rt qt s r q with _ | s2
    · simp only [Option.map_none]
      rcases wordMatch K rt r qt q with _ | ⟨r2, q2⟩
      · rfl
      · simp only [Option.map_some, pairShift]
        have e : (s.shift d).cand = s.cand.map (pairShift d) := rfl
        rw [e, shouldReplace_shift]
        by_cases h1 : shouldReplace s.cand r2 = true
        · simp only [if_pos h1]; rfl
        · simp only [if_neg h1]
    · rfl
  · rfl

theorem tmScan_shift (K : Consts) (rt : Text) {d : Nat} {qt qt' : Text} {q : WordShape}
    (h : QWordOK d qt qt' q) (rs : List WordShape) (s : TMState) :
    tmScan K rt qt' (q.shift d) rs (s.shift d) = (tmScan K rt qt q rs s).shift d := by
  induction rs generalizing s with
  | nil => rfl
  | cons r rest ih =>
    simp only [tmScan, tmStep_shift K rt h]
    have e : (s.shift d).rm = s.rm := rfl
    rw [e]
    by_cases h1 : isSet s.rm r.offset = true
    · simp only [if_pos h1]; exact ih s
    simp only [if_neg h1]
    by_cases h2 : (tmStep K rt qt q s r).2 = true
    · simp only [if_pos h2]
    · simp only [if_neg h2]; exact ih _

theorem tmCommit_shift (d : Nat) (s : TMState) : tmCommit (s.shift d) = (tmCommit s).shift d := by
  rcases s with ⟨rm, qm, _ | ⟨rmm, qmm⟩⟩
  · rfl
  · simp only [tmCommit, TMState.shift, Option.map_some, pairShift, WMatch.shift_offset, setAt_qmShift,
      Option.map_none]

theorem tmQuery_shift (K : Consts) (rt : Text) {d : Nat} {qt qt' : Text} {q : WordShape}
    (h : QWordOK d qt qt' q) (s : TMState) :
    tmQuery K rt qt' (s.shift d) (q.shift d) = (tmQuery K rt qt s q).shift d := by
  have e : isSet (s.shift d).qm (q.shift d).offset = isSet s.qm q.offset := isSet_qmShift d s.qm q.offset
  unfold tmQuery
  by_cases h1 : isSet s.qm q.offset = true
  · rw [if_pos h1, if_pos (e.trans h1)]
  · rw [if_neg h1, if_neg (by rw [e]; exact h1)]
    have e2 : ({ s.shift d with cand := none } : TMState) = ({ s with cand := none } : TMState).shift d := rfl
    rw [e2, tmScan_shift K rt h, tmCommit_shift]

theorem foldl_tmQuery_shift (K : Consts) (rt : Text) {d : Nat} {qt qt' : Text} (l : List WordShape)
    (h : ∀ w ∈ l, QWordOK d qt qt' w) (s : TMState) :
    (l.map (WordShape.shift d)).foldl (tmQuery K rt qt') (s.shift d) = (l.foldl (tmQuery K rt qt) s).shift d := by
  induction l generalizing s with
  | nil => rfl
  | cons w rest ih =>
    simp only [List.map_cons, List.foldl_cons]
    rw [tmQuery_shift K rt (h w (List.mem_cons_self ..))]
    exact ih (fun w' hw' => h w' (List.mem_cons_of_mem _ hw')) _

theorem filterMap_qmShift (d : Nat) (l : List (Option WMatch)) :
    (qmShift d l).filterMap id = (l.filterMap id).map (WMatch.shift d) := by
  induction l with
  | nil => rfl
  | cons o rest ih =>
    cases o with
    | none => simpa [qmShift] using ih
    | some m => simpa [qmShift] using ih

/-- `text_match` against the shifted query: identical record matches, query matches shifted by `d` -/
theorem textMatch_shift (K : Consts) (rt : Text) {d : Nat} {q q' : Text} (h : QEquiv d q q') :
    textMatch K rt q' = ((textMatch K rt q).1, (textMatch K rt q).2.map (WMatch.shift d)) := by
  have key := foldl_tmQuery_shift K rt q.words (fun w hw => h.wordOK hw)
    { rm := List.replicate rt.words.length none, qm := List.replicate q.words.length none, cand := none }
  have e : ({ rm := List.replicate rt.words.length none, qm := List.replicate q.words.length none,
              cand := none } : TMState).shift d =
      { rm := List.replicate rt.words.length none, qm := List.replicate q.words.length none, cand := none } := by
    simp [TMState.shift, qmShift]
  rw [e] at key
  simp only [textMatch, h.words, List.length_map, key, TMState.shift, filterMap_qmShift]

/-! ### index level -/

theorem collectGrams_congr {d : Nat} {q q' : Text} (h : QEquiv d q q') : collectGrams q' = collectGrams q := by
  unfold collectGrams
  rw [h.words, List.map_map]
  congr 2
  apply List.map_congr_left
  intro w hw
  exact congrArg trigrams (h.chars w hw w hw)

theorem positiveCounts_congr {d : Nat} {q q' : Text} (h : QEquiv d q q') (idx : Index) :
    positiveCounts idx q' = positiveCounts idx q := by
  simp only [positiveCounts, collectGrams_congr h]

theorem prepare_congr {d : Nat} {q q' : Text} (h : QEquiv d q q') (S : Sorter) (K : Consts) (idx : Index)
    (size : Nat) : idx.prepare S K q' size = idx.prepare S K q size := by
  simp only [Index.prepare, positiveCounts_congr h, h.words, List.length_map]

/-! ### scoring, filter, highlight -/

/-- the hit with its query matches shifted -/
def Hit.shiftQ (d : Nat) (h : Hit) : Hit := { h with qmatches := h.qmatches.map (WMatch.shift d) }

theorem scoreHit_congr (K : Consts) (order : List ScoreType) {d : Nat} {q q' : Text} (h : QEquiv d q q')
    (r : Record) : scoreHit K order q' r = (scoreHit K order q r).shiftQ d := by
  simp only [scoreHit, textMatch_shift K r.title h, Hit.shiftQ]

theorem scoreHit_rmatches_congr (K : Consts) (order : List ScoreType) {d : Nat} {q q' : Text}
    (h : QEquiv d q q') (r : Record) :
    (scoreHit K order q' r).rmatches = (scoreHit K order q r).rmatches ∧
    (scoreHit K order q' r).scores = (scoreHit K order q r).scores := by
  rw [scoreHit_congr K order h]; exact ⟨rfl, rfl⟩

theorem hitMatches_congr {d : Nat} {q q' : Text} (h : QEquiv d q q') (x : Hit) :
    hitMatches q' (x.shiftQ d) = hitMatches q x := by
  simp only [hitMatches, h.words, List.length_map, Hit.shiftQ]
  by_cases h1 : q.words.length = 0
  · simp only [if_pos h1]
  simp only [if_neg h1]
  by_cases h2 : x.rmatches.length = 0
  · simp only [if_pos h2]
  simp only [if_neg h2]
  rcases x.rmatches with _ | ⟨rm, _ | _⟩
  · rfl
  · rcases x.qmatches with _ | ⟨qm, _ | _⟩
    · rfl
    · simp only [List.map_cons, List.map_nil, WMatch.shift_wordLen]
    · rfl
  · rfl

theorem highlight_shiftQ (d : Nat) (x : Hit) (dl dr : List Nat) : highlight (x.shiftQ d) dl dr = highlight x dl dr := rfl

theorem render_shiftQ (st : Store) (d : Nat) (x : Hit) : st.render (x.shiftQ d) = st.render x := rfl

theorem hitLe_shiftQ (d : Nat) (x y : Hit) : hitLe (x.shiftQ d) (y.shiftQ d) = hitLe x y := rfl

/-- the filtered scored hits for `q'` are those for `q` with the query matches shifted -/
theorem hitsOf_congr (K : Consts) (order : List ScoreType) (st : Store) {d : Nat} {q q' : Text}
    (h : QEquiv d q q') (ixs : List Nat) :
    st.hitsOf K order q' ixs = (st.hitsOf K order q ixs).map (Hit.shiftQ d) := by
  simp only [Store.hitsOf]
  induction ixs.filterMap (fun ix => st.records[ix]?) with
  | nil => rfl
  | cons r rest ih =>
    simp only [List.map_cons, List.filter_cons, scoreHit_congr K order h, hitMatches_congr h]
    by_cases h1 : hitMatches q (scoreHit K order q r) = true
    · simp only [if_pos h1, List.map_cons]
      exact congrArg _ (by simpa only [scoreHit_congr K order h] using ih)
    · simp only [if_neg h1]
      simpa only [scoreHit_congr K order h] using ih

theorem candidatesM_congr {d : Nat} {q q' : Text} (h : QEquiv d q q') (S : Sorter) (K : Consts) (st : Store) :
    st.candidatesM S K q' = st.candidatesM S K q := by
  simp only [Store.candidatesM, prepare_congr h, h.words, List.length_map]

/-! ### bounded selection and the sorting oracle

  The hits for `q'` and for `q` differ in the `lo`/`hi` of their query matches, which neither the comparator
  nor the rendering reads. A sorting routine cannot read them either, *if* it treats the elements as opaque
  values that it only compares and moves: this is the naturality (parametricity) property below, the "free
  theorem" of the type of `Sorter.sort`. It is not provable for an arbitrary Lean function of that type
  (a function may, classically, test `α = Hit` and then break ties by looking inside the elements), so it is
  a named hypothesis about the oracle. -/

/-- the sorter commutes with renaming the elements -/
def SorterNatural (S : Sorter) : Prop :=
  ∀ {α β : Type} (f : α → β) (le : β → β → Bool) (l : List α),
    S.sort le (l.map f) = (S.sort (fun a b => le (f a) (f b)) l).map f

theorem limitLoop_map {α β : Type} (f : α → β) (sort : List α → List α) (sort' : List β → List β)
    (hs : ∀ l, sort' (l.map f) = (sort l).map f) (factor limit : Nat) (xs buf : List α) :
    limitLoop sort' factor limit (buf.map f) (xs.map f) = (limitLoop sort factor limit buf xs).map f := by
  induction xs generalizing buf with
  | nil => rfl
  | cons x rest ih =>
    simp only [List.map_cons, limitLoop]
    have e : buf.map f ++ [f x] = (buf ++ [x]).map f := by simp
    rw [e, List.length_map]
    by_cases h1 : (buf ++ [x]).length ≥ limit * factor
    · rw [if_pos h1, if_pos h1, hs, ← List.map_take]; exact ih _
    · rw [if_neg h1, if_neg h1]; exact ih _

theorem limitSort_map {α β : Type} (f : α → β) (sort : List α → List α) (sort' : List β → List β)
    (hs : ∀ l, sort' (l.map f) = (sort l).map f) (factor limit : Nat) (xs : List α) :
    limitSort sort' factor limit (xs.map f) = (limitSort sort factor limit xs).map f := by
  have := limitLoop_map f sort sort' hs factor limit xs []
  simp only [List.map_nil] at this
  simp only [limitSort, this, hs, List.map_take]

/-- `Store::search` on the shifted query: same results, same store afterwards -/
theorem searchM_congr {S : Sorter} (hS : SorterNatural S) (K : Consts) (order : List ScoreType) (st : Store)
    {d : Nat} {q q' : Text} (h : QEquiv d q q') :
    st.searchM S K order q' = st.searchM S K order q := by
  simp only [Store.searchM, candidatesM_congr h, hitsOf_congr K order st h]
  rw [limitSort_map (Hit.shiftQ d) (S.sort hitLe) (S.sort hitLe) (fun l => hS (Hit.shiftQ d) hitLe l)]
  simp only [List.map_map]
  congr 1

/-! ### without naturality: both result lists are top-`limit` selections of the same hits -/

/-- inverse of `Hit.shiftQ` -/
def Hit.unshiftQ (d : Nat) (h : Hit) : Hit :=
  { h with qmatches := h.qmatches.map (fun m => { m with lo := m.lo - d, hi := m.hi - d }) }

theorem Hit.unshiftQ_shiftQ (d : Nat) (h : Hit) : (h.shiftQ d).unshiftQ d = h := by
  have e : ∀ m : WMatch, ({ m.shift d with lo := (m.shift d).lo - d, hi := (m.shift d).hi - d } : WMatch) = m := by
    intro m; cases m; simp [WMatch.shift]
  simp only [Hit.unshiftQ, Hit.shiftQ, List.map_map]
  have : ((fun m : WMatch => ({ m with lo := m.lo - d, hi := m.hi - d } : WMatch)) ∘ WMatch.shift d) = _root_.id := by
    funext m; exact e m
  rw [this, List.map_id]

theorem TopK.map {α : Type} {le : α → α → Bool} (u : α → α) (hu : ∀ a b, le (u a) (u b) = le a b) {k : Nat}
    {xs ys : List α} (h : TopK le k xs ys) : TopK le k (xs.map u) (ys.map u) := by
  obtain ⟨hp, hl, rest, hperm, hr⟩ := h
  refine ⟨?_, by simpa using hl, rest.map u, ?_, ?_⟩
  · rw [List.pairwise_map]; exact hp.imp (fun {a b} hab => by rw [hu]; exact hab)
  · rw [← List.map_append]; exact hperm.map u
  · intro y hy r hr'
    obtain ⟨y0, hy0, rfl⟩ := List.mem_map.mp hy
    obtain ⟨r0, hr0, rfl⟩ := List.mem_map.mp hr'
    rw [hu]; exact hr y0 hy0 r0 hr0

/-- For every sorter that returns sorted permutations (no naturality assumed): the results for the shifted
    query are the rendering of a top-`limit` selection of the *same* hit list as for the original query. -/
theorem search_congr_topk {S : Sorter} (hS : SorterOK S) (K : Consts) (hK : 1 ≤ K.sortFactor)
    (order : List ScoreType) (st : Store) {d : Nat} {q q' : Text} (h : QEquiv d q q') :
    ∃ top, TopK hitLe st.limit (st.hitsOf K order q (st.candidatesM S K q).1) top ∧
      st.search S K order q' = top.map st.render := by
  have hk := limitSort_TopK hitLe_preorder (hS hitLe hitLe_preorder) K.sortFactor hK st.limit
    (st.hitsOf K order q' (st.candidatesM S K q').1)
  rw [candidatesM_congr h, hitsOf_congr K order st h] at hk
  have hk' := TopK.map (Hit.unshiftQ d) (fun _ _ => rfl) hk
  rw [List.map_map] at hk'
  have e : (Hit.unshiftQ d ∘ Hit.shiftQ d) = id := by funext x; exact Hit.unshiftQ_shiftQ d x
  rw [e, List.map_id] at hk'
  refine ⟨_, hk', ?_⟩
  simp only [Store.search, Store.searchM, candidatesM_congr h, hitsOf_congr K order st h, List.map_map]
  apply List.map_congr_left
  intro x _
  rfl

/-! ### ways to establish `QEquiv` -/

private theorem slice_drop_take {α : Type} (l : List α) (lo hi : Nat) : slice l lo hi = (l.drop lo).take (hi - lo) := rfl

/-- covered-range form: all words lie in `[A, B)` and every stretch of that range agrees -/
theorem QEquiv.of_range {d : Nat} {q q' : Text} (A B : Nat)
    (hw : q'.words = q.words.map (WordShape.shift d))
    (hin : ∀ w ∈ q.words, A ≤ w.lo ∧ w.hi ≤ B)
    (hc : ∀ lo hi, A ≤ lo → hi ≤ B → slice q'.chars (lo + d) (hi + d) = slice q.chars lo hi)
    (hk : ∀ lo hi, A ≤ lo → hi ≤ B → slice q'.classes (lo + d) (hi + d) = slice q.classes lo hi) :
    QEquiv d q q' :=
  ⟨hw, fun a ha b hb => hc _ _ (hin a ha).1 (hin b hb).2, fun a ha b hb => hk _ _ (hin a ha).1 (hin b hb).2⟩

private theorem slice_prefix {α : Type} (p l : List α) (lo hi : Nat) :
    slice (p ++ l) (lo + p.length) (hi + p.length) = slice l lo hi := by
  have e : hi + p.length - (lo + p.length) = hi - lo := by omega
  simp only [slice, e]
  congr 1
  rw [Nat.add_comm, ← List.drop_drop, List.drop_left]

/-- prefix form: `q'` carries `d` extra characters / classes in front of those of `q` -/
theorem QEquiv.of_prefix {q q' : Text} (pc : List Nat) (pk : List CharClass) (hlen : pk.length = pc.length)
    (hw : q'.words = q.words.map (WordShape.shift pc.length))
    (hc : q'.chars = pc ++ q.chars) (hk : q'.classes = pk ++ q.classes) : QEquiv pc.length q q' := by
  refine ⟨hw, fun a _ b _ => ?_, fun a _ b _ => ?_⟩
  · rw [hc]; exact slice_prefix pc q.chars a.lo b.hi
  · rw [hk, ← hlen]; exact slice_prefix pk q.classes a.lo b.hi

/-! ### non-vacuity of the sorter hypotheses: insertion sort is natural and returns sorted permutations -/

def insSorted {α : Type} (le : α → α → Bool) (x : α) : List α → List α
  | [] => [x]
  | y :: ys => if le x y then x :: y :: ys else y :: insSorted le x ys

def insSort {α : Type} (le : α → α → Bool) (l : List α) : List α := l.foldr (insSorted le) []

def insSorter : Sorter := ⟨fun le l => insSort le l⟩

theorem insSorted_map {α β : Type} (f : α → β) (le : β → β → Bool) (x : α) (l : List α) :
    insSorted le (f x) (l.map f) = (insSorted (fun a b => le (f a) (f b)) x l).map f := by
  induction l with
  | nil => rfl
  | cons y ys ih =>
    simp only [List.map_cons, insSorted]
    by_cases h : le (f x) (f y) = true
    · simp only [if_pos h, List.map_cons]
    · simp only [if_neg h, List.map_cons, ih]

theorem insSorter_natural : SorterNatural insSorter := by
  intro α β f le l
  show insSort le (l.map f) = (insSort (fun a b => le (f a) (f b)) l).map f
  induction l with
  | nil => rfl
  | cons x xs ih =>
    simp only [insSort, List.map_cons, List.foldr_cons] at ih ⊢
    rw [ih, insSorted_map]

theorem insSorted_perm {α : Type} (le : α → α → Bool) (x : α) (l : List α) : (insSorted le x l).Perm (x :: l) := by
  induction l with
  | nil => exact List.Perm.refl _
  | cons y ys ih =>
    simp only [insSorted]
    by_cases h : le x y = true
    · simp only [if_pos h]; exact List.Perm.refl _
    · simp only [if_neg h]
      exact (List.Perm.cons y ih).trans (List.Perm.swap x y ys)

theorem insSorted_sorted {α : Type} {le : α → α → Bool} (P : Preorder' le) (x : α) (l : List α)
    (hl : l.Pairwise (fun a b => le a b = true)) : (insSorted le x l).Pairwise (fun a b => le a b = true) := by
  induction l with
  | nil => simp [insSorted]
  | cons y ys ih =>
    simp only [insSorted]
    have hy := List.pairwise_cons.mp hl
    by_cases h : le x y = true
    · simp only [if_pos h]
      refine List.pairwise_cons.mpr ⟨?_, hl⟩
      intro z hz
      rcases List.mem_cons.mp hz with rfl | hz
      · exact h
      · exact P.trans _ _ _ h (hy.1 z hz)
    · simp only [if_neg h]
      refine List.pairwise_cons.mpr ⟨?_, ih hy.2⟩
      intro z hz
      rcases List.mem_cons.mp ((insSorted_perm le x ys).mem_iff.mp hz) with rfl | hz
      · rcases P.total z y with h' | h'
        · exact absurd h' h
        · exact h'
      · exact hy.1 z hz

theorem insSorter_ok : SorterOK insSorter := by
  intro α le P
  refine ⟨fun l => ?_, fun l => ?_⟩
  · show (insSort le l).Perm l
    induction l with
    | nil => exact List.Perm.refl _
    | cons x xs ih => exact (insSorted_perm le x _).trans (List.Perm.cons x ih)
  · show (insSort le l).Pairwise _
    induction l with
    | nil => exact List.Pairwise.nil
    | cons x xs ih => exact insSorted_sorted P x _ ih

/-! ## The query tokenizer on a separator prefix

  `p` is a list of separator characters none of which occurs in a key of the language's compose / reduce
  tables and none of which is upper-case. Then tokenising `p ++ s` gives the tokenisation of `s` shifted by
  `p.length`. -/

/-! ### normalisation -/

private theorem mapGet_none_of_no_key {m : List (List Nat × List Nat)} {k : List Nat} (h : ∀ e ∈ m, e.1 ≠ k) :
    mapGet m k = none := by
  cases hv : mapGet m k with
  | none => rfl
  | some v => exact absurd rfl (h _ (mapGet_mem m k v hv))

/-- characters of `p` occur in no key of `m` -/
def NoKeyChar (m : List (List Nat × List Nat)) (p : List Nat) : Prop := ∀ c ∈ p, ∀ e ∈ m, c ∉ e.1

private theorem normChunks_prefix (m : List (List Nat × List Nat)) (p s : List Nat) (hp : NoKeyChar m p) :
    normChunks m (p ++ s) = p.map (fun c => ([c], [c])) ++ normChunks m s := by
  induction p with
  | nil => rfl
  | cons c p' ih =>
    have hc1 : mapGet m [c] = none :=
      mapGet_none_of_no_key (fun e he hk => hp c List.mem_cons_self e he (by rw [hk]; simp))
    have hc2 : ∀ b, mapGet m [c, b] = none := fun b =>
      mapGet_none_of_no_key (fun e he hk => hp c List.mem_cons_self e he (by rw [hk]; simp))
    have ih' := ih (fun c' hc' => hp c' (List.mem_cons_of_mem _ hc'))
    rw [List.cons_append]
    cases hps : p' ++ s with
    | nil =>
      have hp' : p' = [] := (List.append_eq_nil_iff.mp hps).1
      have hs : s = [] := (List.append_eq_nil_iff.mp hps).2
      subst hp'; subst hs
      simp [normChunks, hc1]
    | cons b rest =>
      rw [hps] at ih'
      simp only [normChunks, hc1, hc2, List.map_cons, List.cons_append, ih']

private theorem composeWith_prefix (m : List (List Nat × List Nat)) (p s : List Nat) (hp : NoKeyChar m p) :
    composeWith m (p ++ s) = p ++ composeWith m s := by
  simp only [composeWith, normChunks_prefix m p s hp, List.map_append, List.map_map, List.flatten_append]
  congr 1
  clear hp
  induction p with
  | nil => rfl
  | cons c p' ih => simpa using ih

private theorem padChunks_prefix (p : List Nat) :
    ((p.map (fun c => ([c], [c]))).map padChunk).flatten = p := by
  induction p with
  | nil => rfl
  | cons c p' ih => simpa [padChunk] using ih

private theorem reduceWith_prefix (m : List (List Nat × List Nat)) (p s : List Nat) (hp : NoKeyChar m p) :
    reduceWith m (p ++ s) = (reduceWith m s).map (fun r => (p ++ r.1, p ++ r.2)) := by
  have h1 := composeWith_prefix m p s hp
  unfold composeWith at h1
  unfold reduceWith
  simp only [h1, List.append_cancel_left_eq]
  by_cases h : ((normChunks m s).map (·.2)).flatten = s
  · simp only [if_pos h, Option.map_none]
  · simp only [if_neg h, Option.map_some, normChunks_prefix m p s hp, List.map_append, List.flatten_append,
      padChunks_prefix]

/-- the normalised characters of a fresh text -/
def qcNormChars (E : Env) (s : List Nat) : List Nat :=
  match reduce E.T (compose E.T s) with
  | some r => r.2
  | none => compose E.T s

private theorem normChars_prefix (E : Env) (p s : List Nat) (hc : NoKeyChar E.T.compose p) (hr : NoKeyChar E.T.reduce p) :
    qcNormChars E (p ++ s) = p ++ qcNormChars E s := by
  simp only [qcNormChars, compose, reduce, composeWith_prefix _ p s hc, reduceWith_prefix _ p _ hr]
  cases reduceWith E.T.reduce (composeWith E.T.compose s) <;> rfl

/-- `normalize` on a fresh text: one finished word covering the normalised characters -/
private theorem normalize_fromChars_eq (E : Env) (s : List Nat) :
    ((Text.fromChars s).normalize E).chars = qcNormChars E s ∧
    ((Text.fromChars s).normalize E).words =
      [{ offset := 0, lo := 0, hi := (qcNormChars E s).length, stem := s.length, pos := none, fin := true }] := by
  unfold qcNormChars
  by_cases hc : compose E.T s = s
  · rw [hc]
    cases hr : reduce E.T s with
    | none => simp [Text.normalize, Text.fromChars, hc, hr]
    | some r => simp [Text.normalize, Text.fromChars, hc, hr, setFirstHi]
  · cases hr : reduce E.T (compose E.T s) with
    | none => simp [Text.normalize, Text.fromChars, hc, hr, setFirstHi]
    | some r => simp [Text.normalize, Text.fromChars, hc, hr, setFirstHi]

/-! ### split -/

private theorem splitSpans_shift (isSep : Nat → Bool) (cs : List Nat) (pos d : Nat) (cur : Option Nat) :
    splitSpans isSep cs (pos + d) (cur.map (· + d)) =
      (splitSpans isSep cs pos cur).map (fun x => (x.1 + d, x.2 + d)) := by
  induction cs generalizing pos cur with
  | nil => cases cur <;> rfl
  | cons c rest ih =>
    have e : pos + d + 1 = pos + 1 + d := by omega
    cases cur with
    | none =>
      simp only [splitSpans, Option.map_none, e]
      by_cases h : isSep c = true
      · simp only [if_pos h]; exact ih (pos + 1) none
      · simp only [if_neg h]; exact ih (pos + 1) (some pos)
    | some a =>
      simp only [splitSpans, Option.map_some, e]
      by_cases h : isSep c = true
      · simp only [if_pos h, List.map_cons]; exact congrArg _ (ih (pos + 1) none)
      · simp only [if_neg h]; exact ih (pos + 1) (some a)

private theorem splitSpans_sep_prefix (isSep : Nat → Bool) (p cs : List Nat) (hp : ∀ c ∈ p, isSep c = true) (pos : Nat) :
    splitSpans isSep (p ++ cs) pos none = splitSpans isSep cs (pos + p.length) none := by
  induction p generalizing pos with
  | nil => rfl
  | cons c p' ih =>
    simp only [List.cons_append, splitSpans, if_pos (hp c List.mem_cons_self), List.length_cons]
    rw [ih (fun c' hc' => hp c' (List.mem_cons_of_mem _ hc'))]
    congr 1; omega

private theorem slice_full {α : Type} (l : List α) : slice l 0 l.length = l := by
  simp [slice]

/-- splitting the single word that covers `p ++ cs` gives the split of the word covering `cs`, shifted -/
private theorem splitWord_prefix (isSep : Nat → Bool) (p cs : List Nat) (hp : ∀ c ∈ p, isSep c = true)
    (w w' : WordShape) (hw : w.lo = 0 ∧ w.hi = cs.length) (hw' : w'.lo = 0 ∧ w'.hi = (p ++ cs).length)
    (hfin : w'.fin = w.fin) :
    splitWord isSep (p ++ cs) w' = (splitWord isSep cs w).map (WordShape.shift p.length) := by
  unfold splitWord
  rw [hw.1, hw.2, hw'.1, hw'.2, slice_full, slice_full, splitSpans_sep_prefix isSep p cs hp 0]
  have := splitSpans_shift isSep cs 0 p.length none
  simp only [Option.map_none] at this
  rw [this, List.map_map, List.map_map]
  apply List.map_congr_left
  intro x _
  have e1 : w'.len = cs.length + p.length := by simp [WordShape.len, hw'.1, hw'.2]; omega
  have e2 : w.len = cs.length := by simp [WordShape.len, hw.1, hw.2]
  simp only [Function.comp, WordShape.shift, hfin, e1, e2, WordShape.mk.injEq, true_and, Nat.zero_add,
    Nat.add_lt_add_iff_right, and_true]
  omega

private theorem renumber_shift (d : Nat) (ws : List WordShape) :
    renumber (ws.map (WordShape.shift d)) = (renumber ws).map (WordShape.shift d) := by
  simp only [renumber, List.zipIdx_map, List.map_map]
  apply List.map_congr_left
  intro x _
  rfl

/-- `t'` has the characters `pc` in front of those of `t` and the words of `t` shifted by `pc.length` -/
structure SepPre (pc : List Nat) (t t' : Text) : Prop where
  chars : t'.chars = pc ++ t.chars
  words : t'.words = t.words.map (WordShape.shift pc.length)

theorem SepPre.slice {pc : List Nat} {t t' : Text} (h : SepPre pc t t') (w : WordShape) :
    slice t'.chars (w.shift pc.length).lo (w.shift pc.length).hi = slice t.chars w.lo w.hi := by
  rw [h.chars]; exact slice_prefix pc t.chars w.lo w.hi

/-- the split step turns the one-word state after `normalize`/`fin` into a `SepPre` pair -/
theorem split_pre (E : Env) (ps : List CharClass) (p : List Nat) (t t' : Text) (w w' : WordShape)
    (hp : ∀ c ∈ p, patMatches E ps c = true) (hc : t'.chars = p ++ t.chars)
    (ht : t.words = [w]) (ht' : t'.words = [w'])
    (hw : w.lo = 0 ∧ w.hi = t.chars.length) (hw' : w'.lo = 0 ∧ w'.hi = t'.chars.length) (hfin : w'.fin = w.fin) :
    SepPre p (t.split E ps) (t'.split E ps) := by
  refine ⟨hc, ?_⟩
  simp only [Text.split, ht, ht', List.map_cons, List.map_nil, List.flatten_cons, List.flatten_nil,
    List.append_nil, hc]
  rw [splitWord_prefix _ p t.chars hp w w' hw (by rw [← hc]; exact hw') hfin, renumber_shift]

/-! ### strip, lower, part of speech, classes, stem -/

private theorem slice_length_le {α : Type} (l : List α) (lo hi : Nat) : (slice l lo hi).length ≤ hi - lo := by
  simp only [slice, List.length_take]; omega

theorem stripWord_pre {pc : List Nat} {t t' : Text} (h : SepPre pc t t') (isPat : Nat → Bool) (w : WordShape) :
    stripWord isPat t'.chars (w.shift pc.length) = (stripWord isPat t.chars w).shift pc.length := by
  have hs := h.slice w
  simp only [WordShape.shift_lo, WordShape.shift_hi] at hs
  simp only [stripWord, hs, WordShape.shift, WordShape.mk.injEq, true_and, and_true]
  have hle := slice_length_le t.chars w.lo w.hi
  generalize slice t.chars w.lo w.hi = cs at hle
  have h2 : ((cs.reverse.takeWhile isPat).take (cs.length - (cs.takeWhile isPat).length)).length ≤ cs.length := by
    simp only [List.length_take]; omega
  omega

private theorem filter_len_shift (d : Nat) (l : List WordShape) :
    (l.map (WordShape.shift d)).filter (fun w => decide (w.len > 0)) =
      (l.filter (fun w => decide (w.len > 0))).map (WordShape.shift d) := by
  induction l with
  | nil => rfl
  | cons w rest ih =>
    simp only [List.map_cons, List.filter_cons, WordShape.shift_len]
    by_cases h : decide (w.len > 0) = true
    · simp only [if_pos h, List.map_cons, ih]
    · simp only [if_neg h, ih]

theorem strip_pre {pc : List Nat} {t t' : Text} (h : SepPre pc t t') (E : Env) (ps : List CharClass) :
    SepPre pc (t.strip E ps) (t'.strip E ps) := by
  refine ⟨h.chars, ?_⟩
  have e : (t.words.map (WordShape.shift pc.length)).map (stripWord (patMatches E ps) t'.chars) =
      (t.words.map (stripWord (patMatches E ps) t.chars)).map (WordShape.shift pc.length) := by
    rw [List.map_map, List.map_map]
    apply List.map_congr_left
    intro w _
    exact stripWord_pre h _ w
  simp only [Text.strip, h.words]
  rw [e, filter_len_shift, renumber_shift]

theorem lower_pre {pc : List Nat} {t t' : Text} (h : SepPre pc t t') (E : Env)
    (hup : ∀ c ∈ pc, E.U.isUppercase c = false) :
    ∃ pc', pc'.length = pc.length ∧ SepPre pc' (t.lower E) (t'.lower E) := by
  unfold Text.lower
  refine ⟨pc.map E.U.lower1, List.length_map _, ?_, ?_⟩
  · simp only [h.chars, List.map_append]
  · simp only [h.words, List.length_map]

theorem setPos_pre {pc : List Nat} {t t' : Text} (h : SepPre pc t t') (E : Env) :
    SepPre pc (t.setPos E) (t'.setPos E) := by
  refine ⟨h.chars, ?_⟩
  simp only [Text.setPos, h.words, List.map_map]
  apply List.map_congr_left
  intro w _
  simp only [Function.comp, h.slice w]
  rfl

theorem setStem_pre {pc : List Nat} {t t' : Text} (h : SepPre pc t t') (E : Env) :
    SepPre pc (t.setStem E) (t'.setStem E) := by
  refine ⟨h.chars, ?_⟩
  simp only [Text.setStem, h.words, List.map_map]
  apply List.map_congr_left
  intro w _
  simp only [Function.comp, h.slice w, WordShape.shift_len]
  rfl

theorem setCharClasses_pre {pc : List Nat} {t t' : Text} (h : SepPre pc t t') (E : Env) :
    SepPre pc (t.setCharClasses E) (t'.setCharClasses E) ∧
    (t'.setCharClasses E).classes = pc.map (classOf E) ++ (t.setCharClasses E).classes := by
  refine ⟨⟨h.chars, h.words⟩, ?_⟩
  simp only [Text.setCharClasses, h.chars, List.map_append]

/-- the split pattern of the generated pipelines is `isSepChar` -/
private theorem patMatches_sep (E : Env) (c : Nat) :
    patMatches E [CharClass.whitespace, CharClass.control, CharClass.punctuation] c = isSepChar E.U E.K c := by
  simp only [patMatches, patMatchesOpt, patMatchesOpt.go, CharClass.matchesOpt, isSepChar]
  cases E.U.isWhitespace c <;> cases E.U.isControl c <;> cases E.K.punctuation.contains c <;> rfl

/-! ### the generated query pipeline -/

theorem srcQuerySteps_run (E : Env) (s : List Nat) :
    runSteps E Gen.srcQuerySteps s =
      ((((((((Text.fromChars s).normalize E).setFin false).split E
        [CharClass.whitespace, CharClass.control, CharClass.punctuation]).strip E [CharClass.notAlphaNum]).lower E).setPos
        E).setCharClasses E).setStem E := rfl

/-- Tokenising `p ++ s` with the generated query pipeline gives the tokenisation of `s` shifted right by
    `p.length`, when every character of `p` is a separator, is not upper-case, and occurs in no key of the
    language's compose / reduce tables. -/
theorem tokenize_separator_prefix (E : Env) (p s : List Nat)
    (hsep : ∀ c ∈ p, isSepChar E.U E.K c = true)
    (hup : ∀ c ∈ p, E.U.isUppercase c = false)
    (hc : NoKeyChar E.T.compose p) (hr : NoKeyChar E.T.reduce p) :
    QEquiv p.length (runSteps E Gen.srcQuerySteps s) (runSteps E Gen.srcQuerySteps (p ++ s)) := by
  rw [srcQuerySteps_run, srcQuerySteps_run]
  obtain ⟨hch, hws⟩ := normalize_fromChars_eq E s
  obtain ⟨hch', hws'⟩ := normalize_fromChars_eq E (p ++ s)
  rw [normChars_prefix E p s hc hr] at hch' hws'
  have h0 : SepPre p ((((Text.fromChars s).normalize E).setFin false).split E
        [CharClass.whitespace, CharClass.control, CharClass.punctuation])
      ((((Text.fromChars (p ++ s)).normalize E).setFin false).split E
        [CharClass.whitespace, CharClass.control, CharClass.punctuation]) := by
    apply split_pre E _ p _ _
      { offset := 0, lo := 0, hi := (qcNormChars E s).length, stem := s.length, pos := none, fin := false }
      { offset := 0, lo := 0, hi := (p ++ qcNormChars E s).length, stem := (p ++ s).length, pos := none, fin := false }
    · intro c hcp; rw [patMatches_sep]; exact hsep c hcp
    · show ((Text.fromChars (p ++ s)).normalize E).chars = p ++ ((Text.fromChars s).normalize E).chars
      rw [hch, hch']
    · simp only [Text.setFin, hws, setLastFin]
    · simp only [Text.setFin, hws', setLastFin]
    · exact ⟨rfl, by show _ = ((Text.fromChars s).normalize E).chars.length; rw [hch]⟩
    · exact ⟨rfl, by show _ = ((Text.fromChars (p ++ s)).normalize E).chars.length; rw [hch']⟩
    · rfl
  have h1 := strip_pre h0 E [CharClass.notAlphaNum]
  obtain ⟨pc, hlen, h2⟩ := lower_pre h1 E hup
  have h3 := setPos_pre h2 E
  obtain ⟨h4, hk⟩ := setCharClasses_pre h3 E
  have h5 := setStem_pre h4 E
  rw [← hlen]
  exact QEquiv.of_prefix pc (pc.map (classOf E)) (List.length_map _) h5.words h5.chars hk

end Lucid
