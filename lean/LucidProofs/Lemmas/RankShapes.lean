/-
  LucidProofs.Lemmas.RankShapes — helper lemmas for C08 (documented ranking priorities):
  * `Outranks`, `StrictBefore` and the two constructors `strict_cons_eq` / `strict_cons_gt` that walk down the
    score vector (first differing component decides, larger first);
  * `JacCapOK` (`JACCARD_THRESHOLD ≤ 1`), `wordMatch_disjoint_none` : words over disjoint alphabets are stopped
    by the Jaccard gate;
  * `wordMatch_exact_equal_some` : a finished query word equal to the record word yields the zero-typo pair
    (finished analogue of `wordMatch_exact_prefix_some`); `Typed` / `wordMatch_hit` / `hitM` : "the query word is
    typed text for the record word" (unfinished prefix or finished whole word) gives `new_pair(k, k, 0)`;
  * closures that cannot fire (`tryJoinR_none_of_last/short`, `tryJoinQ_none_of_last/short`, `dist_of_gap`) and
    the steps of the scan (`tmScan_skip/miss/hit/hit_func/joinR`, `tmQuery_free`);
  * `join_chars_lt` : when the joined-record-words closure fires on a first word foreign to the query word, the
    two matches it leaves are worth at most `|q| - 2` characters (`tryJoinR_some_spec`, `splitTypos_fst_pos`);
  * `typo_chars_lt` : a different, not longer record word scores fewer than `|q|` characters;
  * `text_match` computed on the hand-specified shapes used by C08 (`textMatch_one`, `textMatch_two_first`,
    `textMatch_two_second`, `textMatch_twoTwo_both`, `textMatch_twoTwo_first_only`,
    `textMatch_threeTwo_adjacent`, `textMatch_threeTwo_gap`) and the score vectors of one / two exact matches in
    the generated order (`scores_single`, `scores_pair`).
-/
import LucidProofs.C05
import LucidProofs.Lemmas.Gates

namespace Lucid
open DL

/-! ## the order on hits -/

/-- `a` is strictly before `b` in the lexicographic order the hits are sorted by -/
def StrictBefore (a b : List Int) : Prop := scoresLe a b = true ∧ scoresLe b a = false

/-- hit `h1` is strictly before hit `h2` in the order the results are sorted by -/
def Outranks (h1 h2 : Hit) : Prop := hitLe h1 h2 = true ∧ hitLe h2 h1 = false

theorem strict_cons_eq {a b : Int} {as bs : List Int} (h : a = b) (ht : StrictBefore as bs) :
    StrictBefore (a :: as) (b :: bs) := by
  subst h
  simpa [StrictBefore, scoresLe] using ht

theorem strict_cons_gt {a b : Int} {as bs : List Int} (h : b < a) : StrictBefore (a :: as) (b :: bs) := by
  have h1 : a ≠ b := by omega
  have h2 : b ≠ a := by omega
  have h3 : ¬ a < b := by omega
  simp [StrictBefore, scoresLe, h1, h2, h, h3]

theorem scoreHit_scores (K : Consts) (order : List ScoreType) (q : Text) (r : Record) :
    (scoreHit K order q r).scores = order.map (scoreOf r.title r.rating (textMatch K r.title q).1) := rfl

theorem outranks_iff (K : Consts) (order : List ScoreType) (q : Text) (r1 r2 : Record) :
    Outranks (scoreHit K order q r1) (scoreHit K order q r2) ↔
      StrictBefore (order.map (scoreOf r1.title r1.rating (textMatch K r1.title q).1))
        (order.map (scoreOf r2.title r2.rating (textMatch K r2.title q).1)) := Iff.rfl

/-! ## words over disjoint alphabets never match -/

/-- the Jaccard threshold is at most 1 -/
def JacCapOK (K : Consts) : Bool := decide (K.jacNum ≤ K.jacDen)

theorem jacCapOK_src : JacCapOK Gen.srcConsts = true := by decide

theorem interCard_disjoint (a b : List Nat) (h : ∀ c ∈ a, c ∉ b) : interCard a b = 0 := by
  unfold interCard
  rw [List.length_eq_zero_iff, List.filter_eq_nil_iff]
  intro x hx
  simpa using h x (mem_natSet.mp hx)

theorem mem_jaccardSlice {rt : Text} {r q : WordShape} {c : Nat} (h : c ∈ jaccardSlice rt r q) : c ∈ wchars rt r := by
  unfold jaccardSlice at h
  split at h
  · exact h
  · exact List.mem_of_mem_take h

/-- characters of the record word all foreign to the query word: the Jaccard gate is closed -/
theorem jaccardCheck_disjoint (K : Consts) (hJ : JacCapOK K = true) (rt : Text) (r : WordShape) (qt : Text)
    (q : WordShape) (hne : wchars qt q ≠ []) (hdis : ∀ c ∈ wchars rt r, c ∉ wchars qt q) :
    jaccardCheck K rt r qt q = false := by
  have hJ' : K.jacNum ≤ K.jacDen := by simpa [JacCapOK] using hJ
  unfold jaccardCheck
  by_cases ha : jaccardSlice rt r q = []
  · rw [ha, C17_value.2.2.1 _ hne]
    simp only [decide_eq_false_iff_not, Nat.sub_zero, Nat.mul_one]
    omega
  · rw [C17_value.1 _ _ ha hne, interCard_disjoint _ _ (fun c hc => hdis c (mem_jaccardSlice hc))]
    simp only [decide_eq_false_iff_not, Nat.sub_zero, Nat.not_lt]
    exact Nat.mul_le_mul_right _ hJ'

theorem wchars_ne_nil {t : Text} {w : WordShape} (h : WordIn t w) : wchars t w ≠ [] := by
  intro e
  have := wchars_length h
  rw [e] at this
  have := h.len_pos
  simp at *
  omega

/-- **disjoint alphabets**: `word_match` of two words without a common character is `None` -/
theorem wordMatch_disjoint_none (K : Consts) (hJ : JacCapOK K = true) (rt : Text) (r : WordShape) (qt : Text)
    (q : WordShape) (hq : WordIn qt q) (hdis : ∀ c ∈ wchars rt r, c ∉ wchars qt q) :
    wordMatch K rt r qt q = none := by
  have hj := jaccardCheck_disjoint K hJ rt r qt q (wchars_ne_nil hq) hdis
  unfold wordMatch wordMatchM
  split
  · rfl
  · split
    · rfl
    · simp [hj]

/-! ## a finished query word equal to the record word -/

theorem wmInner_skip_r (c : WMCtx) (rs : Nat) (h : rs > c.r.len) (l : List Nat) (best : Option (WMatch × WMatch)) :
    wmInner c rs l best = best := by
  induction l generalizing best with
  | nil => rfl
  | cons qs rest ih =>
    unfold wmInner
    split
    · exact ih _
    · exact ih _

theorem wmOuter_skip_r (c : WMCtx) (range l : List Nat) (best : Option (WMatch × WMatch))
    (h : ∀ rs ∈ l, rs > c.r.len) : wmOuter c range l best = best := by
  induction l generalizing best with
  | nil => rfl
  | cons rs rest ih =>
    unfold wmOuter
    rw [wmInner_skip_r c rs (h rs (by simp))]
    exact ih _ (fun x hx => h x (by simp [hx]))

section exactEqual
variable (K : Consts) (hK : CostsOK K = true) (rt : Text) (w : WordShape) (qt : Text) (v : WordShape)
  (hr : WordIn rt w) (hq : WordIn qt v) (heq : wchars qt v = wchars rt w)

include hr hq heq in
theorem equal_len : v.len = w.len := by rw [← wchars_length hq, ← wchars_length hr, heq]

include hq heq in
theorem equal_pre : wchars qt v = (wchars rt w).take v.len := by
  rw [← heq, List.take_of_length_le]
  rw [wchars_length hq]; exact Nat.le_refl _

include hK hr hq heq in
theorem wmOuter_exact_equal (hfin : v.fin = true) (hs2 : v.stem ≤ v.len) (hws : w.stem ≤ w.len) :
    wmOuter (specCtx K rt w qt v) (descRange (max v.stem w.stem - 1) (w.len + 1))
      (descRange (max v.stem w.stem - 1) (w.len + 1)) none = some (newPair K w v v.len v.len 0) := by
  have hlen := equal_len rt w qt v hr hq heq
  have hpre := equal_pre rt w qt v hq heq
  have hvl := hq.len_pos
  obtain ⟨hi, lo, hsplit, hhi⟩ := descRange_split (max v.stem w.stem - 1) (w.len + 1) v.len (by omega) (by omega)
  generalize hrange : descRange (max v.stem w.stem - 1) (w.len + 1) = range at hsplit
  have hD0 : D K (cword K qt v) (cword K rt w) v.len v.len = 0 :=
    (prefix_D_zero_iff K hK rt w qt v hr hq hpre v.len v.len (Nat.le_refl _) (by omega)).mpr rfl
  have hph2 : wmInner (specCtx K rt w qt v) v.len range none = some (newPair K w v v.len v.len 0) := by
    rw [hsplit, wmInner_skip_prefix (specCtx K rt w qt v) v.len hi (v.len :: lo) _ (fun x hx => hhi x hx)]
    unfold wmInner
    have g2 : ¬ w.len < v.len := by omega
    have g4 : ¬ (v.len = max v.stem w.stem - 1 ∧ v.len = max v.stem w.stem - 1) := by omega
    have g5 : ¬ v.len < w.stem := by omega
    have hrel : relTooBig K 0 v.len v.len = false := by simp [relTooBig]
    simp only [specCtx, gt_iff_lt, Nat.lt_irrefl, if_false, g2, Nat.not_lt.mpr hs2, wmLeftRaw, hfin,
      g4, g5, and_false, Bool.false_eq_true, ge_iff_le, Nat.le_refl, if_true, Nat.sub_self, Nat.not_lt_zero, hD0, hrel]
  rw [hsplit, wmOuter_append, wmOuter_skip_r _ _ hi none (fun x hx => by have := hhi x hx; simp only [specCtx]; omega)]
  unfold wmOuter
  rw [← hsplit, hph2]
  exact wmOuter_zero_stable _ _ _ _ ⟨_, rfl, rfl⟩

include hK hr hq heq in
/-- a finished query word with the same characters as the record word yields the zero-typo pair of the two whole
    words -/
theorem wordMatch_exact_equal_some (hN : GateNumsOK K = true) (hfin : v.fin = true) (hs2 : v.stem ≤ v.len)
    (hws : w.stem ≤ w.len) :
    wordMatch K rt w qt v = some (newPair K w v v.len v.len 0) := by
  have hlen := equal_len rt w qt v hr hq heq
  have hvl := hq.len_pos
  have hq0 : ¬ (v.len = 0 ∨ w.len = 0) := by omega
  have e1 : wmLeftRaw w v = max v.stem w.stem := by simp [wmLeftRaw, hfin]
  have e2 : max v.len w.len = w.len := by omega
  have hrange : ¬ (w.len + 1 ≤ max v.stem w.stem - 1) := by omega
  rw [wordMatch_eq_spec K hK rt w qt v hr hq]
  unfold wordMatchS
  rw [if_neg hq0, lengthCheck_equal K hN w v hlen hvl,
    jaccardCheck_equal K hN rt w qt v hfin (wchars_ne_nil hq) heq, e1, e2, if_neg hrange]
  simp only [Bool.not_true, Bool.false_eq_true, if_false]
  exact wmOuter_exact_equal K hK rt w qt v hr hq heq hfin hs2 hws

end exactEqual

/-! ## closures that cannot fire -/

theorem tryJoinR_none_of_last (K : Consts) (rt qt : Text) (s : TMState) (r q : WordShape)
    (h : rt.words[r.offset + 1]? = none) : tryJoinR K rt qt s r q = none := by
  unfold tryJoinR; rw [h]

theorem tryJoinR_none_of_short (K : Consts) (rt qt : Text) (s : TMState) (r q rnext : WordShape)
    (h : rt.words[r.offset + 1]? = some rnext) (hlen : q.len < r.len + r.dist rnext) :
    tryJoinR K rt qt s r q = none := by
  unfold tryJoinR; rw [h]; simp only [hlen, if_true]

theorem tryJoinQ_none_of_last (K : Consts) (rt qt : Text) (s : TMState) (r q : WordShape)
    (h : qt.words[q.offset + 1]? = none) : tryJoinQ K rt qt s r q = none := by
  unfold tryJoinQ; rw [h]

theorem tryJoinQ_none_of_short (K : Consts) (rt qt : Text) (s : TMState) (r q qnext : WordShape)
    (h : qt.words[q.offset + 1]? = some qnext) (hlen : r.len < q.len + q.dist qnext) :
    tryJoinQ K rt qt s r q = none := by
  unfold tryJoinQ; rw [h]; simp only [hlen, if_true]

/-- the distance between a word and a later word that starts after a gap -/
theorem dist_of_gap {a b : WordShape} (ha : a.lo < a.hi) (hb : b.lo < b.hi) (h : a.hi < b.lo) : 1 ≤ a.dist b := by
  unfold WordShape.dist
  split <;> omega

/-! ## steps of the scan -/

theorem tmScan_skip (K : Consts) (rt qt : Text) (q r : WordShape) (rs : List WordShape) (s : TMState)
    (h : isSet s.rm r.offset = true) : tmScan K rt qt q (r :: rs) s = tmScan K rt qt q rs s := by
  rw [tmScan, if_pos h]

theorem tmScan_miss (K : Consts) (rt qt : Text) (q r : WordShape) (rs : List WordShape) (s : TMState)
    (h : isSet s.rm r.offset = false) (h1 : tryJoinR K rt qt s r q = none) (h2 : tryJoinQ K rt qt s r q = none)
    (h3 : wordMatch K rt r qt q = none) : tmScan K rt qt q (r :: rs) s = tmScan K rt qt q rs s := by
  rw [tmScan]
  simp [h, tmStep, h1, h2, h3]

/-- the plain closure succeeds on a content word while no candidate is pending: the scan stops with that candidate -/
theorem tmScan_hit (K : Consts) (rt qt : Text) (q r : WordShape) (rs : List WordShape) (s : TMState)
    (p : WMatch × WMatch)
    (h : isSet s.rm r.offset = false) (h1 : tryJoinR K rt qt s r q = none) (h2 : tryJoinQ K rt qt s r q = none)
    (h3 : wordMatch K rt r qt q = some p) (hc : s.cand = none) (hf : p.1.func = false) :
    tmScan K rt qt q (r :: rs) s = { s with cand := some p } := by
  obtain ⟨p1, p2⟩ := p
  simp only [] at hf
  rw [tmScan]
  simp [h, tmStep, h1, h2, h3, hc, shouldReplace, hf]

/-- the plain closure succeeds on a function word while no candidate is pending: it becomes the candidate and the
    scan goes on -/
theorem tmScan_hit_func (K : Consts) (rt qt : Text) (q r : WordShape) (rs : List WordShape) (s : TMState)
    (p : WMatch × WMatch)
    (h : isSet s.rm r.offset = false) (h1 : tryJoinR K rt qt s r q = none) (h2 : tryJoinQ K rt qt s r q = none)
    (h3 : wordMatch K rt r qt q = some p) (hc : s.cand = none) (hf : p.1.func = true) :
    tmScan K rt qt q (r :: rs) s = tmScan K rt qt q rs { s with cand := some p } := by
  obtain ⟨p1, p2⟩ := p
  simp only [] at hf
  rw [tmScan]
  simp [h, tmStep, h1, h2, h3, hc, shouldReplace, hf]

theorem tmScan_joinR (K : Consts) (rt qt : Text) (q r : WordShape) (rs : List WordShape) (s s' : TMState)
    (h : isSet s.rm r.offset = false) (h1 : tryJoinR K rt qt s r q = some s') :
    tmScan K rt qt q (r :: rs) s = s' := by
  rw [tmScan]
  simp [h, tmStep, h1]

theorem tmQuery_free (K : Consts) (rt qt : Text) (s : TMState) (q : WordShape) (h : isSet s.qm q.offset = false) :
    tmQuery K rt qt s q = tmCommit (tmScan K rt qt q rt.words { s with cand := none }) := by
  rw [tmQuery]; simp [h]

/-! ## typed text: the query word is what a user typed for the record word -/

/-- the query word `v` is typed text for the record word `w`: an unfinished prefix of it, or the finished whole
    word; stems within the words -/
def Typed (rt : Text) (w : WordShape) (qt : Text) (v : WordShape) : Prop :=
  v.stem ≤ v.len ∧
  ((v.fin = false ∧ wchars qt v = (wchars rt w).take v.len) ∨
   (v.fin = true ∧ wchars qt v = wchars rt w ∧ w.stem ≤ w.len))

theorem Typed.pre {rt qt : Text} {w v : WordShape} (h : Typed rt w qt v) (hq : WordIn qt v) :
    wchars qt v = (wchars rt w).take v.len := by
  rcases h.2 with ⟨_, h⟩ | ⟨_, h, _⟩
  · exact h
  · exact equal_pre rt w qt v hq h

theorem Typed.len_le {rt qt : Text} {w v : WordShape} (h : Typed rt w qt v) (K : Consts) (hr : WordIn rt w) (hq : WordIn qt v) :
    v.len ≤ w.len := prefix_len_le K rt w qt v hr hq (h.pre hq)

/-- the record match of the zero-typo pair on the first `v.len` characters of `w` -/
def hitM (K : Consts) (w v : WordShape) : WMatch := (newPair K w v v.len v.len 0).1

@[simp] theorem hitM_offset (K : Consts) (w v : WordShape) : (hitM K w v).offset = w.offset := rfl
@[simp] theorem hitM_matchLen (K : Consts) (w v : WordShape) : (hitM K w v).matchLen = v.len := rfl
@[simp] theorem hitM_wordLen (K : Consts) (w v : WordShape) : (hitM K w v).wordLen = w.len := rfl
@[simp] theorem hitM_typos (K : Consts) (w v : WordShape) : (hitM K w v).typos = 0 := rfl
@[simp] theorem hitM_func (K : Consts) (w v : WordShape) : (hitM K w v).func = isFunc K w.pos := rfl
@[simp] theorem hitM_fin (K : Consts) (w v : WordShape) : (hitM K w v).fin = (v.fin || decide (w.len = v.len)) := rfl

/-- **typed text matches exactly**: `word_match` returns the zero-typo pair on the typed characters -/
theorem wordMatch_hit (K : Consts) (hK : CostsOK K = true) (hN : GateNumsOK K = true) {rt qt : Text} {w v : WordShape}
    (hr : WordIn rt w) (hq : WordIn qt v) (hs1 : 1 ≤ v.stem) (ht : Typed rt w qt v) :
    wordMatch K rt w qt v = some (newPair K w v v.len v.len 0) := by
  obtain ⟨hs2, h | h⟩ := ht
  · obtain ⟨hfin, hpre⟩ := h
    have hle := prefix_len_le K rt w qt v hr hq hpre
    exact wordMatch_exact_prefix_some K hK rt w qt v hr hq hpre hfin hs1 hs2
      (lengthCheck_prefix K hN w v hfin hle hq.len_pos)
      (jaccardCheck_prefix K hN rt w qt v hfin hq.len_pos hle (wchars_length hq) hpre)
  · obtain ⟨hfin, heq, hws⟩ := h
    exact wordMatch_exact_equal_some K hK rt w qt v hr hq heq hN hfin hs2 hws

/-! ## word offsets of short texts -/

theorem offsets1 {t : Text} (ht : TextOK t) {a : WordShape} (h : t.words = [a]) : a.offset = 0 := by
  have := ht.offsets 0 (by simp [h]); simpa [h] using this

theorem offsets2 {t : Text} (ht : TextOK t) {a b : WordShape} (h : t.words = [a, b]) : a.offset = 0 ∧ b.offset = 1 := by
  have h0 := ht.offsets 0 (by simp [h])
  have h1 := ht.offsets 1 (by simp [h])
  simp only [h, List.getElem_cons_zero, List.getElem_cons_succ] at h0 h1
  exact ⟨h0, h1⟩

theorem offsets3 {t : Text} (ht : TextOK t) {a b c : WordShape} (h : t.words = [a, b, c]) :
    a.offset = 0 ∧ b.offset = 1 ∧ c.offset = 2 := by
  have h0 := ht.offsets 0 (by simp [h])
  have h1 := ht.offsets 1 (by simp [h])
  have h2 := ht.offsets 2 (by simp [h])
  simp only [h, List.getElem_cons_zero, List.getElem_cons_succ] at h0 h1 h2
  exact ⟨h0, h1, h2⟩

/-! ## `text_match` on the shapes of C08 -/

/-- one-word title, one-word query that is typed text for it -/
theorem textMatch_one (K : Consts) (hK : CostsOK K = true) (hN : GateNumsOK K = true) (rt qt : Text) (w v : WordShape)
    (hrt : TextOK rt) (hqt : TextOK qt) (hrw : rt.words = [w]) (hqw : qt.words = [v]) (ht : Typed rt w qt v) :
    (textMatch K rt qt).1 = [hitM K w v] := by
  have hw : w ∈ rt.words := by simp [hrw]
  have hv : v ∈ qt.words := by simp [hqw]
  rw [textMatch_single K rt qt w v hrw hqw (offsets1 hrt hrw) (offsets1 hqt hqw),
    wordMatch_hit K hK hN (hrt.wordIn hw) (hqt.wordIn hv) (hqt.stems v hv) ht]
  rfl

section twoOne
variable (K : Consts) (hK : CostsOK K = true) (hN : GateNumsOK K = true) (rt qt : Text) (a b v : WordShape)
  (hrt : TextOK rt) (hqt : TextOK qt) (hrw : rt.words = [a, b]) (hqw : qt.words = [v]) (hgap : a.hi < b.lo)

include hK hN hrt hqt hrw hqw hgap in
/-- two-word title `[a, b]`, one-word query typed for the content word `a`: the scan stops at `a` -/
theorem textMatch_two_first (ht : Typed rt a qt v) (hf : isFunc K a.pos = false) :
    (textMatch K rt qt).1 = [hitM K a v] := by
  obtain ⟨ha0, hb1⟩ := offsets2 hrt hrw
  have hv0 := offsets1 hqt hqw
  have haIn : a ∈ rt.words := by simp [hrw]
  have hbIn : b ∈ rt.words := by simp [hrw]
  have hvIn : v ∈ qt.words := by simp [hqw]
  have hm := wordMatch_hit K hK hN (hrt.wordIn haIn) (hqt.wordIn hvIn) (hqt.stems v hvIn) ht
  have hle := ht.len_le K (hrt.wordIn haIn) (hqt.wordIn hvIn)
  have hd := dist_of_gap (hrt.bounds a haIn).1 (hrt.bounds b hbIn).1 hgap
  have hjr : ∀ s, tryJoinR K rt qt s a v = none := fun s =>
    tryJoinR_none_of_short K rt qt s a v b (by simp [hrw, ha0]) (by omega)
  have hjq : ∀ s r, tryJoinQ K rt qt s r v = none := fun s r =>
    tryJoinQ_none_of_last K rt qt s r v (by simp [hqw, hv0])
  rw [textMatch_eq]
  simp only [hqw, List.foldl_cons, List.foldl_nil]
  rw [tmQuery_free _ _ _ _ _ (by simp [tmInit, isSet, hqw, hv0]), hrw,
    tmScan_hit K rt qt v a [b] _ _ (by simp [tmInit, isSet, hrw, ha0]) (hjr _) (hjq _ _) hm rfl
      (by simp [newPair, hf])]
  simp [tmCommit, tmInit, hrw, hqw, setAt, newPair, ha0, hv0, hitM]

end twoOne

/-! ## score vectors (in the generated order) of one / two exact matches -/

theorem scores_single (K : Consts) (w v : WordShape) (title : Text) (rating : Nat) :
    Gen.srcScoreOrder.map (scoreOf title rating [hitM K w v]) =
      [(v.len : Int), (if isFunc K w.pos then 0 else 1), - ((w.len - v.len : Nat) : Int), 0,
       (if (v.fin || decide (w.len = v.len)) then 1 else 0), - (w.offset : Int), (rating : Int),
       - (title.words.length : Int), - (((title.words.map (·.len)).sum : Nat) : Int)] := by
  simp only [Gen.srcScoreOrder, List.map, scoreOf, scoreChars, scoreWords, scoreTails, scoreTrans, transCount,
    scoreFin, scoreOffset, hitM_matchLen, hitM_typos, hitM_func, hitM_wordLen, hitM_fin, hitM_offset, ceilTenths,
    List.sum_cons, List.sum_nil, List.filter, List.getLast?_singleton, List.min?_singleton, Option.getD_some]
  cases isFunc K w.pos <;> simp

theorem scores_pair (K : Consts) (w1 v1 w2 v2 : WordShape) (title : Text) (rating : Nat) :
    Gen.srcScoreOrder.map (scoreOf title rating [hitM K w1 v1, hitM K w2 v2]) =
      [(v1.len : Int) + v2.len, (((if isFunc K w1.pos then 0 else 1) + (if isFunc K w2.pos then 0 else 1) : Nat) : Int),
       - (((w1.len - v1.len) + (w2.len - v2.len) : Nat) : Int),
       - (((if w1.offset + 1 > w2.offset then w1.offset + 1 - w2.offset else 0) +
           (if w1.offset + 1 < w2.offset then w2.offset - w1.offset - 1 else 0) : Nat) : Int),
       (if (v2.fin || decide (w2.len = v2.len)) then 1 else 0), - ((min w1.offset w2.offset : Nat) : Int), (rating : Int),
       - (title.words.length : Int), - (((title.words.map (·.len)).sum : Nat) : Int)] := by
  simp only [Gen.srcScoreOrder, List.map, scoreOf, scoreChars, scoreWords, scoreTails, scoreTrans, transCount,
    scoreFin, scoreOffset, hitM_matchLen, hitM_typos, hitM_func, hitM_wordLen, hitM_offset, ceilTenths,
    List.sum_cons, List.sum_nil, List.filter]
  cases isFunc K w1.pos <;> cases isFunc K w2.pos <;> simp <;> rfl

/-! ## the joined-record-words closure on a foreign first word -/

theorem tryJoinR_some_spec {K : Consts} {rt qt : Text} {s s' : TMState} {r q : WordShape}
    (h : tryJoinR K rt qt s r q = some s') :
    ∃ rnext rmatch qmatch r1 r2, rt.words[r.offset + 1]? = some rnext ∧
      wordMatch K rt (r.join rnext) qt q = some (rmatch, qmatch) ∧ rmatch.split K r rnext = some (r1, r2) ∧
      s' = { rm := setAt (setAt s.rm r1.offset r1) r2.offset r2, qm := setAt s.qm qmatch.offset qmatch, cand := none } := by
  unfold tryJoinR at h
  split at h
  · cases h
  · rename_i rnext hnext
    split at h
    · cases h
    · split at h
      · cases h
      · cases h
      · split at h
        · cases h
        · rename_i rmatch qmatch hm
          split at h
          · cases h
          · rename_i r1 r2 hsp
            simp only [Option.some.injEq] at h
            exact ⟨rnext, rmatch, qmatch, r1, r2, hnext, hm, hsp, h.symm⟩

theorem splitTypos_fst_pos (t l1 l2 : Nat) (ht : 1 ≤ t) (h1 : 1 ≤ l1) (h2 : 1 ≤ l2) : 1 ≤ (splitTypos t l1 l2).1 := by
  unfold splitTypos
  rw [if_neg (by omega), if_neg (by omega)]
  simp only []
  have hp : 1 ≤ t * l1 := Nat.mul_pos ht h1
  exact Nat.div_pos (by omega) (by omega)

theorem slice_getD_zero (l : List Nat) (lo hi : Nat) (h : lo < hi) : (slice l lo hi).getD 0 0 = l.getD lo 0 := by
  have : 0 < hi - lo := by omega
  simp [slice, List.getD, this]

theorem getD_zero_mem {l : List Nat} (h : l ≠ []) : l.getD 0 0 ∈ l := by
  cases l with
  | nil => exact absurd rfl h
  | cons x xs => simp

/-- when the joined closure fires on a first word `r` whose characters are all foreign to the query word, the two
    matches it leaves behind are at the offsets of `r` and its successor and score at most `|q| - 2` characters -/
theorem join_chars_lt (K : Consts) (hK : CostsOK K = true) {rt qt : Text} (hrt : TextOK rt) (hqt : TextOK qt)
    {r rnext q : WordShape} (hr : r ∈ rt.words) (hq : q ∈ qt.words) (hn : rt.words[r.offset + 1]? = some rnext)
    (hgap : r.hi < rnext.lo) (hdis : ∀ c ∈ wchars rt r, c ∉ wchars qt q)
    {rmatch qmatch r1 r2 : WMatch} (hm : wordMatch K rt (r.join rnext) qt q = some (rmatch, qmatch))
    (hs : rmatch.split K r rnext = some (r1, r2)) :
    r1.offset = r.offset ∧ r2.offset = rnext.offset ∧ scoreChars [r1, r2] + 2 ≤ (q.len : Int) := by
  obtain ⟨hjw, hjs⟩ := hrt.join_wordIn hr hn
  obtain ⟨hnIn, _, _⟩ := hrt.next hr hn
  have hqw := hqt.wordIn hq
  have hrw := hrt.wordIn hr
  have hq1 := hqt.stems q hq
  refine wordMatch_acc K hK rt (r.join rnext) qt q hjw hqw
    (fun p => ∀ r1 r2, p.1.split K r rnext = some (r1, r2) →
      r1.offset = r.offset ∧ r2.offset = rnext.offset ∧ scoreChars [r1, r2] + 2 ≤ (q.len : Int)) ?_ (rmatch, qmatch) hm r1 r2 hs
  intro rs qs acc r1 r2 hsp
  have hqs : qs ≤ q.len := acc.q_le
  have hrsle : rs ≤ (r.join rnext).len := acc.r_le
  have hstem : q.stem ≤ qs := acc.stem
  have hnear := acc.near.1
  -- the distance is positive: the first characters differ
  have hD : 1 ≤ D K (cword K qt q) (cword K rt (r.join rnext)) qs rs := by
    apply Nat.pos_of_ne_zero
    intro e
    have hz := (D_eq_zero_iff K (KOK_of_CostsOK K hK) (cword K qt q) (cword K rt (r.join rnext))
      (cword_aligned K qt q hqw.2.2) (cword_aligned K rt _ hjw.2.2) (cword_costPos K hK qt q) (cword_costPos K hK rt _)
      qs rs (by rw [cword_len_wordIn K qt q hqw]; exact hqs) (by rw [cword_len_wordIn K rt _ hjw]; exact hrsle)).mp e
    have h0 := hz.2 0 (by omega)
    simp only [CWord.c, cword] at h0
    have hj0 : (wchars rt (r.join rnext)).getD 0 0 = (wchars rt r).getD 0 0 := by
      unfold wchars
      rw [slice_getD_zero _ _ _ hjw.1, slice_getD_zero _ _ _ hrw.1]
      rfl
    rw [hj0] at h0
    exact hdis _ (getD_zero_mem (wchars_ne_nil hrw)) (h0 ▸ getD_zero_mem (wchars_ne_nil hqw))
  obtain ⟨hg, ⟨a1, a2, a3, a4, a5⟩, ⟨b1, b2, b3, b4, b5⟩⟩ := split_some hsp
  refine ⟨a1, b1, ?_⟩
  -- typos of the first half
  have ht1 : 1 ≤ r1.typos := by
    unfold WMatch.split at hsp
    split at hsp
    · cases hsp
    · simp only [Option.some.injEq, Prod.mk.injEq] at hsp
      obtain ⟨e1, _⟩ := hsp
      rw [← e1]
      exact splitTypos_fst_pos _ _ _ hD hrw.len_pos (hrt.wordIn hnIn).len_pos
  have hbr := hrt.bounds r hr
  simp only [newPair] at hg b5
  simp only [scoreChars, List.map, List.sum_cons, List.sum_nil, WMatch.matchLen, a4, a5, b4, b5, ceilTenths,
    WordShape.len] at hqs ⊢
  omega

section twoOneLate
variable (K : Consts) (hK : CostsOK K = true) (hN : GateNumsOK K = true) (hJ : JacCapOK K = true)
  (rt qt : Text) (a b v : WordShape)
  (hrt : TextOK rt) (hqt : TextOK qt) (hrw : rt.words = [a, b]) (hqw : qt.words = [v]) (hgap : a.hi < b.lo)

include hK hN hJ hrt hqt hrw hqw hgap in
/-- two-word title `[a, b]` whose first word is foreign to the one-word query, which is typed text for `b`:
    either `b` alone is matched exactly, or the joined closure fired on `a` and left two matches worth at most
    `|v| - 2` characters -/
theorem textMatch_two_second (hdis : ∀ c ∈ wchars rt a, c ∉ wchars qt v) (ht : Typed rt b qt v) :
    (textMatch K rt qt).1 = [hitM K b v] ∨
    ∃ r1 r2, (textMatch K rt qt).1 = [r1, r2] ∧ scoreChars [r1, r2] + 2 ≤ (v.len : Int) := by
  obtain ⟨ha0, hb1⟩ := offsets2 hrt hrw
  have hv0 := offsets1 hqt hqw
  have haIn : a ∈ rt.words := by simp [hrw]
  have hbIn : b ∈ rt.words := by simp [hrw]
  have hvIn : v ∈ qt.words := by simp [hqw]
  have hm := wordMatch_hit K hK hN (hrt.wordIn hbIn) (hqt.wordIn hvIn) (hqt.stems v hvIn) ht
  have hmiss := wordMatch_disjoint_none K hJ rt a qt v (hqt.wordIn hvIn) hdis
  have hjq : ∀ s r, tryJoinQ K rt qt s r v = none := fun s r =>
    tryJoinQ_none_of_last K rt qt s r v (by simp [hqw, hv0])
  have hjrb : ∀ s, tryJoinR K rt qt s b v = none := fun s =>
    tryJoinR_none_of_last K rt qt s b v (by simp [hrw, hb1])
  rw [textMatch_eq]
  simp only [hqw, List.foldl_cons, List.foldl_nil]
  rw [tmQuery_free _ _ _ _ _ (by simp [tmInit, isSet, hqw, hv0]), hrw]
  cases hj : tryJoinR K rt qt { tmInit rt qt with cand := none } a v with
  | none =>
    left
    rw [tmScan_miss K rt qt v a [b] _ (by simp [tmInit, isSet, hrw, ha0]) hj (hjq _ _) hmiss]
    cases hf : isFunc K b.pos
    · rw [tmScan_hit K rt qt v b [] _ _ (by simp [tmInit, isSet, hrw, hb1]) (hjrb _) (hjq _ _) hm rfl
        (by simp [newPair, hf])]
      simp [tmCommit, tmInit, hrw, hqw, setAt, newPair, hb1, hv0, hitM]
    · rw [tmScan_hit_func K rt qt v b [] _ _ (by simp [tmInit, isSet, hrw, hb1]) (hjrb _) (hjq _ _) hm rfl
        (by simp [newPair, hf])]
      simp [tmScan, tmCommit, tmInit, hrw, hqw, setAt, newPair, hb1, hv0, hitM]
  | some s' =>
    right
    rw [tmScan_joinR K rt qt v a [b] _ s' (by simp [tmInit, isSet, hrw, ha0]) hj]
    obtain ⟨rnext, rmatch, qmatch, r1, r2, hn, hwm, hsp, hs'⟩ := tryJoinR_some_spec hj
    have hnb : rnext = b := by simpa [hrw, ha0] using hn.symm
    subst hnb
    obtain ⟨o1, o2, hsc⟩ := join_chars_lt K hK hrt hqt haIn hvIn hn hgap hdis hwm hsp
    refine ⟨r1, r2, ?_, hsc⟩
    rw [hs']
    simp [tmCommit, tmInit, hrw, hqw, setAt, o1, o2, ha0, hb1]

end twoOneLate

/-- a finished query word that is typed text for `w` has the length of `w` -/
theorem Typed.len_eq {rt qt : Text} {w v : WordShape} (h : Typed rt w qt v) (hfin : v.fin = true)
    (hr : WordIn rt w) (hq : WordIn qt v) : v.len = w.len := by
  rcases h.2 with ⟨h, _⟩ | ⟨_, h, _⟩
  · rw [hfin] at h; cases h
  · exact equal_len rt w qt v hr hq h

/-! ### two-word query `[q1, q2]` (first word finished) against a two-word title `[a, b]` -/

section twoTwo
variable (K : Consts) (hK : CostsOK K = true) (hN : GateNumsOK K = true) (hJ : JacCapOK K = true)
  (rt qt : Text) (a b q1 q2 : WordShape)
  (hrt : TextOK rt) (hqt : TextOK qt) (hrw : rt.words = [a, b]) (hqw : qt.words = [q1, q2])
  (hgap : a.hi < b.lo) (hqgap : q1.hi < q2.lo) (hfin1 : q1.fin = true)
  (ht1 : Typed rt a qt q1) (hfa : isFunc K a.pos = false)

include hK hN hrt hqt hrw hqw hgap hqgap hfin1 ht1 hfa in
/-- the first query word takes the first title word -/
theorem twoTwo_step1 :
    tmQuery K rt qt (tmInit rt qt) q1 =
      { rm := [some (hitM K a q1), none], qm := [some (newPair K a q1 q1.len q1.len 0).2, none], cand := none } := by
  obtain ⟨ha0, hb1⟩ := offsets2 hrt hrw
  obtain ⟨hq10, hq21⟩ := offsets2 hqt hqw
  have haIn : a ∈ rt.words := by simp [hrw]
  have hbIn : b ∈ rt.words := by simp [hrw]
  have hq1In : q1 ∈ qt.words := by simp [hqw]
  have hq2In : q2 ∈ qt.words := by simp [hqw]
  have hm := wordMatch_hit K hK hN (hrt.wordIn haIn) (hqt.wordIn hq1In) (hqt.stems q1 hq1In) ht1
  have hle := ht1.len_eq hfin1 (hrt.wordIn haIn) (hqt.wordIn hq1In)
  have hd := dist_of_gap (hrt.bounds a haIn).1 (hrt.bounds b hbIn).1 hgap
  have hdq := dist_of_gap (hqt.bounds q1 hq1In).1 (hqt.bounds q2 hq2In).1 hqgap
  have hjr : ∀ s, tryJoinR K rt qt s a q1 = none := fun s =>
    tryJoinR_none_of_short K rt qt s a q1 b (by simp [hrw, ha0]) (by omega)
  have hjq : ∀ s, tryJoinQ K rt qt s a q1 = none := fun s =>
    tryJoinQ_none_of_short K rt qt s a q1 q2 (by simp [hqw, hq10]) (by omega)
  rw [tmQuery_free _ _ _ _ _ (by simp [tmInit, isSet, hqw, hq10]), hrw,
    tmScan_hit K rt qt q1 a [b] _ _ (by simp [tmInit, isSet, hrw, ha0]) (hjr _) (hjq _) hm rfl
      (by simp [newPair, hfa])]
  simp [tmCommit, tmInit, hrw, hqw, setAt, newPair, ha0, hq10, hitM]

include hK hN hrt hqt hrw hqw hgap hqgap hfin1 ht1 hfa in
/-- both query words are typed text for the two title words, in order: two exact matches -/
theorem textMatch_twoTwo_both (ht2 : Typed rt b qt q2) :
    (textMatch K rt qt).1 = [hitM K a q1, hitM K b q2] := by
  obtain ⟨ha0, hb1⟩ := offsets2 hrt hrw
  obtain ⟨hq10, hq21⟩ := offsets2 hqt hqw
  have hbIn : b ∈ rt.words := by simp [hrw]
  have hq2In : q2 ∈ qt.words := by simp [hqw]
  have hm := wordMatch_hit K hK hN (hrt.wordIn hbIn) (hqt.wordIn hq2In) (hqt.stems q2 hq2In) ht2
  have hjr : ∀ s, tryJoinR K rt qt s b q2 = none := fun s =>
    tryJoinR_none_of_last K rt qt s b q2 (by simp [hrw, hb1])
  have hjq : ∀ s r, tryJoinQ K rt qt s r q2 = none := fun s r =>
    tryJoinQ_none_of_last K rt qt s r q2 (by simp [hqw, hq21])
  rw [textMatch_eq]
  simp only [hqw, List.foldl_cons, List.foldl_nil]
  rw [twoTwo_step1 K hK hN rt qt a b q1 q2 hrt hqt hrw hqw hgap hqgap hfin1 ht1 hfa,
    tmQuery_free _ _ _ _ _ (by simp [isSet, hq21]), hrw,
    tmScan_skip K rt qt q2 a [b] _ (by simp [isSet, ha0])]
  cases hf : isFunc K b.pos
  · rw [tmScan_hit K rt qt q2 b [] _ _ (by simp [isSet, hb1]) (hjr _) (hjq _ _) hm rfl (by simp [newPair, hf])]
    simp [tmCommit, setAt, newPair, hb1, hq21, hitM]
  · rw [tmScan_hit_func K rt qt q2 b [] _ _ (by simp [isSet, hb1]) (hjr _) (hjq _ _) hm rfl (by simp [newPair, hf])]
    simp [tmScan, tmCommit, setAt, newPair, hb1, hq21, hitM]

include hK hN hJ hrt hqt hrw hqw hgap hqgap hfin1 ht1 hfa in
/-- the second title word is foreign to the second query word: only the first query word is matched -/
theorem textMatch_twoTwo_first_only (hdis : ∀ c ∈ wchars rt b, c ∉ wchars qt q2) :
    (textMatch K rt qt).1 = [hitM K a q1] := by
  obtain ⟨ha0, hb1⟩ := offsets2 hrt hrw
  obtain ⟨hq10, hq21⟩ := offsets2 hqt hqw
  have hq2In : q2 ∈ qt.words := by simp [hqw]
  have hmiss := wordMatch_disjoint_none K hJ rt b qt q2 (hqt.wordIn hq2In) hdis
  have hjr : ∀ s, tryJoinR K rt qt s b q2 = none := fun s =>
    tryJoinR_none_of_last K rt qt s b q2 (by simp [hrw, hb1])
  have hjq : ∀ s r, tryJoinQ K rt qt s r q2 = none := fun s r =>
    tryJoinQ_none_of_last K rt qt s r q2 (by simp [hqw, hq21])
  rw [textMatch_eq]
  simp only [hqw, List.foldl_cons, List.foldl_nil]
  rw [twoTwo_step1 K hK hN rt qt a b q1 q2 hrt hqt hrw hqw hgap hqgap hfin1 ht1 hfa,
    tmQuery_free _ _ _ _ _ (by simp [isSet, hq21]), hrw,
    tmScan_skip K rt qt q2 a [b] _ (by simp [isSet, ha0]),
    tmScan_miss K rt qt q2 b [] _ (by simp [isSet, hb1]) (hjr _) (hjq _ _) hmiss]
  simp [tmScan, tmCommit]

end twoTwo

/-! ### two-word query `[q1, q2]` (first word finished) against a three-word title `[a, b, c]` -/

section threeTwo
variable (K : Consts) (hK : CostsOK K = true) (hN : GateNumsOK K = true) (hJ : JacCapOK K = true)
  (rt qt : Text) (a b c q1 q2 : WordShape)
  (hrt : TextOK rt) (hqt : TextOK qt) (hrw : rt.words = [a, b, c]) (hqw : qt.words = [q1, q2])
  (hgap : a.hi < b.lo) (hgap' : b.hi < c.lo) (hqgap : q1.hi < q2.lo) (hfin1 : q1.fin = true)
  (ht1 : Typed rt a qt q1) (hfa : isFunc K a.pos = false)

include hK hN hrt hqt hrw hqw hgap hqgap hfin1 ht1 hfa in
/-- the first query word takes the first title word -/
theorem threeTwo_step1 :
    tmQuery K rt qt (tmInit rt qt) q1 =
      { rm := [some (hitM K a q1), none, none], qm := [some (newPair K a q1 q1.len q1.len 0).2, none], cand := none } := by
  obtain ⟨ha0, hb1, hc2⟩ := offsets3 hrt hrw
  obtain ⟨hq10, hq21⟩ := offsets2 hqt hqw
  have haIn : a ∈ rt.words := by simp [hrw]
  have hbIn : b ∈ rt.words := by simp [hrw]
  have hq1In : q1 ∈ qt.words := by simp [hqw]
  have hq2In : q2 ∈ qt.words := by simp [hqw]
  have hm := wordMatch_hit K hK hN (hrt.wordIn haIn) (hqt.wordIn hq1In) (hqt.stems q1 hq1In) ht1
  have hle := ht1.len_eq hfin1 (hrt.wordIn haIn) (hqt.wordIn hq1In)
  have hd := dist_of_gap (hrt.bounds a haIn).1 (hrt.bounds b hbIn).1 hgap
  have hdq := dist_of_gap (hqt.bounds q1 hq1In).1 (hqt.bounds q2 hq2In).1 hqgap
  have hjr : ∀ s, tryJoinR K rt qt s a q1 = none := fun s =>
    tryJoinR_none_of_short K rt qt s a q1 b (by simp [hrw, ha0]) (by omega)
  have hjq : ∀ s, tryJoinQ K rt qt s a q1 = none := fun s =>
    tryJoinQ_none_of_short K rt qt s a q1 q2 (by simp [hqw, hq10]) (by omega)
  rw [tmQuery_free _ _ _ _ _ (by simp [tmInit, isSet, hqw, hq10]), hrw,
    tmScan_hit K rt qt q1 a [b, c] _ _ (by simp [tmInit, isSet, hrw, ha0]) (hjr _) (hjq _) hm rfl
      (by simp [newPair, hfa])]
  simp [tmCommit, tmInit, hrw, hqw, setAt, newPair, ha0, hq10, hitM]

include hK hN hrt hqt hrw hqw hgap hgap' hqgap hfin1 ht1 hfa in
/-- `[u, v, x]` against `[u, v]`: the two query words take the first two title words (both content words) -/
theorem textMatch_threeTwo_adjacent (ht2 : Typed rt b qt q2) (hfb : isFunc K b.pos = false) :
    (textMatch K rt qt).1 = [hitM K a q1, hitM K b q2] := by
  obtain ⟨ha0, hb1, hc2⟩ := offsets3 hrt hrw
  obtain ⟨hq10, hq21⟩ := offsets2 hqt hqw
  have hbIn : b ∈ rt.words := by simp [hrw]
  have hcIn : c ∈ rt.words := by simp [hrw]
  have hq2In : q2 ∈ qt.words := by simp [hqw]
  have hm := wordMatch_hit K hK hN (hrt.wordIn hbIn) (hqt.wordIn hq2In) (hqt.stems q2 hq2In) ht2
  have hle := ht2.len_le K (hrt.wordIn hbIn) (hqt.wordIn hq2In)
  have hd := dist_of_gap (hrt.bounds b hbIn).1 (hrt.bounds c hcIn).1 hgap'
  have hjr : ∀ s, tryJoinR K rt qt s b q2 = none := fun s =>
    tryJoinR_none_of_short K rt qt s b q2 c (by simp [hrw, hb1]) (by omega)
  have hjq : ∀ s r, tryJoinQ K rt qt s r q2 = none := fun s r =>
    tryJoinQ_none_of_last K rt qt s r q2 (by simp [hqw, hq21])
  rw [textMatch_eq]
  simp only [hqw, List.foldl_cons, List.foldl_nil]
  rw [threeTwo_step1 K hK hN rt qt a b c q1 q2 hrt hqt hrw hqw hgap hqgap hfin1 ht1 hfa,
    tmQuery_free _ _ _ _ _ (by simp [isSet, hq21]), hrw,
    tmScan_skip K rt qt q2 a [b, c] _ (by simp [isSet, ha0]),
    tmScan_hit K rt qt q2 b [c] _ _ (by simp [isSet, hb1]) (hjr _) (hjq _ _) hm rfl (by simp [newPair, hfb])]
  simp [tmCommit, setAt, newPair, hb1, hq21, hitM]

include hK hN hJ hrt hqt hrw hqw hgap hgap' hqgap hfin1 ht1 hfa in
/-- `[u, x, v]` against `[u, v]`: the filler `x` is foreign to the second query word, which is typed text for the
    third title word: either the third word is matched exactly (a gap of one word between the matches), or the
    joined closure fired on `x` and left two matches worth at most `|q2| - 2` characters -/
theorem textMatch_threeTwo_gap (hdis : ∀ ch ∈ wchars rt b, ch ∉ wchars qt q2) (ht2 : Typed rt c qt q2) :
    (textMatch K rt qt).1 = [hitM K a q1, hitM K c q2] ∨
    ∃ r1 r2, (textMatch K rt qt).1 = [hitM K a q1, r1, r2] ∧ scoreChars [r1, r2] + 2 ≤ (q2.len : Int) := by
  obtain ⟨ha0, hb1, hc2⟩ := offsets3 hrt hrw
  obtain ⟨hq10, hq21⟩ := offsets2 hqt hqw
  have hbIn : b ∈ rt.words := by simp [hrw]
  have hcIn : c ∈ rt.words := by simp [hrw]
  have hq2In : q2 ∈ qt.words := by simp [hqw]
  have hm := wordMatch_hit K hK hN (hrt.wordIn hcIn) (hqt.wordIn hq2In) (hqt.stems q2 hq2In) ht2
  have hmiss := wordMatch_disjoint_none K hJ rt b qt q2 (hqt.wordIn hq2In) hdis
  have hjq : ∀ s r, tryJoinQ K rt qt s r q2 = none := fun s r =>
    tryJoinQ_none_of_last K rt qt s r q2 (by simp [hqw, hq21])
  have hjrc : ∀ s, tryJoinR K rt qt s c q2 = none := fun s =>
    tryJoinR_none_of_last K rt qt s c q2 (by simp [hrw, hc2])
  rw [textMatch_eq]
  simp only [hqw, List.foldl_cons, List.foldl_nil]
  rw [threeTwo_step1 K hK hN rt qt a b c q1 q2 hrt hqt hrw hqw hgap hqgap hfin1 ht1 hfa,
    tmQuery_free _ _ _ _ _ (by simp [isSet, hq21]), hrw,
    tmScan_skip K rt qt q2 a [b, c] _ (by simp [isSet, ha0])]
  simp only []
  obtain ⟨s1, hs1⟩ : ∃ s1 : TMState, s1 = ⟨[some (hitM K a q1), none, none],
    [some (newPair K a q1 q1.len q1.len 0).2, none], none⟩ := ⟨_, rfl⟩
  rw [← hs1]
  have hs1rm : s1.rm = [some (hitM K a q1), none, none] := by rw [hs1]
  have hs1qm : s1.qm = [some (newPair K a q1 q1.len q1.len 0).2, none] := by rw [hs1]
  have hs1c : s1.cand = none := by rw [hs1]
  clear hs1
  cases hj : tryJoinR K rt qt s1 b q2 with
  | none =>
    left
    rw [tmScan_miss K rt qt q2 b [c] _ (by simp [hs1rm, isSet, hb1]) hj (hjq _ _) hmiss]
    cases hf : isFunc K c.pos
    · rw [tmScan_hit K rt qt q2 c [] _ _ (by simp [hs1rm, isSet, hc2]) (hjrc _) (hjq _ _) hm hs1c
        (by simp [newPair, hf])]
      simp [tmCommit, hs1rm, hs1qm, setAt, newPair, hc2, hq21, hitM]
    · rw [tmScan_hit_func K rt qt q2 c [] _ _ (by simp [hs1rm, isSet, hc2]) (hjrc _) (hjq _ _) hm hs1c
        (by simp [newPair, hf])]
      simp [tmScan, tmCommit, hs1rm, hs1qm, setAt, newPair, hc2, hq21, hitM]
  | some s' =>
    right
    rw [tmScan_joinR K rt qt q2 b [c] _ s' (by simp [hs1rm, isSet, hb1]) hj]
    obtain ⟨rnext, rmatch, qmatch, r1, r2, hn, hwm, hsp, hs'⟩ := tryJoinR_some_spec hj
    have hnb : rnext = c := by simpa [hrw, hb1] using hn.symm
    subst hnb
    obtain ⟨o1, o2, hsc⟩ := join_chars_lt K hK hrt hqt hbIn hq2In hn hgap' hdis hwm hsp
    refine ⟨r1, r2, ?_, hsc⟩
    rw [hs']
    simp [tmCommit, hs1rm, setAt, o1, o2, hb1, hc2]

end threeTwo

/-! ## a different word that is not longer scores fewer characters -/

/-- whatever `word_match` returns for a record word `w` that is not longer than the query word `v` and differs
    from it, its character score `match_len - 2·⌈typos⌉` is below `|v|` -/
theorem typo_chars_lt (K : Consts) (hK : CostsOK K = true) {rt qt : Text} {w v : WordShape}
    (hr : WordIn rt w) (hq : WordIn qt v) (hle : w.len ≤ v.len) (hne : wchars rt w ≠ wchars qt v)
    {p : WMatch × WMatch} (h : wordMatch K rt w qt v = some p) : scoreChars [p.1] < (v.len : Int) := by
  refine wordMatch_acc K hK rt w qt v hr hq (fun p => scoreChars [p.1] < (v.len : Int)) ?_ p h
  intro rs qs acc
  have hqs : qs ≤ v.len := acc.q_le
  have hrs : rs ≤ w.len := acc.r_le
  simp only [scoreChars, newPair, WMatch.matchLen, List.map, List.sum_cons, List.sum_nil, ceilTenths]
  by_cases hD : D K (cword K qt v) (cword K rt w) qs rs = 0
  · have hz := (D_eq_zero_iff K (KOK_of_CostsOK K hK) (cword K qt v) (cword K rt w)
      (cword_aligned K qt v hq.2.2) (cword_aligned K rt w hr.2.2) (cword_costPos K hK qt v) (cword_costPos K hK rt w)
      qs rs (by rw [cword_len_wordIn K qt v hq]; exact hqs) (by rw [cword_len_wordIn K rt w hr]; exact hrs)).mp hD
    have hlt : rs < v.len := by
      apply Decidable.byContradiction
      intro hge
      have e1 : qs = v.len := by omega
      have e2 : w.len = v.len := by omega
      have := (prefix_eq_iff (cword K qt v) (cword K rt w)).mp
        ⟨by rw [cword_len_wordIn K qt v hq, cword_len_wordIn K rt w hr, e2],
         fun k hk => hz.2 k (by rw [cword_len_wordIn K qt v hq] at hk; omega)⟩
      exact hne this.symm
    rw [hD]
    omega
  · omega

end Lucid
