/-
  C05 (the "in particular" clause) — "a title with no letter or digit in common with the query is never
  returned" (for a query with at least one word).

  `NoCommonChar q t`: no (normalised) character occurring in a word of the title `t` occurs in a word of the
  query `q`.  Every gram of a word (`(c0,0,0)`, `(c0,c1,0)`, `(a,b,c)`) has a character of that word as its FIRST
  component, so two texts sharing a gram have a word character in common; hence a title with `NoCommonChar`
  shares no gram with the query (`C05_no_common_char_no_shared_gram`), its position is not among the index's
  candidates (`C05_no_common_char_not_candidate`), it contributes no hit
  (`C05_no_common_char_no_hit`), it is not among the listed records, its verdict is `none`, and – when the ids of
  the store are pairwise distinct – no result carries its id (`C05_no_common_char_not_returned`).
  No hypothesis on the texts (tokenizer invariants) is needed: the argument is on first components only, so the
  padding value 0 plays no role.
-/
import LucidProofs.C18
import LucidProofs.C06b

namespace Lucid

/-- no character of a word of the title `t` occurs in a word of the query `q` -/
def NoCommonChar (q t : Text) : Prop :=
  ∀ w ∈ t.words, ∀ v ∈ q.words, ∀ c ∈ wchars t w, c ∉ wchars q v

instance (q t : Text) : Decidable (NoCommonChar q t) := by unfold NoCommonChar; infer_instance

/-! ### every gram of a word starts with a character of that word -/

theorem windows3_fst_mem : ∀ (cs : List Nat) (g : Gram), g ∈ windows3 cs → g.1 ∈ cs
  | [], g, h => by simp [windows3] at h
  | [_], g, h => by simp [windows3] at h
  | [_, _], g, h => by simp [windows3] at h
  | a :: b :: c :: rest, g, h => by
    rw [windows3, List.mem_cons] at h
    rcases h with h | h
    · subst h; simp
    · exact List.mem_cons_of_mem _ (windows3_fst_mem (b :: c :: rest) g h)

theorem trigrams_fst_mem (cs : List Nat) (g : Gram) (h : g ∈ trigrams cs) : g.1 ∈ cs := by
  unfold trigrams at h
  rcases List.mem_append.mp h with h | h
  · match cs, h with
    | [a], h => simp at h; subst h; simp
    | a :: b :: _, h =>
      simp only [List.mem_cons, List.not_mem_nil, or_false] at h
      rcases h with h | h <;> subst h <;> simp
  · exact windows3_fst_mem cs g h

/-- two texts sharing a gram have a word character in common -/
theorem common_char_of_shared_gram {q t : Text} {g : Gram} (hq : g ∈ collectGrams q) (ht : g ∈ collectGrams t) :
    ∃ w ∈ t.words, ∃ v ∈ q.words, ∃ c, c ∈ wchars t w ∧ c ∈ wchars q v := by
  obtain ⟨v, hv, hgv⟩ := mem_collectGrams.mp hq
  obtain ⟨w, hw, hgw⟩ := mem_collectGrams.mp ht
  exact ⟨w, hw, v, hv, g.1, trigrams_fst_mem _ g hgw, trigrams_fst_mem _ g hgv⟩

/-- **C05 (no common character ⇒ no shared gram).** A title none of whose word characters occurs in a word of
    the query has no gram (trigram, one- or two-letter word start) in common with the query. -/
theorem C05_no_common_char_no_shared_gram (q t : Text) (h : NoCommonChar q t) : sharesGram q t = false := by
  cases hs : sharesGram q t with
  | false => rfl
  | true =>
    obtain ⟨g, hg1, hg2⟩ := sharesGram_iff.mp hs
    obtain ⟨w, hw, v, hv, c, hc1, hc2⟩ := common_char_of_shared_gram hg1 hg2
    exact absurd hc2 (h w hw v hv c hc1)

/-- **C05 (not a candidate).** Store whose index is the trigram index of its records (`StoreIndexInv`, every
    reachable store), query with at least one word: the position of a record whose title has no character in
    common with the query is not in the candidate list. -/
theorem C05_no_common_char_not_candidate (S : Sorter) (hS : SorterOK S) (K : Consts) (hK : 1 ≤ K.sortFactor)
    (st : Store) (hI : StoreIndexInv st) (q : Text) (hq : q.words ≠ [])
    (ix : Nat) (hix : ix < st.records.length) (hn : NoCommonChar q st.records[ix].title) :
    ix ∉ (st.candidatesM S K q).1 := by
  intro hmem
  rw [candidatesM_wordy S K st q hq] at hmem
  obtain ⟨h1, g, hg1, hg2⟩ := C05_candidates_related S hS K hK st.index _ hI.2 q st.limit ix hmem
  have hs : sharesGram q st.records[ix].title = true :=
    sharesGram_iff.mpr ⟨g, hg1, by simpa using hg2⟩
  rw [C05_no_common_char_no_shared_gram q _ hn] at hs
  cases hs

/-- **C05 (no hit).** Reachable store (`StoreInv`), query with at least one word, `r` a record of the store whose
    title has no character in common with the query: the position of `r` is not a candidate, and no scored hit of
    the search sits at the position of `r` (positions identify records: `StoreInv.ixPos`). -/
theorem C05_no_common_char_no_hit (S : Sorter) (hS : SorterOK S) (K : Consts) (hK : 1 ≤ K.sortFactor)
    (order : List ScoreType) (st : Store) (h : StoreInv S K st) (q : Text) (hq : q.words ≠ [])
    (r : Record) (hr : r ∈ st.records) (hn : NoCommonChar q r.title) :
    r.ix ∉ (st.candidatesM S K q).1 ∧
    ∀ hit ∈ st.hitsOf K order q (st.candidatesM S K q).1, hit.ix ≠ r.ix := by
  have hget := (mem_records_iff h r).mp hr
  obtain ⟨hlt, he⟩ := List.getElem?_eq_some_iff.mp hget
  have hnc : r.ix ∉ (st.candidatesM S K q).1 :=
    C05_no_common_char_not_candidate S hS K hK st h.indexInv q hq r.ix hlt (by rw [he]; exact hn)
  refine ⟨hnc, ?_⟩
  intro hit hhit he'
  obtain ⟨r', hr', rfl, _⟩ := (mem_hitsOf_iff (S := S) order st q hit).mp hhit
  have : r'.ix ∈ (st.candRecs S K q).map (·.ix) := List.mem_map.mpr ⟨r', hr', rfl⟩
  rw [candRecs_map_ix hS hK h q] at this
  rw [scoreHit_ix] at he'
  exact hnc (he' ▸ this)

/-- **C05 (never returned).** Reachable store, query with at least one word, `r` a record of the store whose title
    has no letter or digit (normalised word character) in common with the query. Then
    * `r` is not among the records behind the results (`st.listed`, of which the results are the rendered hits,
      `C06_nodup`), nor is any record at the same position;
    * on its own the record yields nothing (`verdict … = none`, cf. `C06_local_sound`: every result is the
      verdict of a record);
    * when the ids of the records are pairwise distinct, no result carries the id of `r`. -/
theorem C05_no_common_char_not_returned (S : Sorter) (hS : SorterOK S) (K : Consts) (hK : 1 ≤ K.sortFactor)
    (order : List ScoreType) (st : Store) (h : StoreInv S K st) (q : Text) (hq : q.words ≠ [])
    (r : Record) (hr : r ∈ st.records) (hn : NoCommonChar q r.title) :
    (∀ r' ∈ st.listed S K order q, r'.ix ≠ r.ix) ∧
    verdict K st.dividers q r.data = none ∧
    ((st.records.map (·.id)).Nodup → ∀ res ∈ st.search S K order q, res.id ≠ r.id) := by
  have hns := C05_no_common_char_no_shared_gram q r.title hn
  have hnh : isHit K q r.title = false := by
    unfold isHit
    have : decide (q.words = []) = false := by simpa using hq
    rw [this, hns]; rfl
  have hlist : ∀ r' ∈ st.listed S K order q, r' ≠ r := by
    intro r' hr' e
    subst e
    have := (listed_isHit hS hK order h q r' hr').2
    rw [hnh] at this; cases this
  refine ⟨?_, verdict_of_not_isHit K st.dividers q r.data hnh, ?_⟩
  · intro r' hr' e
    have h1 := (listed_isHit hS hK order h q r' hr').1
    have h2 := (mem_records_iff h r').mp h1
    have h3 := (mem_records_iff h r).mp hr
    rw [e, h3] at h2
    exact hlist r' hr' (Option.some.inj h2).symm
  · intro hid res hres e
    rw [search_eq_listed hS hK order st q] at hres
    obtain ⟨r', hr', rfl⟩ := List.mem_map.mp hres
    have h1 := (listed_isHit hS hK order h q r' hr').1
    have hinj := inj_of_pairwise_ne (fun r : Record => r.id) st.records (List.pairwise_map.mp hid)
    exact hlist r' hr' (hinj r' h1 r hr e)

/-! ### at the constants and score order generated from the source -/

theorem C05_no_common_char_not_candidate_src (S : Sorter) (hS : SorterOK S)
    (st : Store) (hI : StoreIndexInv st) (q : Text) (hq : q.words ≠ [])
    (ix : Nat) (hix : ix < st.records.length) (hn : NoCommonChar q st.records[ix].title) :
    ix ∉ (st.candidatesM S Gen.srcConsts q).1 :=
  C05_no_common_char_not_candidate S hS Gen.srcConsts (by decide) st hI q hq ix hix hn

theorem C05_no_common_char_no_hit_src (S : Sorter) (hS : SorterOK S)
    (st : Store) (h : StoreInv S Gen.srcConsts st) (q : Text) (hq : q.words ≠ [])
    (r : Record) (hr : r ∈ st.records) (hn : NoCommonChar q r.title) :
    r.ix ∉ (st.candidatesM S Gen.srcConsts q).1 ∧
    ∀ hit ∈ st.hitsOf Gen.srcConsts Gen.srcScoreOrder q (st.candidatesM S Gen.srcConsts q).1, hit.ix ≠ r.ix :=
  C05_no_common_char_no_hit S hS Gen.srcConsts (by decide) Gen.srcScoreOrder st h q hq r hr hn

theorem C05_no_common_char_not_returned_src (S : Sorter) (hS : SorterOK S)
    (st : Store) (h : StoreInv S Gen.srcConsts st) (q : Text) (hq : q.words ≠ [])
    (r : Record) (hr : r ∈ st.records) (hn : NoCommonChar q r.title) :
    (∀ r' ∈ st.listed S Gen.srcConsts Gen.srcScoreOrder q, r'.ix ≠ r.ix) ∧
    verdict Gen.srcConsts st.dividers q r.data = none ∧
    ((st.records.map (·.id)).Nodup → ∀ res ∈ st.search S Gen.srcConsts Gen.srcScoreOrder q, res.id ≠ r.id) :=
  C05_no_common_char_not_returned S hS Gen.srcConsts (by decide) Gen.srcScoreOrder st h q hq r hr hn

/-- … for every store reachable from `Store.new` by adds, clears, setters and searches -/
theorem C05_no_common_char_not_returned_reachable_src (S : Sorter) (hS : SorterOK S) (ops : List StoreOp)
    (q : Text) (hq : q.words ≠ []) :
    let st := Store.run S Gen.srcConsts Gen.srcScoreOrder (Store.new Gen.srcConsts) ops
    ∀ r ∈ st.records, NoCommonChar q r.title →
      (∀ r' ∈ st.listed S Gen.srcConsts Gen.srcScoreOrder q, r'.ix ≠ r.ix) ∧
      verdict Gen.srcConsts st.dividers q r.data = none ∧
      ((st.records.map (·.id)).Nodup → ∀ res ∈ st.search S Gen.srcConsts Gen.srcScoreOrder q, res.id ≠ r.id) :=
  fun r hr hn => C05_no_common_char_not_returned_src S hS _ (StoreInv_reachable S _ _ ops) q hq r hr hn

/-! ### non-vacuity -/

section Examples

private def oneWord (cs : List Nat) : Text :=
  { words := [{ offset := 0, lo := 0, hi := cs.length, stem := cs.length, pos := none, fin := true }],
    source := cs, chars := cs, classes := cs.map (fun _ => .any) }

/-- titles "metal", "xyz"; query "met" -/
private def exRecs : List (Nat × Text × Nat) := [(10, oneWord [109, 101, 116, 97, 108], 1), (20, oneWord [120, 121, 122], 2)]
private def exQ : Text := oneWord [109, 101, 116]
private def exSt : Store := mkStore Gen.srcConsts 5 ([91], [93]) exRecs
private def exR : Record := { ix := 1, id := 20, title := oneWord [120, 121, 122], rating := 2 }

example : StoreInv mergeSorter Gen.srcConsts exSt := StoreInv_fresh ..
example : exQ.words ≠ [] := by decide
example : exR ∈ exSt.records := by decide
/-- "xyz" has no character in common with "met", "metal" has -/
example : NoCommonChar exQ exR.title := by decide
example : ¬ NoCommonChar exQ (oneWord [109, 101, 116, 97, 108]) := by decide
example : (exSt.records.map (·.id)).Nodup := by decide
/-- the candidate list for "met" is `[0]`: position 1 ("xyz") is absent -/
example : (exSt.candidatesM locInsSorter Gen.srcConsts exQ).1 = [0] := by decide

end Examples

end Lucid
