/-
  C02 — every hit carries the id of a stored record; its returned title is that record's (normalised) title
  `source` with NUL removed and the two markers inserted around word-aligned spans; nothing else is dropped,
  duplicated, reordered or altered; changing the markers changes nothing but the markers; no NUL in a title.
  Statements with short proofs; the lemmas live in `Lemmas/Highlight.lean`, `Lemmas/TextMatchShape.lean`, `C09.lean`.

  Not proved here (tokenizer cluster, C15/C16): that `title.source` of a record added with title `s` is the
  language's composition of `s` (accent sequences composed, ligature expansions padded with NUL), i.e. that
  `stripNul r.title.source` is "the record's title with composable accent sequences composed and NUL dropped".
  The theorems below are about `r.title.source` as stored.
-/
import LucidModel.Gen.Consts
import LucidProofs.Lemmas.Orders
import LucidProofs.Lemmas.Sorter
import LucidProofs.C09

namespace Lucid

/-- part of the store invariant (store cluster, `StoreInv.ixPos`): the record at position `ix` carries `ix` -/
def RecordsIndexed (st : Store) : Prop := ∀ (ix : Nat) (r : Record), st.records[ix]? = some r → r.ix = ix

/-- every search result is the rendering of a filtered scored hit of the candidate list -/
theorem result_of_mem_search {S : Sorter} (hS : SorterOK S) {K : Consts} (hK : 1 ≤ K.sortFactor)
    {order : List ScoreType} {st : Store} {q : Text} {res : Result} (h : res ∈ st.search S K order q) :
    ∃ hit ∈ st.hitsOf K order q (st.candidatesM S K q).1, res = st.render hit := by
  have htop := limitSort_TopK hitLe_preorder (hS hitLe hitLe_preorder) K.sortFactor hK st.limit
    (st.hitsOf K order q (st.candidatesM S K q).1)
  simp only [Store.search, Store.searchM, List.mem_map] at h
  obtain ⟨hit, hmem, rfl⟩ := h
  obtain ⟨_, _, rest, hperm, _⟩ := htop
  exact ⟨hit, (hperm.mem_iff).mp (List.mem_append_left _ hmem), rfl⟩

/-- **C02 (ids are real).** Every search result carries the id of a record of the store; more precisely it is
    the rendering of a hit whose `ix` is the position of that record, with that record's id and title. -/
theorem C02_id_real {S : Sorter} (hS : SorterOK S) {K : Consts} (hK : 1 ≤ K.sortFactor)
    (order : List ScoreType) (st : Store) (hst : RecordsIndexed st) (q : Text) :
    ∀ res ∈ st.search S K order q, ∃ r ∈ st.records, res.id = r.id ∧
      ∃ hit, res = st.render hit ∧ st.records[hit.ix]? = some r ∧ hit.id = r.id ∧ hit.title = r.title := by
  intro res hres
  obtain ⟨hit, hh, rfl⟩ := result_of_mem_search hS hK hres
  obtain ⟨ix, r, _, hr, rfl, _⟩ := hit_of_mem_hitsOf hh
  refine ⟨r, List.mem_of_getElem? hr, rfl, _, rfl, ?_, rfl, rfl⟩
  show st.records[r.ix]? = some r
  rw [hst ix r hr]; exact hr

/-- **C02 (title = decorated source).** The returned title of every result is the NUL-stripped decoration of
    the `source` of a stored record's title (the record whose id the result carries) by the store's markers around
    spans that are well-formed (`SpansOK`: sorted, disjoint, non-empty, each the beginning of a distinct title word). -/
theorem C02_title_is_decorated_source {S : Sorter} (hS : SorterOK S) {K : Consts} (hK : 1 ≤ K.sortFactor)
    (order : List ScoreType) (st : Store) (q : Text) (H : HitsWF K st q) :
    ∀ res ∈ st.search S K order q, ∃ r ∈ st.records, ∃ spans, res.id = r.id ∧ SpansOK r.title spans ∧
      res.title = stripNul (decorate r.title.source spans st.dividers.1 st.dividers.2) := by
  intro res hres
  obtain ⟨hit, hh, rfl⟩ := result_of_mem_search hS hK hres
  have hsp := C09_spans_ok H _ hit hh
  have hbal := (C09_markup_balanced H _ hit hh).1
  obtain ⟨ix, r, _, hr, rfl, _⟩ := hit_of_mem_hitsOf hh
  exact ⟨r, List.mem_of_getElem? hr, _, rfl, hsp, hbal⟩

/-- **C02 (no markers ⇒ the title itself).** With empty markers every returned title is exactly the `source` of
    the record's title with NUL removed: highlighting drops, duplicates, reorders and alters nothing. -/
theorem C02_no_markers_gives_source {S : Sorter} (hS : SorterOK S) {K : Consts} (hK : 1 ≤ K.sortFactor)
    (order : List ScoreType) (st : Store) (q : Text) (H : HitsWF K st q) (hd : st.dividers = ([], [])) :
    ∀ res ∈ st.search S K order q, ∃ r ∈ st.records, res.id = r.id ∧ res.title = stripNul r.title.source := by
  intro res hres
  obtain ⟨hit, hh, rfl⟩ := result_of_mem_search hS hK hres
  obtain ⟨h1, _, h3, _⟩ := C09_markup_balanced H _ hit hh
  obtain ⟨ix, r, _, hr, rfl, _⟩ := hit_of_mem_hitsOf hh
  refine ⟨r, List.mem_of_getElem? hr, rfl, ?_⟩
  rw [h1, hd, decorate_nil _ h3]; rfl

/-! ### changing the markers -/

theorem candidatesM_setDividers (S : Sorter) (K : Consts) (st : Store) (q : Text) (l r : List Nat) :
    ((st.setDividers l r).candidatesM S K q).1 = (st.candidatesM S K q).1 := by
  unfold Store.candidatesM
  split
  · rfl
  · unfold Store.topIxsM
    show (match st.topIxs with
      | some (lim, ixs) => if lim = st.limit then (ixs, st.setDividers l r) else _
      | none => _).1 = _
    cases st.topIxs with
    | none => rfl
    | some p =>
      obtain ⟨lim, ixs⟩ := p
      simp only []
      split <;> rfl

/-- the hits selected by a search do not depend on the markers; only their rendering does -/
theorem search_setDividers (S : Sorter) (K : Consts) (order : List ScoreType) (st : Store) (q : Text) (l r : List Nat) :
    (st.setDividers l r).search S K order q =
      (limitSort (S.sort hitLe) K.sortFactor st.limit (st.hitsOf K order q (st.candidatesM S K q).1)).map
        (fun h => { id := h.id, title := highlight h l r }) := by
  simp only [Store.search, Store.searchM, candidatesM_setDividers]
  rfl

/-- **C02 (markers only change markers).** There is one list of hits, with one list of spans per hit, both
    independent of the markers, such that for *every* pair of markers `(dl, dr)` the search on the store
    configured with these markers returns, hit by hit, the same id and the title
    `decorate (NUL-free source) spans (NUL-free dl) (NUL-free dr)`; deleting the inserted markers by position
    (`unmark`) from that title gives back the NUL-free source, whatever the markers. So two marker pairs give
    titles that differ in nothing but the inserted markers. -/
theorem C02_markers_only_change_markers {S : Sorter} (hS : SorterOK S) {K : Consts} (hK : 1 ≤ K.sortFactor)
    (order : List ScoreType) (st : Store) (q : Text) (H : HitsWF K st q) :
    ∃ hits : List (Hit × List (Nat × Nat)),
      (∀ p ∈ hits, ∃ r ∈ st.records, p.1.id = r.id ∧ p.1.title = r.title ∧ SpansFrom 0 p.2 ∧
          SpansIn (stripNul r.title.source).length p.2) ∧
      ∀ dl dr : List Nat,
        (st.setDividers dl dr).search S K order q =
          hits.map (fun p => { id := p.1.id,
                               title := decorate (stripNul p.1.title.source) p.2 (stripNul dl) (stripNul dr) }) ∧
        ∀ p ∈ hits, unmark (stripNul dl).length (stripNul dr).length p.2
            (decorate (stripNul p.1.title.source) p.2 (stripNul dl) (stripNul dr)) = stripNul p.1.title.source := by
  let top := limitSort (S.sort hitLe) K.sortFactor st.limit (st.hitsOf K order q (st.candidatesM S K q).1)
  have htop : ∀ h ∈ top, h ∈ st.hitsOf K order q (st.candidatesM S K q).1 := by
    intro h hmem
    obtain ⟨_, _, rest, hperm, _⟩ := limitSort_TopK hitLe_preorder (hS hitLe hitLe_preorder) K.sortFactor hK st.limit
      (st.hitsOf K order q (st.candidatesM S K q).1)
    exact (hperm.mem_iff).mp (List.mem_append_left _ hmem)
  have hgood : ∀ h ∈ top, ∃ r ∈ st.records, h.id = r.id ∧ h.title = r.title ∧
      SpansFrom 0 (nulSpans h.title.source (hitSpans h)) ∧
      SpansIn (stripNul r.title.source).length (nulSpans h.title.source (hitSpans h)) ∧
      ∀ dl dr, highlight h dl dr =
        decorate (stripNul h.title.source) (nulSpans h.title.source (hitSpans h)) (stripNul dl) (stripNul dr) := by
    intro h hmem
    have hh := htop h hmem
    obtain ⟨ht, hs, hm⟩ := hit_rmatches_ok H hh
    have hsafe : hlSafe h.title.source h.rmatches h.title.words 0 0 = true :=
      hlSafe_of_textOK ht (fun m hmem => (hm m hmem).fits ht)
    obtain ⟨hfrom, hin⟩ := hlSafe_spans hsafe
    obtain ⟨ix, r, _, hr, rfl, _⟩ := hit_of_mem_hitsOf hh
    refine ⟨r, List.mem_of_getElem? hr, rfl, rfl, ?_, nulSpans_in _ hin, ?_⟩
    · have := nulSpans_from (scoreHit K order q r).title.source hfrom
      rwa [nulPos_zero] at this
    · intro dl dr
      rw [highlight_eq_stripNul, hlWalk_eq_decorate dl dr hsafe]
      exact stripNul_decorate _ dl dr hfrom
  refine ⟨top.map (fun h => (h, nulSpans h.title.source (hitSpans h))), ?_, ?_⟩
  · intro p hp
    obtain ⟨h, hmem, rfl⟩ := List.mem_map.mp hp
    obtain ⟨r, hr, h1, h2, h3, h4, _⟩ := hgood h hmem
    exact ⟨r, hr, h1, h2, h3, h4⟩
  · intro dl dr
    refine ⟨?_, ?_⟩
    · rw [search_setDividers, List.map_map]
      apply List.map_congr_left
      intro h hmem
      obtain ⟨_, _, _, _, _, _, h5⟩ := hgood h hmem
      simp only [Function.comp, h5 dl dr]
    · intro p hp
      obtain ⟨h, hmem, rfl⟩ := List.mem_map.mp hp
      obtain ⟨r, _, _, h2, h3, h4, _⟩ := hgood h hmem
      simp only []
      rw [h2] at h4 ⊢
      exact unmark_decorate _ _ _ (h2 ▸ h3) h4

/-- **C02 (no NUL).** A returned title never contains NUL — for every store, query, sorter, constants and
    markers (even markers that contain NUL). No hypotheses. -/
theorem C02_no_nul (S : Sorter) (K : Consts) (order : List ScoreType) (st : Store) (q : Text) :
    ∀ res ∈ st.search S K order q, 0 ∉ res.title := by
  intro res hres
  simp only [Store.search, Store.searchM, List.mem_map] at hres
  obtain ⟨hit, _, rfl⟩ := hres
  exact zero_not_mem_highlight hit _ _

/-! ### instantiation at the constants generated from the source -/

theorem C02_id_real_src {S : Sorter} (hS : SorterOK S) (st : Store) (hst : RecordsIndexed st) (q : Text) :
    ∀ res ∈ st.search S Gen.srcConsts Gen.srcScoreOrder q, ∃ r ∈ st.records, res.id = r.id := by
  intro res hres
  obtain ⟨r, hr, hid, _⟩ := C02_id_real hS (K := Gen.srcConsts) (by decide) Gen.srcScoreOrder st hst q res hres
  exact ⟨r, hr, hid⟩

theorem C02_title_is_decorated_source_src {S : Sorter} (hS : SorterOK S) (st : Store) (q : Text)
    (H : HitsWF Gen.srcConsts st q) :
    ∀ res ∈ st.search S Gen.srcConsts Gen.srcScoreOrder q, ∃ r ∈ st.records, ∃ spans, res.id = r.id ∧
      SpansOK r.title spans ∧ res.title = stripNul (decorate r.title.source spans st.dividers.1 st.dividers.2) :=
  C02_title_is_decorated_source hS (by decide) Gen.srcScoreOrder st q H

theorem C02_no_markers_gives_source_src {S : Sorter} (hS : SorterOK S) (st : Store) (q : Text)
    (H : HitsWF Gen.srcConsts st q) (hd : st.dividers = ([], [])) :
    ∀ res ∈ st.search S Gen.srcConsts Gen.srcScoreOrder q, ∃ r ∈ st.records, res.id = r.id ∧
      res.title = stripNul r.title.source :=
  C02_no_markers_gives_source hS (by decide) Gen.srcScoreOrder st q H hd

/-! ### non-vacuity of the hypotheses (see also `C09Example`): a one-record store with a well-formed title;
    `SorterOK` is instantiated by merge sort in the sorter cluster. -/
example : RecordsIndexed C09Example.exStore := by
  intro ix r h
  simp only [C09Example.exStore, Store.add, Store.new, List.nil_append] at h
  match ix, h with
  | 0, h => simp at h; subst h; rfl
example : 1 ≤ C09Example.K0.sortFactor := by decide
example : 1 ≤ Gen.srcConsts.sortFactor := by decide
/-- the store of the example has a record, so the quantifiers over `st.records` are not empty -/
example : C09Example.exStore.records.length = 1 := by decide

end Lucid
