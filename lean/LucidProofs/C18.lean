/-
  C18 — the trigram index's candidate list.

  "For a query with at least one word, the index's candidate list contains no duplicates and only positions of
   existing records that share at least one gram (a trigram, or a one- or two-letter word start) with the
   query. If at most 10×size records share a gram, all of them are listed; otherwise exactly 10×size are
   listed, ordered by non-increasing number of shared grams, and no omitted record shares more grams than a
   listed one."

  Setting: `idx` is any index with `IndexInv idx titles`, i.e. (`buildIndex_inv`, `StoreIndexInv`) any index
  built by a sequence of adds of the titles `titles` at positions 0, 1, 2, … (duplicates, empty titles,
  one-letter words included); `q` any query text; `size` any natural number (0 included); `S` any sorting
  subroutine returning a sorted permutation; `K` any constants with buffer factor ≥ 1.
  `sharedCount titles q ix` = number of distinct grams of `q` occurring in `titles[ix]`.
  All statements except `C18_empty_query` hold for queries without words too (the list is then empty and
  no record shares a gram), so the hypothesis `q.words ≠ []` of the property text is not needed.

  Statements only; helper lemmas live in LucidProofs/Lemmas/Index.lean.
-/
import LucidModel.Gen.Consts
import LucidProofs.Lemmas.Index

namespace Lucid

/-- positions of the records that share at least one gram with the query, ascending -/
def sharingPositions (titles : List Text) (q : Text) : List Nat :=
  (List.range titles.length).filter (fun ix => decide (0 < sharedCount titles q ix))

theorem mem_sharingPositions {titles : List Text} {q : Text} {ix : Nat} :
    ix ∈ sharingPositions titles q ↔ ix < titles.length ∧ 0 < sharedCount titles q ix := by
  simp [sharingPositions]

/-- The candidate list is a bounded top-`size·prepFactor` selection (relation `TopK`, comparator "more shared
    grams first") of the list of `(position, count)` pairs with a positive count, and that list is: for every
    record position in ascending order, the number of distinct query grams occurring in the record's title,
    kept if positive. -/
theorem C18_topk (S : Sorter) (hS : SorterOK S) (K : Consts) (hK : 1 ≤ K.sortFactor)
    (idx : Index) (titles : List Text) (hI : IndexInv idx titles) (q : Text) (size : Nat) :
    (∃ sel, TopK countLe (size * K.prepFactor) (positiveCounts idx q) sel ∧
        idx.prepare S K q size = sel.map (·.1)) ∧
    positiveCounts idx q
      = ((List.range titles.length).map (fun ix => (ix, sharedCount titles q ix))).filter
          (fun p => decide (p.2 > 0)) :=
  ⟨hI.prepare_topk S hS K hK q size, hI.positiveCounts_eq q⟩

/-- The candidate list contains no position twice. -/
theorem C18_nodup (S : Sorter) (hS : SorterOK S) (K : Consts) (hK : 1 ≤ K.sortFactor)
    (idx : Index) (titles : List Text) (hI : IndexInv idx titles) (q : Text) (size : Nat) :
    (idx.prepare S K q size).Nodup := by
  obtain ⟨sel, hT, he⟩ := hI.prepare_topk S hS K hK q size
  rw [he]
  exact hT.map_nodup _ (hI.positiveCounts_fst_nodup q)

/-- Every listed position is the position of an existing record, and that record shares at least one gram
    with the query. -/
theorem C18_in_range_and_shares (S : Sorter) (hS : SorterOK S) (K : Consts) (hK : 1 ≤ K.sortFactor)
    (idx : Index) (titles : List Text) (hI : IndexInv idx titles) (q : Text) (size : Nat) :
    ∀ ix ∈ idx.prepare S K q size, ix < titles.length ∧ 0 < sharedCount titles q ix := by
  obtain ⟨sel, hT, he⟩ := hI.prepare_topk S hS K hK q size
  intro ix hix
  rw [he] at hix
  obtain ⟨p, hp, rfl⟩ := List.mem_map.mp hix
  obtain ⟨h1, h2, h3⟩ := hI.mem_sel hT hp
  exact ⟨h1, by omega⟩

/-- If at most `size·prepFactor` records share a gram with the query, every one of them is listed. -/
theorem C18_all_listed_below_cap (S : Sorter) (hS : SorterOK S) (K : Consts) (hK : 1 ≤ K.sortFactor)
    (idx : Index) (titles : List Text) (hI : IndexInv idx titles) (q : Text) (size : Nat)
    (hcap : (sharingPositions titles q).length ≤ size * K.prepFactor) :
    ∀ ix, ix < titles.length → 0 < sharedCount titles q ix → ix ∈ idx.prepare S K q size := by
  obtain ⟨sel, hT, he⟩ := hI.prepare_topk S hS K hK q size
  intro ix h1 h2
  have hperm := hT.perm_of_length_le (by rw [hI.length_positiveCounts]; exact hcap)
  have : (ix, sharedCount titles q ix) ∈ sel :=
    hperm.symm.subset ((hI.mem_positiveCounts q _).mpr ⟨h1, rfl, h2⟩)
  rw [he]
  exact List.mem_map.mpr ⟨_, this, rfl⟩

/-- If more than `size·prepFactor` records share a gram with the query, exactly `size·prepFactor` positions
    are listed. -/
theorem C18_exactly_cap_above (S : Sorter) (hS : SorterOK S) (K : Consts) (hK : 1 ≤ K.sortFactor)
    (idx : Index) (titles : List Text) (hI : IndexInv idx titles) (q : Text) (size : Nat)
    (hcap : size * K.prepFactor < (sharingPositions titles q).length) :
    (idx.prepare S K q size).length = size * K.prepFactor := by
  obtain ⟨sel, hT, he⟩ := hI.prepare_topk S hS K hK q size
  rw [he, List.length_map]
  exact hT.length_of_le (by rw [hI.length_positiveCounts]; exact Nat.le_of_lt hcap)

/-- In every case the number of listed positions is the smaller of `size·prepFactor` and the number of records
    sharing a gram with the query. -/
theorem C18_length (S : Sorter) (hS : SorterOK S) (K : Consts) (hK : 1 ≤ K.sortFactor)
    (idx : Index) (titles : List Text) (hI : IndexInv idx titles) (q : Text) (size : Nat) :
    (idx.prepare S K q size).length = min (size * K.prepFactor) (sharingPositions titles q).length := by
  obtain ⟨sel, hT, he⟩ := hI.prepare_topk S hS K hK q size
  rw [he, List.length_map, hT.2.1, hI.length_positiveCounts]
  rfl

/-- Along the candidate list the number of shared grams never increases: an earlier position shares at least
    as many grams with the query as any later one. -/
theorem C18_sorted_by_count (S : Sorter) (hS : SorterOK S) (K : Consts) (hK : 1 ≤ K.sortFactor)
    (idx : Index) (titles : List Text) (hI : IndexInv idx titles) (q : Text) (size : Nat) :
    (idx.prepare S K q size).Pairwise (fun a b => sharedCount titles q b ≤ sharedCount titles q a) := by
  obtain ⟨sel, hT, he⟩ := hI.prepare_topk S hS K hK q size
  rw [he, List.pairwise_map]
  refine List.Pairwise.imp_of_mem ?_ hT.1
  intro a b ha hb hab
  have h1 := (hI.mem_sel hT ha).2.1
  have h2 := (hI.mem_sel hT hb).2.1
  simp only [countLe, decide_eq_true_eq] at hab
  omega

/-- No omitted record that shares a gram with the query shares more grams than a listed one. -/
theorem C18_omitted_not_better (S : Sorter) (hS : SorterOK S) (K : Consts) (hK : 1 ≤ K.sortFactor)
    (idx : Index) (titles : List Text) (hI : IndexInv idx titles) (q : Text) (size : Nat) :
    ∀ ix, ix < titles.length → ix ∉ idx.prepare S K q size →
      ∀ jx ∈ idx.prepare S K q size, sharedCount titles q ix ≤ sharedCount titles q jx := by
  obtain ⟨sel, hT, he⟩ := hI.prepare_topk S hS K hK q size
  intro ix h1 hn jx hj
  by_cases h2 : 0 < sharedCount titles q ix
  · rw [he] at hn hj
    obtain ⟨p, hp, rfl⟩ := List.mem_map.mp hj
    have hx : (ix, sharedCount titles q ix) ∈ positiveCounts idx q :=
      (hI.mem_positiveCounts q _).mpr ⟨h1, rfl, h2⟩
    have hnx : (ix, sharedCount titles q ix) ∉ sel := fun h => hn (List.mem_map.mpr ⟨_, h, rfl⟩)
    have hle := hT.le_of_not_mem hx hnx hp
    have h3 := (hI.mem_sel hT hp).2.1
    simp only [countLe, decide_eq_true_eq] at hle
    omega
  · omega

/-- With `size = 0` the candidate list is empty (whatever the index, sorter and constants). -/
theorem C18_size_zero (S : Sorter) (K : Consts) (idx : Index) (q : Text) :
    idx.prepare S K q 0 = [] := by
  unfold Index.prepare limitSort
  split <;> simp

/-- For a query without words the index returns the empty list (the store then falls back to the
    top-rated records). -/
theorem C18_empty_query (S : Sorter) (K : Consts) (idx : Index) (q : Text) (size : Nat) (hq : q.words = []) :
    idx.prepare S K q size = [] := by
  simp [Index.prepare, hq]

/-- Used by C05 ("no unrelated hits"): every candidate position is the position of an existing record whose
    title has at least one gram in common with the query. -/
theorem C05_candidates_related (S : Sorter) (hS : SorterOK S) (K : Consts) (hK : 1 ≤ K.sortFactor)
    (idx : Index) (titles : List Text) (hI : IndexInv idx titles) (q : Text) (size : Nat) :
    ∀ ix ∈ idx.prepare S K q size, ∃ h : ix < titles.length,
      ∃ g, g ∈ collectGrams q ∧ g ∈ collectGrams titles[ix] := by
  intro ix hix
  obtain ⟨h1, h2⟩ := C18_in_range_and_shares S hS K hK idx titles hI q size ix hix
  obtain ⟨g, hg1, hg2⟩ := sharedCount_pos_iff.mp h2
  exact ⟨h1, g, hg1, by rwa [recGrams_eq h1] at hg2⟩

/-! ### the same for a store: `st.index` and the titles of `st.records` -/

/-- For every store reachable from `Store.new` by `add`, `clear`, `setLimit`, `setDividers` and searches
    (`StoreIndexInv.new/add/clear/setLimit/setDividers/searchM`), the C18 statements hold with
    `idx = st.index` and `titles` = the titles of the records in position order. -/
theorem C18_store_inv (st : Store) (h : StoreIndexInv st) : IndexInv st.index (st.records.map (·.title)) := h.2

/-! ### instances at the constants generated from the source (buffer factor 2, cap `10·size`) -/

theorem C18_topk_src (S : Sorter) (hS : SorterOK S)
    (idx : Index) (titles : List Text) (hI : IndexInv idx titles) (q : Text) (size : Nat) :
    (∃ sel, TopK countLe (size * 10) (positiveCounts idx q) sel ∧
        idx.prepare S Gen.srcConsts q size = sel.map (·.1)) ∧
    positiveCounts idx q
      = ((List.range titles.length).map (fun ix => (ix, sharedCount titles q ix))).filter
          (fun p => decide (p.2 > 0)) :=
  C18_topk S hS Gen.srcConsts (by decide) idx titles hI q size

theorem C18_nodup_src (S : Sorter) (hS : SorterOK S)
    (idx : Index) (titles : List Text) (hI : IndexInv idx titles) (q : Text) (size : Nat) :
    (idx.prepare S Gen.srcConsts q size).Nodup :=
  C18_nodup S hS Gen.srcConsts (by decide) idx titles hI q size

theorem C18_in_range_and_shares_src (S : Sorter) (hS : SorterOK S)
    (idx : Index) (titles : List Text) (hI : IndexInv idx titles) (q : Text) (size : Nat) :
    ∀ ix ∈ idx.prepare S Gen.srcConsts q size, ix < titles.length ∧ 0 < sharedCount titles q ix :=
  C18_in_range_and_shares S hS Gen.srcConsts (by decide) idx titles hI q size

theorem C18_all_listed_below_cap_src (S : Sorter) (hS : SorterOK S)
    (idx : Index) (titles : List Text) (hI : IndexInv idx titles) (q : Text) (size : Nat)
    (hcap : (sharingPositions titles q).length ≤ size * 10) :
    ∀ ix, ix < titles.length → 0 < sharedCount titles q ix → ix ∈ idx.prepare S Gen.srcConsts q size :=
  C18_all_listed_below_cap S hS Gen.srcConsts (by decide) idx titles hI q size hcap

theorem C18_exactly_cap_above_src (S : Sorter) (hS : SorterOK S)
    (idx : Index) (titles : List Text) (hI : IndexInv idx titles) (q : Text) (size : Nat)
    (hcap : size * 10 < (sharingPositions titles q).length) :
    (idx.prepare S Gen.srcConsts q size).length = size * 10 :=
  C18_exactly_cap_above S hS Gen.srcConsts (by decide) idx titles hI q size hcap

theorem C18_length_src (S : Sorter) (hS : SorterOK S)
    (idx : Index) (titles : List Text) (hI : IndexInv idx titles) (q : Text) (size : Nat) :
    (idx.prepare S Gen.srcConsts q size).length = min (size * 10) (sharingPositions titles q).length :=
  C18_length S hS Gen.srcConsts (by decide) idx titles hI q size

theorem C18_sorted_by_count_src (S : Sorter) (hS : SorterOK S)
    (idx : Index) (titles : List Text) (hI : IndexInv idx titles) (q : Text) (size : Nat) :
    (idx.prepare S Gen.srcConsts q size).Pairwise
      (fun a b => sharedCount titles q b ≤ sharedCount titles q a) :=
  C18_sorted_by_count S hS Gen.srcConsts (by decide) idx titles hI q size

theorem C18_omitted_not_better_src (S : Sorter) (hS : SorterOK S)
    (idx : Index) (titles : List Text) (hI : IndexInv idx titles) (q : Text) (size : Nat) :
    ∀ ix, ix < titles.length → ix ∉ idx.prepare S Gen.srcConsts q size →
      ∀ jx ∈ idx.prepare S Gen.srcConsts q size, sharedCount titles q ix ≤ sharedCount titles q jx :=
  C18_omitted_not_better S hS Gen.srcConsts (by decide) idx titles hI q size

theorem C05_candidates_related_src (S : Sorter) (hS : SorterOK S)
    (idx : Index) (titles : List Text) (hI : IndexInv idx titles) (q : Text) (size : Nat) :
    ∀ ix ∈ idx.prepare S Gen.srcConsts q size, ∃ h : ix < titles.length,
      ∃ g, g ∈ collectGrams q ∧ g ∈ collectGrams titles[ix] :=
  C05_candidates_related S hS Gen.srcConsts (by decide) idx titles hI q size

/-! ### non-vacuity: concrete instances of the hypotheses -/

section Examples

/-- a text with one word over the given characters -/
private def oneWord (cs : List Nat) : Text :=
  { words := [{ offset := 0, lo := 0, hi := cs.length, stem := cs.length, pos := none, fin := true }],
    source := cs, chars := cs, classes := [] }

private def exTitles : List Text := [oneWord [109, 101, 116, 97, 108], oneWord [], oneWord [109], oneWord [109, 101, 116, 97, 108]]
private def exQuery : Text := oneWord [109, 101, 116]

/-- the invariant holds for the index built from four titles ("metal", an empty title, the one-letter
    title "m", and "metal" again) -/
example : IndexInv (buildIndex exTitles) exTitles := buildIndex_inv _

/-- … and for the index of a store after two adds -/
example : StoreIndexInv (((Store.new Gen.srcConsts).add 10 (oneWord [109, 101, 116, 97, 108]) 1).add 20 (oneWord [109]) 2) :=
  ((StoreIndexInv.new _).add _ _ _).add _ _ _

/-- the query "met" (three grams: `m`, `me`, `met`) has words, shares 3 grams with both "metal" records,
    1 with "m" and 0 with the empty title -/
example : exQuery.words ≠ [] := by decide
example : collectGrams exQuery = [(109, 0, 0), (109, 101, 0), (109, 101, 116)] := by decide
example : (List.range 4).map (sharedCount exTitles exQuery) = [3, 0, 1, 3] := by decide
example : positiveCounts (buildIndex exTitles) exQuery = [(0, 3), (2, 1), (3, 3)] := by decide
example : sharingPositions exTitles exQuery = [0, 2, 3] := by decide

/-- the generated constants meet the numeric hypothesis; the cap is `10·size` -/
example : 1 ≤ Gen.srcConsts.sortFactor := by decide
example : Gen.srcConsts.prepFactor = 10 := by decide

end Examples

end Lucid
