/-
  C01 — no trap site ever fires.

  "Adding records with arbitrary Unicode titles, changing the limit or the highlight markers, and searching with
  arbitrary Unicode queries always return normally in every supported language: no panic, abort,
  arithmetic-overflow trap or hang. A build with overflow and debug checks enabled returns exactly the same hits
  as an unchecked (shipping-style) build, so no result depends on silent integer wrap-around."

  `LucidModel/Safe.lean` models, for every function of the pipeline, the conjunction of the conditions under
  which no `usize` subtraction underflows, no index or slice is out of range, no `unwrap`/`panic!`/
  `debug_assert!` fires and no unchecked access leaves its buffer, on the path the function actually takes.
  The theorems below say these Booleans are `true` for every input reachable through the API.

  "No hang" is not a separate theorem: every function of the model (`LucidModel/*.lean`) is a total Lean
  function accepted by the termination checker (structural recursion over the input lists; the loops of the
  source are bounded `for` loops and iterator chains over finite vectors), so every call returns.

  Lemmas: `Lemmas/SafeTok.lean` (tokenizer), `Lemmas/SafeMatch.lean` (`word_match`, `text_match`, scoring and
  highlighting of one record), `Lemmas/Index.lean` (trigram index), `Lemmas/Store.lean`, `C18.lean`,
  `C12.lean` (candidate positions).
-/
import LucidProofs.Lemmas.SafeTok
import LucidProofs.Lemmas.SafeMatch
import LucidProofs.Lemmas.Candidates
import LucidProofs.C03
import LucidProofs.C12
import LucidProofs.C15

namespace Lucid

/-! ### stores described by their invariants -/

theorem wordsInBounds_of_textOK {t : Text} (h : TextOK t) : t.wordsInBounds = true := by
  unfold Text.wordsInBounds
  rw [List.all_eq_true]
  intro w hw
  have := h.bounds w hw
  simp only [Bool.and_eq_true, decide_eq_true_eq]
  omega

/-- `Store::add` on a store whose index is the trigram index of its records -/
theorem addSafe_of_inv {st : Store} (hI : StoreIndexInv st) {t : Text} (ht : TextOK t) : st.addSafe t = true := by
  obtain ⟨h1, h2⟩ := hI
  have h3 := h2.addSafe t
  rw [List.length_map, ← h1] at h3
  unfold Store.addSafe gramsSafe
  rw [h3, wordsInBounds_of_textOK ht, decide_eq_true h1]
  rfl

/-- every candidate position is the position of a record -/
theorem candidates_in_range (S : Sorter) (hS : SorterOK S) (K : Consts) (hK : 1 ≤ K.sortFactor) {st : Store}
    (hI : StoreIndexInv st) (hV : StoreInv S K st) (q : Text) :
    ∀ ix ∈ (st.candidatesM S K q).1, ix < st.records.length := by
  intro ix hix
  by_cases hq : q.words.length > 0
  · have hc : (st.candidatesM S K q).1 = st.index.prepare S K q st.limit := by
      unfold Store.candidatesM; simp [hq]
    rw [hc] at hix
    have := (C18_in_range_and_shares S hS K hK st.index _ hI.2 q st.limit ix hix).1
    simpa using this
  · have hq' : q.words = [] := List.eq_nil_of_length_eq_zero (by omega)
    rw [candidatesM_empty hV q hq'] at hix
    obtain ⟨r, hr, rfl⟩ := List.mem_map.mp hix
    have hm := (cand_TopK S hS K hK st).mem_of_mem hr
    obtain ⟨i, hi, rfl⟩ := List.mem_iff_getElem.mp hm
    rw [hV.ixPos i hi]; exact hi

/-- `Store::search` on a store satisfying the two store invariants whose titles are tokenised texts -/
theorem searchSafe_of_inv (S : Sorter) (hS : SorterOK S) (K : Consts) (hC : CostsOK K = true)
    (hT : ThresholdOK K = true) (hK : 1 ≤ K.sortFactor) (order : List ScoreType) {st : Store}
    (hI : StoreIndexInv st) (hV : StoreInv S K st) (hR : ∀ r ∈ st.records, TextOK r.title)
    {q : Text} (hq : TextOK q) : st.searchSafe S K order q = true := by
  unfold Store.searchSafe
  simp only [Bool.and_eq_true]
  refine ⟨⟨?_, ?_⟩, ?_⟩
  · split
    · simp only [gramsSafe, wordsInBounds_of_textOK hq, hI.2.prepareSafe q, Bool.and_self]
    · rfl
  · rw [List.all_eq_true]
    intro ix hix
    exact decide_eq_true (candidates_in_range S hS K hK hI hV q ix hix)
  · rw [List.all_eq_true]
    intro r hr
    obtain ⟨ix, _, hget⟩ := List.mem_filterMap.mp hr
    exact hitSafe_ok K hC hT order hq (hR r (List.mem_of_getElem? hget))

/-! ### the property theorems -/

/-- **C01 (tokenizer).** `tokenize_query` and `tokenize_record` return normally on every input text in every
    language: the `panic!` of `normalize` for more than one word cannot fire, the NUL-padding subtraction
    `norm.len() - word.len()` cannot underflow, and every slice `chars[lo..hi]` taken by `split`, `strip`,
    `set_pos` and `set_stem` is in range.
    Hypotheses: the Unicode oracle satisfies `UnicodeFacts` (checked against Rust's `std` on all scalars by the
    harness) and the language tables satisfy `TablesOK` (decided by the kernel for the seven generated
    languages). Nothing is assumed of the Snowball oracle. -/
theorem C01_tokenize_safe (E : Env) (hU : UnicodeFacts E.U E.K) (hT : TablesOK E.T = true) (s : List Nat) :
    runStepsSafe E Gen.srcQuerySteps s = true ∧ runStepsSafe E Gen.srcRecordSteps s = true :=
  ⟨runStepsSafe_query E hU hT s, runStepsSafe_record E hU hT s⟩

/-- **C01 (`word_match`, `text_match`, scoring one record).** For any two tokenised texts — whatever the
    words are — `text_match` returns normally: the `dist`/`join` subtractions, every `word_match` call (views in
    range, every unchecked access of the distance matrix and cost vectors in range (C19) on the reused matrix,
    `stem - 1`, the checked cell read `dists.get(qslice + 1, rslice + 1)`, the `debug_assert!`s of `new_pair`),
    the `debug_assert!`s and the subtraction of `split`, all stores into the two scratch vectors and the `usize`
    score `match_len - 2·ceil(typos)`; and scoring, filtering and highlighting the record return normally too
    (`word_len - match_len`, every slice of the title).
    Hypotheses: edit costs `CostsOK`, threshold `ThresholdOK` (both decided on the generated constants). -/
theorem C01_match_safe (K : Consts) (hC : CostsOK K = true) (hT : ThresholdOK K = true) (order : List ScoreType)
    (q : Text) (r : Record) (hq : TextOK q) (hr : TextOK r.title) :
    textMatchSafe K r.title q = true ∧ hitSafe K order q r = true :=
  ⟨textMatchSafe_ok K hC hT hr hq, hitSafe_ok K hC hT order hq hr⟩

/-- **C01 (`Store::add`).** In every store reached from `Store::new` by any sequence of adds, clears, limit and
    marker changes and searches, adding a tokenised title returns normally: the position counter equals the
    number of records, every word slice read by `collect_grams` is in range, and the `debug_assert!` "postings
    strictly increasing" of the trigram index holds. -/
theorem C01_add_safe (S : Sorter) (K : Consts) (order : List ScoreType) (ops : List StoreOp)
    (t : Text) (ht : TextOK t) : ((Store.new K).run S K order ops).addSafe t = true :=
  addSafe_of_inv (StoreIndexInv_reachable S K order ops) ht

/-- **C01 (`Store::search`).** In every store reached from `Store::new` by any sequence of operations in which
    every added title is a tokenised text, searching with a tokenised query returns normally: the word slices
    read by `collect_grams`, the unchecked counter increments of the trigram index (`ix < len`), the indexing
    `self.records[ix]` of every candidate position, and scoring/filtering/highlighting of every candidate record
    (`C01_match_safe`).
    Hypotheses: `SorterOK S` (the sort routine returns a sorted permutation), `1 ≤ sortFactor`, `CostsOK`,
    `ThresholdOK`. -/
theorem C01_search_safe (S : Sorter) (hS : SorterOK S) (K : Consts) (hC : CostsOK K = true)
    (hT : ThresholdOK K = true) (hK : 1 ≤ K.sortFactor) (order : List ScoreType) (ops : List StoreOp)
    (hops : ∀ id t rating, StoreOp.add id t rating ∈ ops → TextOK t) (q : Text) (hq : TextOK q) :
    ((Store.new K).run S K order ops).searchSafe S K order q = true :=
  searchSafe_of_inv S hS K hC hT hK order (StoreIndexInv_reachable S K order ops)
    (StoreInv_reachable S K order ops)
    (run_records_sub S K order TextOK ops hops (Store.new K) (fun r hr => by simp [Store.new] at hr)) hq

/-! ### the API over raw strings -/

/-- the calls of the public API on one store, with raw (untokenised) texts -/
inductive ApiOp where
  | add (id : Nat) (title : List Nat) (rating : Nat)
  | setLimit (n : Nat)
  | setMarkers (l r : List Nat)
  | clear
  | search (query : List Nat)
deriving Repr, DecidableEq

/-- what the call does to the store: titles and queries go through the tokenizer of the program -/
def ApiOp.toStoreOp (P : Prog) (E : Env) : ApiOp → StoreOp
  | .add id title rating => .add id (tokenizeRecord P E title) rating
  | .setLimit n => .setLimit n
  | .setMarkers l r => .setDividers l r
  | .clear => .clear
  | .search query => .search (tokenizeQuery P E query)

/-- no trap site fires during this call on store `st`: the tokenizer call and the store call -/
def ApiOp.safe (S : Sorter) (P : Prog) (E : Env) (st : Store) : ApiOp → Bool
  | .add _ title _ => runStepsSafe E P.recordSteps title && st.addSafe (tokenizeRecord P E title)
  | .search query => runStepsSafe E P.querySteps query && st.searchSafe S P.K P.order (tokenizeQuery P E query)
  | _ => true

/-- no trap site fires during any call of the sequence, each call running on the store left by the earlier ones -/
def apiRunSafe (S : Sorter) (P : Prog) (E : Env) : Store → List ApiOp → Bool
  | _, [] => true
  | st, op :: ops => op.safe S P E st && apiRunSafe S P E (st.apply S P.K P.order (op.toStoreOp P E)) ops

theorem apiRunSafe_of_inv (S : Sorter) (hS : SorterOK S) (E : Env) (hK : E.K = Gen.srcConsts)
    (hU : UnicodeFacts E.U Gen.srcConsts) (hT : TablesOK E.T = true) (hSt : StemHyp E) (ops : List ApiOp) :
    ∀ st : Store, StoreIndexInv st → StoreInv S Gen.srcConsts st → (∀ r ∈ st.records, TextOK r.title) →
      apiRunSafe S Gen.srcProg E st ops = true := by
  have hU' : UnicodeFacts E.U E.K := hK ▸ hU
  induction ops with
  | nil => intro _ _ _ _; rfl
  | cons op ops ih =>
    intro st hI hV hR
    have hop : ∀ id t rating, op.toStoreOp Gen.srcProg E = StoreOp.add id t rating → TextOK t := by
      intro id t rating e
      cases op <;> simp only [ApiOp.toStoreOp, StoreOp.add.injEq, reduceCtorEq] at e
      obtain ⟨_, rfl, _⟩ := e
      exact (C15_record E hK hU hT hSt _).textOK
    have hnext := ih _ (hI.apply S Gen.srcConsts Gen.srcScoreOrder (op.toStoreOp Gen.srcProg E))
      (StoreInv_apply hV Gen.srcScoreOrder (op.toStoreOp Gen.srcProg E))
      (apply_records_sub S Gen.srcConsts Gen.srcScoreOrder st (op.toStoreOp Gen.srcProg E) TextOK hR hop)
    unfold apiRunSafe
    rw [Bool.and_eq_true]
    refine ⟨?_, hnext⟩
    cases op with
    | add id title rating =>
      simp only [ApiOp.safe, Bool.and_eq_true]
      exact ⟨runStepsSafe_record E hU' hT title, addSafe_of_inv hI (C15_record E hK hU hT hSt title).textOK⟩
    | search query =>
      simp only [ApiOp.safe, Bool.and_eq_true]
      exact ⟨runStepsSafe_query E hU' hT query,
        searchSafe_of_inv S hS Gen.srcConsts costsOK_src thresholdOK_src (by decide) Gen.srcScoreOrder hI hV hR
          (C15_query E hK hU hT hSt query).textOK⟩
    | setLimit n => rfl
    | setMarkers l r => rfl
    | clear => rfl

/-- **C01 for the library as generated from the source.** Take any sequence of API calls on a new store — add a
    record with an arbitrary title and rating, set the limit, set the highlight markers, clear, search with an
    arbitrary query — in any of the languages. Then no trap site of the model fires in any call of the sequence:
    not in the tokenizer run on the raw title or query, not in `Store::add`, not in `Store::search`.

    "Trap site" is the list of `LucidModel/Safe.lean`: every `usize` subtraction (NUL padding in `normalize`,
    `Word::dist`, `WordView::join`, `stem - 1`, `split`, `match_len - 2·ceil(typos)`, `word_len - match_len`,
    `len()` of words and matches), every slice or index (word views into `chars`/`classes`, `collect_grams`,
    the checked distance-matrix read of `word_match`, the scratch vectors of `text_match`, `records[ix]`, the
    slices of `highlight`), every `panic!`/`unwrap`/`debug_assert!` (`normalize`, `Word::dist`, `new_pair`,
    `split`, `TrigramIndex::add`), and every unchecked access (`get_unchecked`/`set_unchecked` on the distance
    matrix, the cost vectors and characters in `distance`; `get_unchecked_mut` on the trigram counters). Since
    none of the subtractions underflows, a build with overflow checks computes the same values as one without.

    Not covered (by inspection of the source only): allocation failure, stack depth, overflow of `usize`
    additions and multiplications (possible only for inputs of astronomical length), the `RefCell`/thread-local
    borrow flags, and the `unwrap`s of the id maps in `lib.rs` on calls with an unknown store id.

    Hypotheses: `SorterOK S` (`sort_unstable_by`/`sort_by` return a sorted permutation), the environment uses
    the generated constants, `UnicodeFacts` (checked against Rust's `std`), `TablesOK` (kernel-decided for the
    seven generated languages), `StemHyp` (for the six Snowball languages: the reduce table is `FoldClosed`
    (kernel-decided), lower-casing creates no reduce-table key (`LowerKeyFree`, checked by the harness), and the
    stem of a non-empty word free of reduce-table keys has between 1 and `len` characters; nothing for
    `lang_none`). -/
theorem C01_api_safe_src (S : Sorter) (hS : SorterOK S) (E : Env) (hK : E.K = Gen.srcConsts)
    (hU : UnicodeFacts E.U Gen.srcConsts) (hT : TablesOK E.T = true) (hSt : StemHyp E) (ops : List ApiOp) :
    apiRunSafe S Gen.srcProg E (Store.new Gen.srcConsts) ops = true :=
  apiRunSafe_of_inv S hS E hK hU hT hSt ops _ (StoreIndexInv.new _) (StoreInv_new S _)
    (fun r hr => by simp [Store.new] at hr)

/-- **C01 in every supported language.** For each of the seven language tables generated from the source
    (`none, de, en, es, fr, pt, ru`) the table hypothesis of `C01_api_safe_src` is a kernel-checked fact; what
    remains are the oracle hypotheses (`UnicodeFacts`, `StemHyp`) and `SorterOK`. -/
theorem C01_api_safe_srcLangs (S : Sorter) (hS : SorterOK S) (U : Unicode) (stem : List Nat → Nat)
    (hU : UnicodeFacts U Gen.srcConsts) (p : String × LangTables) (hp : p ∈ Gen.srcLangs)
    (hSt : StemHyp (Gen.srcProg.env U p.2 stem)) (ops : List ApiOp) :
    apiRunSafe S Gen.srcProg (Gen.srcProg.env U p.2 stem) (Store.new Gen.srcConsts) ops = true := by
  have hall : Gen.srcLangs.all (fun p => TablesOK p.2) = true := by decide
  exact C01_api_safe_src S hS _ rfl hU ((List.all_eq_true.1 hall) p hp) hSt ops

/-- the same statement at the generated constants for tokenised operations -/
theorem C01_search_safe_src (S : Sorter) (hS : SorterOK S) (ops : List StoreOp)
    (hops : ∀ id t rating, StoreOp.add id t rating ∈ ops → TextOK t) (q : Text) (hq : TextOK q) :
    ((Store.new Gen.srcConsts).run S Gen.srcConsts Gen.srcScoreOrder ops).searchSafe S Gen.srcConsts
      Gen.srcScoreOrder q = true :=
  C01_search_safe S hS Gen.srcConsts costsOK_src thresholdOK_src (by decide) Gen.srcScoreOrder ops hops q hq

theorem C01_match_safe_src (q : Text) (r : Record) (hq : TextOK q) (hr : TextOK r.title) :
    textMatchSafe Gen.srcConsts r.title q = true ∧ hitSafe Gen.srcConsts Gen.srcScoreOrder q r = true :=
  C01_match_safe Gen.srcConsts costsOK_src thresholdOK_src Gen.srcScoreOrder q r hq hr

/-! ### non-vacuity -/

namespace C01Example
open C13Example C03Example

/-- add "Abc def", search "d", set the limit, set the markers, search the empty query, clear, add, search -/
def exApi : List ApiOp :=
  [.add 42 [65, 98, 99, 32, 100, 101, 102] 7, .search [100], .setLimit 5, .setMarkers [60] [62], .search [],
   .clear, .add 1 [120, 121, 32, 122] 0, .search [120, 122]]

/-- the hypotheses of `C01_api_safe_src` are met by the toy Unicode/stem oracle with the English tables and
    insertion sort -/
example : apiRunSafe exSorter Gen.srcProg exEnv (Store.new Gen.srcConsts) exApi = true :=
  C01_api_safe_src exSorter exSorter_ok exEnv rfl toyU_facts tablesOK_en (toyStemHyp _ (by decide)) exApi

/-- the hypotheses of `C01_tokenize_safe` -/
example : runStepsSafe exEnv Gen.srcQuerySteps [65, 98, 99, 32, 100] = true ∧
    runStepsSafe exEnv Gen.srcRecordSteps [65, 98, 99, 32, 100] = true :=
  C01_tokenize_safe exEnv toyU_facts tablesOK_en _

/-- the hypotheses of `C01_match_safe_src`, `C01_add_safe` and `C01_search_safe_src`: the title "abc def" and the
    query "ab" of the C03 example -/
example : textMatchSafe Gen.srcConsts exRecord.title exQuery1 = true ∧
    hitSafe Gen.srcConsts Gen.srcScoreOrder exQuery1 exRecord = true :=
  C01_match_safe_src exQuery1 exRecord exQuery1_ok exTitle_ok

example : ((Store.new Gen.srcConsts).run exSorter Gen.srcConsts Gen.srcScoreOrder
    [.add 42 exTitle 0, .search exQuery1]).addSafe exTitle = true :=
  C01_add_safe exSorter Gen.srcConsts Gen.srcScoreOrder _ exTitle exTitle_ok

example : ((Store.new Gen.srcConsts).run exSorter Gen.srcConsts Gen.srcScoreOrder
    [.add 42 exTitle 0, .setLimit 3]).searchSafe exSorter Gen.srcConsts Gen.srcScoreOrder exQuery1 = true :=
  C01_search_safe_src exSorter exSorter_ok _ (by
    intro id t rating hm
    simp only [List.mem_cons, StoreOp.add.injEq, List.not_mem_nil, or_false, reduceCtorEq] at hm
    rw [hm.2.1]; exact exTitle_ok) exQuery1 exQuery1_ok

/-- the tokenizer guarantee "stem ≥ 1" (`TextOK.stems`) is needed: with a zero stem the subtraction `stem - 1`
    of `word_match` would underflow, and the model reports it -/
example : wmLeftSafe (wd 0 0 3 true) { wd 0 0 2 false with stem := 0 } = false := by decide

end C01Example

end Lucid
