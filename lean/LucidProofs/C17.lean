/-
  C17 — the Jaccard pre-filter: for any two character sequences the similarity equals |A∩B| / |A∪B| of
  their sets of distinct characters (1 for two empty sequences), is symmetric, lies in [0,1], and is
  unaffected by repetitions, by order, or by what was compared before.

  The model returns the similarity as the pair `(inter, union)`; the real code returns `inter / union`
  as `f64`.  Statements only; helper lemmas live in `LucidProofs/Lemmas/Jaccard.lean`.
  Also: the Jaccard part of C19 (`C19_jaccard_in_range`).
-/
import LucidProofs.Lemmas.Jaccard

namespace Lucid

/-! ### unfolding of `jaccardM` -/

/-- For non-empty inputs a call returns the merge of the two sorted de-duplicated inputs, whatever the
    buffers held before. -/
theorem jaccardM_fst_of_ne_nil (st : JacState) {a b : List Nat} (ha : a ≠ []) (hb : b ≠ []) :
    (jaccardM st a b).1 = jacMerge (natSet a) (natSet b) := by
  cases a with
  | nil => exact absurd rfl ha
  | cons x xs =>
    cases b with
    | nil => exact absurd rfl hb
    | cons y ys => simp only [jaccardM, copyFrom_vecResize]

/-! ### value -/

/-- **C17 (value).**  For two non-empty sequences the result is the pair
    (number of distinct characters occurring in both, number of distinct characters occurring in either),
    i.e. (|A∩B|, |A∪B|) of the two sets of distinct characters; two empty sequences give (1,1)
    (similarity 1) and exactly one empty sequence gives (0,1) (similarity 0). -/
theorem C17_value :
    (∀ a b : List Nat, a ≠ [] → b ≠ [] → jaccard a b = (interCard a b, unionCard a b)) ∧
    jaccard [] [] = (1, 1) ∧
    (∀ b : List Nat, b ≠ [] → jaccard [] b = (0, 1)) ∧
    (∀ a : List Nat, a ≠ [] → jaccard a [] = (0, 1)) := by
  refine ⟨?_, rfl, ?_, ?_⟩
  · intro a b ha hb
    rw [jaccard, jaccardM_fst_of_ne_nil _ ha hb, jacMerge_natSet]
  · intro b hb
    cases b with
    | nil => exact absurd rfl hb
    | cons y ys => rfl
  · intro a ha
    cases a with
    | nil => exact absurd rfl ha
    | cons x xs => rfl

/-- The same value written with plain filters over the sorted de-duplicated sequences:
    |A∩B| = #{x ∈ set a | x ∈ set b}, |A∪B| = |set a| + #{x ∈ set b | x ∉ set a}. -/
theorem C17_value_filter (a b : List Nat) (ha : a ≠ []) (hb : b ≠ []) :
    jaccard a b = (((natSet a).filter (· ∈ natSet b)).length,
                   (natSet a).length + ((natSet b).filter (· ∉ natSet a)).length) := by
  rw [jaccard, jaccardM_fst_of_ne_nil _ ha hb, jacMerge_spec (natSet_asc a) (natSet_asc b)]

/-- What the set sizes mean: `natSet` is a strictly ascending list (so without repetitions) with exactly
    the members of its argument; `interCard`/`unionCard` are lengths of such lists whose members are
    exactly the characters in both / in either sequence; and inclusion–exclusion holds. -/
theorem C17_card_meaning (a b : List Nat) :
    List.Pairwise (· < ·) (natSet a) ∧ (∀ x, x ∈ natSet a ↔ x ∈ a) ∧
    (∃ l : List Nat, l.Nodup ∧ (∀ x, x ∈ l ↔ x ∈ a ∧ x ∈ b) ∧ interCard a b = l.length) ∧
    (∃ l : List Nat, l.Nodup ∧ (∀ x, x ∈ l ↔ x ∈ a ∨ x ∈ b) ∧ unionCard a b = l.length) ∧
    interCard a b + unionCard a b = distinctCard a + distinctCard b := by
  refine ⟨natSet_asc a, fun _ => mem_natSet, ⟨_, ((natSet_asc a).filter _).nodup, ?_, rfl⟩,
    ⟨_, natSet_nodup _, ?_, rfl⟩, interCard_add_unionCard a b⟩
  · intro x; simp [mem_natSet]
  · intro x; simp [mem_natSet]

example : jaccard [3, 1, 3, 2] [2, 5, 3, 3] = (2, 4) := by
  rw [C17_value.1 _ _ (by simp) (by simp)]; decide
example : (interCard [3, 1, 3, 2] [2, 5, 3, 3], unionCard [3, 1, 3, 2] [2, 5, 3, 3]) = (2, 4) := by decide

/-! ### symmetry -/

/-- **C17 (symmetry).**  Swapping the two sequences does not change the similarity. -/
theorem C17_symm (a b : List Nat) : jaccard a b = jaccard b a := by
  cases a with
  | nil => cases b <;> rfl
  | cons x xs =>
    cases b with
    | nil => rfl
    | cons y ys =>
      rw [jaccard, jaccard, jaccardM_fst_of_ne_nil _ (by simp) (by simp),
        jaccardM_fst_of_ne_nil _ (by simp) (by simp), jacMerge_comm]

example : jaccard [7, 1, 7] [1, 2] = jaccard [1, 2] [7, 1, 7] := C17_symm _ _

/-! ### range -/

/-- **C17 (range).**  The numerator never exceeds the denominator and the denominator is positive, so
    the quotient `inter / union` is a well-defined number in [0,1] (never NaN, never a division by 0). -/
theorem C17_range (a b : List Nat) : (jaccard a b).1 ≤ (jaccard a b).2 ∧ 0 < (jaccard a b).2 := by
  cases a with
  | nil => cases b <;> simp [jaccard, jaccardM]
  | cons x xs =>
    cases b with
    | nil => simp [jaccard, jaccardM]
    | cons y ys =>
      rw [jaccard, jaccardM_fst_of_ne_nil _ (by simp) (by simp)]
      refine ⟨jacMerge_inter_le_union _ _, ?_⟩
      have h := (jacMerge_union_ge (natSet (x :: xs)) (natSet (y :: ys))).1
      have hne : natSet (x :: xs) ≠ [] := fun e => by simpa using natSet_eq_nil.mp e
      have : 0 < (natSet (x :: xs)).length := List.length_pos_iff.mpr hne
      omega

/-- Similarity 1 (inter = union) exactly when the two sequences have the same set of characters. -/
theorem C17_eq_one_iff (a b : List Nat) :
    (jaccard a b).1 = (jaccard a b).2 ↔ (∀ x, x ∈ a ↔ x ∈ b) := by
  cases a with
  | nil =>
    cases b with
    | nil => simp [jaccard, jaccardM]
    | cons y ys =>
      simp only [jaccard, jaccardM]
      constructor
      · intro h; simp at h
      · intro h; have := (h y).mpr (by simp); simp at this
  | cons x xs =>
    cases b with
    | nil =>
      simp only [jaccard, jaccardM]
      constructor
      · intro h; simp at h
      · intro h; have := (h x).mp (by simp); simp at this
    | cons y ys =>
      generalize hA : x :: xs = a
      generalize hB : y :: ys = b
      have ha : a ≠ [] := by subst hA; simp
      have hb : b ≠ [] := by subst hB; simp
      rw [(C17_value.1 a b ha hb)]
      show interCard a b = unionCard a b ↔ _
      have hie := interCard_add_unionCard a b
      have hu := unionCard_eq a b
      have hu' := unionCard_eq b a
      rw [unionCard_comm b a] at hu'
      have hi : interCard a b = ((natSet a).filter (· ∈ b)).length := rfl
      have hi' : interCard a b = ((natSet b).filter (· ∈ a)).length := by rw [interCard_comm]; rfl
      have hs1 := length_filter_add_not (fun x => decide (x ∈ b)) (natSet a)
      have hs2 := length_filter_add_not (fun x => decide (x ∈ a)) (natSet b)
      simp only [decide_not] at hu hu'
      constructor
      · intro h
        have z1 : ((natSet a).filter (fun x => !decide (x ∈ b))).length = 0 := by
          unfold distinctCard at hie; omega
        have z2 : ((natSet b).filter (fun x => !decide (x ∈ a))).length = 0 := by
          unfold distinctCard at hie; omega
        have e1 := List.filter_eq_nil_iff.mp (List.length_eq_zero_iff.mp z1)
        have e2 := List.filter_eq_nil_iff.mp (List.length_eq_zero_iff.mp z2)
        intro v
        constructor
        · intro hv; simpa using e1 v (mem_natSet.mpr hv)
        · intro hv; simpa using e2 v (mem_natSet.mpr hv)
      · intro h
        have z2 : (natSet b).filter (fun x => !decide (x ∈ a)) = [] := by
          apply List.filter_eq_nil_iff.mpr
          intro v hv; simpa using (h v).mpr (mem_natSet.mp hv)
        have z1 : (natSet a).filter (fun x => decide (x ∈ b)) = natSet a := by
          apply List.filter_eq_self.mpr
          intro v hv; simpa using (h v).mp (mem_natSet.mp hv)
        rw [hu, z2, hi, z1]; simp

/-! ### repetitions and order -/

/-- **C17 (repetitions, order).**  The similarity depends only on *which* characters occur in each
    sequence: if `a`, `a'` have the same members and `b`, `b'` have the same members, the results agree. -/
theorem C17_perm_rep (a a' b b' : List Nat) (ha : ∀ x, x ∈ a ↔ x ∈ a') (hb : ∀ x, x ∈ b ↔ x ∈ b') :
    jaccard a b = jaccard a' b' := by
  have hnil : ∀ {l l' : List Nat}, (∀ x, x ∈ l ↔ x ∈ l') → (l = [] ↔ l' = []) := by
    intro l l' h
    constructor
    · intro e; subst e
      cases l' with
      | nil => rfl
      | cons y _ => have := (h y).mpr (by simp); simp at this
    · intro e; subst e
      cases l with
      | nil => rfl
      | cons y _ => have := (h y).mp (by simp); simp at this
  by_cases ea : a = []
  · have ea' := (hnil ha).mp ea
    subst ea ea'
    by_cases eb : b = []
    · have eb' := (hnil hb).mp eb
      subst eb eb'; rfl
    · have eb' : b' ≠ [] := fun e => eb ((hnil hb).mpr e)
      rw [C17_value.2.2.1 b eb, C17_value.2.2.1 b' eb']
  · have ea' : a' ≠ [] := fun e => ea ((hnil ha).mpr e)
    by_cases eb : b = []
    · have eb' := (hnil hb).mp eb
      subst eb eb'
      rw [C17_value.2.2.2 a ea, C17_value.2.2.2 a' ea']
    · have eb' : b' ≠ [] := fun e => eb ((hnil hb).mpr e)
      rw [jaccard, jaccard, jaccardM_fst_of_ne_nil _ ea eb, jaccardM_fst_of_ne_nil _ ea' eb',
        natSet_congr ha, natSet_congr hb]

example : jaccard [1, 2, 2, 3] [5, 5, 1] = jaccard [3, 1, 2] [1, 5] :=
  C17_perm_rep _ _ _ _ (by intro x; simp; omega) (by intro x; simp; omega)

/-- Reordering either sequence does not change the similarity. -/
theorem C17_perm (a a' b b' : List Nat) (ha : a.Perm a') (hb : b.Perm b') :
    jaccard a b = jaccard a' b' :=
  C17_perm_rep a a' b b' (fun _ => ha.mem_iff) (fun _ => hb.mem_iff)

example : [1, 2, 3].Perm [3, 1, 2] := by decide

/-- Reversal is a special case of reordering. -/
theorem C17_reverse (a b : List Nat) : jaccard a.reverse b.reverse = jaccard a b :=
  C17_perm_rep _ _ _ _ (fun _ => List.mem_reverse) (fun _ => List.mem_reverse)

/-- Repeating a sequence (every character twice as often) does not change the similarity. -/
theorem C17_rep (a b : List Nat) : jaccard (a ++ a) (b ++ b) = jaccard a b :=
  C17_perm_rep _ _ _ _ (fun x => by simp) (fun x => by simp)

/-- Repeating a single character that is already present does not change the similarity. -/
theorem C17_rep_one (a b : List Nat) (c : Nat) (hc : c ∈ a) : jaccard (c :: a) b = jaccard a b :=
  C17_perm_rep _ _ _ _ (fun x => by
    constructor
    · intro h; rcases List.mem_cons.mp h with e | e
      · exact e ▸ hc
      · exact e
    · exact List.mem_cons_of_mem _) (fun _ => Iff.rfl)

/-! ### history independence -/

/-- **C17 (history).**  The value returned by a call does not depend on the contents of the two reusable
    buffers, i.e. `Jaccard::similarity` with any buffer state equals the pure function `jaccard`. -/
theorem C17_history_independent (st : JacState) (a b : List Nat) : (jaccardM st a b).1 = jaccard a b := by
  cases a with
  | nil => cases b <;> rfl
  | cons x xs =>
    cases b with
    | nil => rfl
    | cons y ys =>
      rw [jaccard, jaccardM_fst_of_ne_nil _ (by simp) (by simp), jaccardM_fst_of_ne_nil _ (by simp) (by simp)]

/-- buffer state after a sequence of earlier calls on one `Jaccard` object -/
def jacRun (st : JacState) (calls : List (List Nat × List Nat)) : JacState :=
  calls.foldl (fun st c => (jaccardM st c.1 c.2).2) st

/-- Whatever was compared before on the same `Jaccard` object (any number of calls, any arguments,
    starting from any buffer state), the next call returns the pure value. -/
theorem C17_history_independent_calls (st : JacState) (calls : List (List Nat × List Nat)) (a b : List Nat) :
    (jaccardM (jacRun st calls) a b).1 = jaccard a b :=
  C17_history_independent _ a b

/-- the earlier calls really leave stale data in the buffers (longer than the next inputs) -/
example : jacRun JacState.new [([9, 9, 8, 7, 6, 5], [1]), ([], [4]), ([2, 2], [2, 3, 4, 5, 6])]
    = { set1 := [2], set2 := [2, 3, 4, 5, 6] } := by decide

example : (jaccardM { set1 := [2], set2 := [2, 3, 4, 5, 6] } [3, 1] [1, 4, 4]).1 = (1, 3) := by
  rw [C17_history_independent, C17_value.1 _ _ (by simp) (by simp)]; decide

/-! ### C19, Jaccard part: the merge loop's unchecked reads stay in range -/

/-- **C19 (Jaccard part).**  `jacMergeIdx` is the Rust `while i1 < len1 && i2 < len2` loop with the two
    `get_unchecked` reads replaced by checked reads (`none` on an out-of-range index).
    (1) whenever the loop condition holds both reads succeed;
    (2) run from the initial state with `len1 + len2` iterations of fuel (or more) the checked loop never
        yields `none` and returns exactly the model's `jacMerge` — for *arbitrary* lists, sorted or not;
    (3) hence the value of every `Jaccard::similarity` call on non-empty inputs is produced by the checked
        loop on the two buffers without any failed read. -/
theorem C19_jaccard_in_range :
    (∀ (l1 l2 : List Nat) (i1 i2 : Nat), i1 < l1.length ∧ i2 < l2.length →
        ∃ x y, l1[i1]? = some x ∧ l2[i2]? = some y) ∧
    (∀ (l1 l2 : List Nat) (fuel : Nat), l1.length + l2.length ≤ fuel →
        jacMergeIdx l1 l2 0 0 0 0 fuel = some (jacMerge l1 l2)) ∧
    (∀ (st : JacState) (a b : List Nat), a ≠ [] → b ≠ [] →
        jacMergeIdx (natSet a) (natSet b) 0 0 0 0 ((natSet a).length + (natSet b).length)
          = some (jaccardM st a b).1) := by
  refine ⟨jacMergeIdx_reads_in_range, ?_, ?_⟩
  · intro l1 l2 fuel hf
    rw [jacMergeIdx_eq l1 l2 fuel 0 0 0 0 (Nat.zero_le _) (Nat.zero_le _) (by omega)]
    simp
  · intro st a b ha hb
    rw [jaccardM_fst_of_ne_nil st ha hb, jacMergeIdx_eq_jacMerge]

example : jacMergeIdx [1, 3, 5, 9] [2, 3, 9, 10, 11] 0 0 0 0 9 = some (2, 7) := by decide
/-- fuel is what makes `none` reachable at all: too little fuel is reported, not silently accepted -/
example : jacMergeIdx [1, 3, 5, 9] [2, 3, 9, 10, 11] 0 0 0 0 2 = none := by decide

end Lucid
