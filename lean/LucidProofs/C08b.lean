/-
  C08b — from the ranking relation of C08 to positions in the result list.

  C08 proves `Outranks (scoreHit K order q r1) (scoreHit K order q r2)` (= `hitLe h1 h2 = true ∧ hitLe h2 h1 = false`,
  strictly before in the order the results are sorted by) for the documented ranking priorities. Here the relation is
  linked to what a caller sees: in the store holding just the two records — whichever was added first — the search
  returns exactly `[result of r1, result of r2]`.

  * `two_store_strict`          — `C07_two_store` with the strictness coming from the hit order itself instead of
                                  from different ratings (no hypothesis on the ratings, none on the score order);
  * `C08_outranks_position`     — the link, for records given as `Record`s and `Outranks`;
  * `C08_word_beats_longer_word_position`, `C08_identical_titles_rating_position` — two C08 rules restated end to end
    (that both records are hits on their own is derived, resp. needed once for the common title).
-/
import LucidProofs.C07
import LucidProofs.C08
import LucidProofs.Lemmas.Candidates

namespace Lucid

/-- Generalisation of `C07_two_store`: two records that are both hits on their own, `d1` STRICTLY before `d2` in the
    hit order. The store holding just these two (limit ≥ 2) returns `[verdict d1, verdict d2]`, whichever of the two
    was added first, for every sorting routine. -/
theorem two_store_strict (S : Sorter) (hS : SorterOK S) (K : Consts) (hK : 1 ≤ K.sortFactor) (hP : 1 ≤ K.prepFactor)
    (order : List ScoreType) (limit : Nat) (hl : 2 ≤ limit)
    (dv : List Nat × List Nat) (d1 d2 : Nat × Text × Nat) (q : Text)
    (h1 : isHit K q d1.2.1 = true) (h2 : isHit K q d2.2.1 = true)
    (hle : dataLe K order q d1 d2 = true) (hnot : dataLe K order q d2 d1 = false) :
    ∃ res1 res2, verdict K dv q d1 = some res1 ∧ verdict K dv q d2 = some res2 ∧
      (mkStore K limit dv [d1, d2]).search S K order q = [res1, res2] ∧
      (mkStore K limit dv [d2, d1]).search S K order q = [res1, res2] := by
  have anti : ∀ a ∈ [d1, d2], ∀ b ∈ [d1, d2], dataLe K order q a b = true → dataLe K order q b a = true → a = b := by
    intro a ha b hb hab hba
    simp only [List.mem_cons, List.not_mem_nil, or_false] at ha hb
    rcases ha with rfl | rfl <;> rcases hb with rfl | rfl
    · rfl
    · rw [hnot] at hba; cases hba
    · rw [hnot] at hab; cases hab
    · rfl
  have htake : List.take limit [d1, d2] = [d1, d2] := List.take_of_length_le (by simpa using hl)
  refine ⟨_, _, verdict_of_isHit_data K order dv q d1 h1, verdict_of_isHit_data K order dv q d2 h2, ?_, ?_⟩
  · have hI := StoreInv_fresh S K limit dv [d1, d2]
    have hlim : (mkStore K limit dv [d1, d2]).limit = limit := fresh_limit ..
    have hdv : (mkStore K limit dv [d1, d2]).dividers = dv := fresh_dividers ..
    have hlen : (mkStore K limit dv [d1, d2]).records.length = 2 := by rw [mkStore_records_length]; rfl
    have hp : [d1, d2].Perm
        (((mkStore K limit dv [d1, d2]).records.map Record.data).filter (fun d => isHit K q d.2.1)) := by
      rw [mkStore_records_data]; simp [h1, h2]
    have key := search_eq_sorted_take hS hK order hI q
      (by rw [hlen, hlim]; exact Nat.le_trans hl (Nat.le_mul_of_pos_right _ hP))
      (Or.inr (by rw [hlen, hlim]; exact hl)) [d1, d2] hp (by simp [hle]) anti
    rw [key, hlim, hdv, htake]; rfl
  · have hI := StoreInv_fresh S K limit dv [d2, d1]
    have hlim : (mkStore K limit dv [d2, d1]).limit = limit := fresh_limit ..
    have hdv : (mkStore K limit dv [d2, d1]).dividers = dv := fresh_dividers ..
    have hlen : (mkStore K limit dv [d2, d1]).records.length = 2 := by rw [mkStore_records_length]; rfl
    have hp : [d1, d2].Perm
        (((mkStore K limit dv [d2, d1]).records.map Record.data).filter (fun d => isHit K q d.2.1)) := by
      rw [mkStore_records_data]; simp [h1, h2]; exact List.Perm.swap _ _ _
    have key := search_eq_sorted_take hS hK order hI q
      (by rw [hlen, hlim]; exact Nat.le_trans hl (Nat.le_mul_of_pos_right _ hP))
      (Or.inr (by rw [hlen, hlim]; exact hl)) [d1, d2] hp (by simp [hle]) anti
    rw [key, hlim, hdv, htake]; rfl

theorem isHit_of_verdict {K : Consts} {dv : List Nat × List Nat} {q : Text} {d : Nat × Text × Nat} {res : Result}
    (h : verdict K dv q d = some res) : isHit K q d.2.1 = true := by
  unfold verdict at h
  split at h
  · assumption
  · cases h

/-- **From `Outranks` to positions.** If the hit of record `r1` outranks the hit of record `r2` for the query `q`
    (the conclusion of every C08 rule) and each of the two is a hit on its own (`verdict … = some res`: it shares a
    gram with the query and its matches pass the filter), then a store holding just these two records, with any
    limit ≥ 2, answers `q` with exactly `[res1, res2]` — `r1`'s result first — whether `r1` or `r2` was added first,
    for every sorting routine, whatever the ratings and ids. -/
theorem C08_outranks_position (S : Sorter) (hS : SorterOK S) (K : Consts) (hK : 1 ≤ K.sortFactor)
    (hP : 1 ≤ K.prepFactor) (order : List ScoreType) (limit : Nat) (hl : 2 ≤ limit) (dv : List Nat × List Nat)
    (q : Text) (r1 r2 : Record)
    (hout : Outranks (scoreHit K order q r1) (scoreHit K order q r2))
    (res1 res2 : Result) (hv1 : verdict K dv q r1.data = some res1) (hv2 : verdict K dv q r2.data = some res2) :
    (mkStore K limit dv [r1.data, r2.data]).search S K order q = [res1, res2] ∧
    (mkStore K limit dv [r2.data, r1.data]).search S K order q = [res1, res2] := by
  obtain ⟨x1, x2, e1, e2, s1, s2⟩ := two_store_strict S hS K hK hP order limit hl dv r1.data r2.data q
    (isHit_of_verdict hv1) (isHit_of_verdict hv2) hout.1 hout.2
  rw [hv1] at e1; rw [hv2] at e2
  cases e1; cases e2
  exact ⟨s1, s2⟩

theorem C08_outranks_position_src (S : Sorter) (hS : SorterOK S) (limit : Nat) (hl : 2 ≤ limit)
    (dv : List Nat × List Nat) (q : Text) (r1 r2 : Record)
    (hout : Outranks (scoreHit Gen.srcConsts Gen.srcScoreOrder q r1) (scoreHit Gen.srcConsts Gen.srcScoreOrder q r2))
    (res1 res2 : Result) (hv1 : verdict Gen.srcConsts dv q r1.data = some res1)
    (hv2 : verdict Gen.srcConsts dv q r2.data = some res2) :
    (mkStore Gen.srcConsts limit dv [r1.data, r2.data]).search S Gen.srcConsts Gen.srcScoreOrder q = [res1, res2] ∧
    (mkStore Gen.srcConsts limit dv [r2.data, r1.data]).search S Gen.srcConsts Gen.srcScoreOrder q = [res1, res2] :=
  C08_outranks_position S hS Gen.srcConsts (by decide) (by decide) Gen.srcScoreOrder limit hl dv q r1 r2 hout
    res1 res2 hv1 hv2

/-- the same for records already in a store: if `r1` outranks `r2` and both are listed by a search on ANY store, then
    `r1`'s result precedes `r2`'s in the result list of that store -/
theorem C08_outranks_before (S : Sorter) (hS : SorterOK S) (K : Consts) (hK : 1 ≤ K.sortFactor)
    (order : List ScoreType) (st : Store) (q : Text) (r1 r2 : Record)
    (hout : Outranks (scoreHit K order q r1) (scoreHit K order q r2))
    (i j : Nat) (hi : (st.listed S K order q)[i]? = some r1) (hj : (st.listed S K order q)[j]? = some r2) : i < j := by
  have hs := (C07_sorted S hS K hK order st q).2
  obtain ⟨hil, hie⟩ := List.getElem?_eq_some_iff.1 hi
  obtain ⟨hjl, hje⟩ := List.getElem?_eq_some_iff.1 hj
  rcases Nat.lt_trichotomy i j with h | h | h
  · exact h
  · subst h
    rw [hie] at hje; subst hje
    have := hout.1; rw [hout.2] at this; cases this
  · have := List.pairwise_iff_getElem.1 hs j i hjl hil h
    rw [hie, hje, hout.2] at this; cases this

/-! ### two C08 rules, end to end -/

theorem hitMatches_one (q : Text) (h : Hit) (hq : q.words.length = 1) (hr : h.rmatches ≠ []) :
    hitMatches q h = true := by
  unfold hitMatches
  have h0 : ¬ q.words.length = 0 := by omega
  have h1 : ¬ h.rmatches.length = 0 := by
    intro e; exact hr (List.length_eq_zero_iff.1 e)
  have h2 : ¬ q.words.length > 1 := by omega
  simp only [h0, h1, if_false, h2]
  split <;> rfl

/-- a one-word title whose word the one-word query is typed text for is a hit on its own -/
theorem isHit_one_typed (K : Consts) (hK : CostsOK K = true) (hN : GateNumsOK K = true) (rt qt : Text)
    (w v : WordShape) (hrt : TextOK rt) (hqt : TextOK qt) (hrw : rt.words = [w]) (hqw : qt.words = [v])
    (ht : Typed rt w qt v) : isHit K qt rt = true := by
  have hw : w ∈ rt.words := by simp [hrw]
  have hv : v ∈ qt.words := by simp [hqw]
  have hvin := hqt.wordIn hv
  have hne : wchars qt v ≠ [] := by
    intro e; have := wchars_length hvin; rw [e] at this; have := hvin.len_pos; simp at *; omega
  have hg : sharesGram qt rt = true :=
    sharesGram_iff.2 (shares_gram_of_prefix hw hv v.len hne (ht.pre hvin))
  simp only [isHit, hg, Bool.or_true, Bool.true_and]
  apply hitMatches_one _ _ (by rw [hqw]; rfl)
  show (textMatch K rt qt).1 ≠ []
  rw [textMatch_one K hK hN rt qt w v hrt hqt hrw hqw ht]
  exact List.cons_ne_nil _ _

/-- **C08 (c) in positions: "hello" comes before "helloxy".** One-word titles `w1` (characters `u`, a content word)
    and `w2` (characters `u ++ tail`, `tail ≠ []`), and the user types a prefix of `u` (or all of it) as one
    unfinished word. Then both records are hits, and a store holding just the two (limit ≥ 2) returns
    `[result of r1, result of r2]`: the shorter title first, **whatever the ratings** and whichever was added
    first. -/
theorem C08_word_beats_longer_word_position (S : Sorter) (hS : SorterOK S) (K : Consts)
    (hC : CostsOK K = true) (hN : GateNumsOK K = true) (hK : 1 ≤ K.sortFactor) (hP : 1 ≤ K.prepFactor)
    (limit : Nat) (hl : 2 ≤ limit) (dv : List Nat × List Nat)
    (q : Text) (r1 r2 : Record) (w1 w2 v : WordShape)
    (h1 : TextOK r1.title) (h2 : TextOK r2.title) (hq : TextOK q)
    (hw1 : r1.title.words = [w1]) (hw2 : r2.title.words = [w2]) (hqw : q.words = [v])
    (hunfin : v.fin = false) (htyped : Typed r1.title w1 q v)
    (hlong : wchars r1.title w1 = (wchars r2.title w2).take w1.len) (htail : w1.len < w2.len)
    (hcontent : isFunc K w1.pos = false) :
    ∃ res1 res2, verdict K dv q r1.data = some res1 ∧ verdict K dv q r2.data = some res2 ∧
      (mkStore K limit dv [r1.data, r2.data]).search S K Gen.srcScoreOrder q = [res1, res2] ∧
      (mkStore K limit dv [r2.data, r1.data]).search S K Gen.srcScoreOrder q = [res1, res2] := by
  have hout := C08_word_beats_longer_word K hC hN q r1 r2 w1 w2 v h1 h2 hq hw1 hw2 hqw hunfin htyped hlong htail
    hcontent
  have hw1In : w1 ∈ r1.title.words := by simp [hw1]
  have hvIn : v ∈ q.words := by simp [hqw]
  have hle := htyped.len_le K (h1.wordIn hw1In) (hq.wordIn hvIn)
  have htyped2 : Typed r2.title w2 q v := by
    refine ⟨htyped.1, Or.inl ⟨hunfin, ?_⟩⟩
    rw [htyped.pre (hq.wordIn hvIn), hlong, List.take_take, Nat.min_eq_left hle]
  exact two_store_strict S hS K hK hP Gen.srcScoreOrder limit hl dv r1.data r2.data q
    (isHit_one_typed K hC hN r1.title q w1 v h1 hq hw1 hqw htyped)
    (isHit_one_typed K hC hN r2.title q w2 v h2 hq hw2 hqw htyped2) hout.1 hout.2

theorem C08_word_beats_longer_word_position_src (S : Sorter) (hS : SorterOK S)
    (limit : Nat) (hl : 2 ≤ limit) (dv : List Nat × List Nat)
    (q : Text) (r1 r2 : Record) (w1 w2 v : WordShape)
    (h1 : TextOK r1.title) (h2 : TextOK r2.title) (hq : TextOK q)
    (hw1 : r1.title.words = [w1]) (hw2 : r2.title.words = [w2]) (hqw : q.words = [v])
    (hunfin : v.fin = false) (htyped : Typed r1.title w1 q v)
    (hlong : wchars r1.title w1 = (wchars r2.title w2).take w1.len) (htail : w1.len < w2.len)
    (hcontent : isFunc Gen.srcConsts w1.pos = false) :
    ∃ res1 res2, verdict Gen.srcConsts dv q r1.data = some res1 ∧ verdict Gen.srcConsts dv q r2.data = some res2 ∧
      (mkStore Gen.srcConsts limit dv [r1.data, r2.data]).search S Gen.srcConsts Gen.srcScoreOrder q = [res1, res2] ∧
      (mkStore Gen.srcConsts limit dv [r2.data, r1.data]).search S Gen.srcConsts Gen.srcScoreOrder q = [res1, res2] :=
  C08_word_beats_longer_word_position S hS Gen.srcConsts costsOK_src gateNumsOK_src (by decide) (by decide) limit hl dv
    q r1 r2 w1 w2 v h1 h2 hq hw1 hw2 hqw hunfin htyped hlong htail hcontent

/-- **C08 (f1) in positions: among identical titles the higher rating comes first.** Two records with the same title,
    which is a hit for the query on its own, `r1` rated higher: a store holding just the two (limit ≥ 2) returns
    `[result of r1, result of r2]`, whichever was added first. (The two results differ only in the id.) -/
theorem C08_identical_titles_rating_position (S : Sorter) (hS : SorterOK S) (K : Consts)
    (hK : 1 ≤ K.sortFactor) (hP : 1 ≤ K.prepFactor) (limit : Nat) (hl : 2 ≤ limit) (dv : List Nat × List Nat)
    (q : Text) (r1 r2 : Record) (htitle : r1.title = r2.title) (hrating : r2.rating < r1.rating)
    (hhit : isHit K q r1.title = true) :
    ∃ res1 res2, verdict K dv q r1.data = some res1 ∧ verdict K dv q r2.data = some res2 ∧
      res1.id = r1.id ∧ res2.id = r2.id ∧ res1.title = res2.title ∧
      (mkStore K limit dv [r1.data, r2.data]).search S K Gen.srcScoreOrder q = [res1, res2] ∧
      (mkStore K limit dv [r2.data, r1.data]).search S K Gen.srcScoreOrder q = [res1, res2] := by
  have hout := C08_identical_titles_rating K q r1 r2 htitle hrating
  have hhit2 : isHit K q r2.title = true := htitle ▸ hhit
  obtain ⟨x1, x2, e1, e2, s1, s2⟩ := two_store_strict S hS K hK hP Gen.srcScoreOrder limit hl dv r1.data r2.data q
    hhit hhit2 hout.1 hout.2
  refine ⟨x1, x2, e1, e2, ?_, ?_, ?_, s1, s2⟩
  · rw [verdict_of_isHit_data K [] dv q r1.data hhit] at e1; cases e1; rfl
  · rw [verdict_of_isHit_data K [] dv q r2.data hhit2] at e2; cases e2; rfl
  · rw [verdict_of_isHit_data K [] dv q r1.data hhit] at e1
    rw [verdict_of_isHit_data K [] dv q r2.data hhit2] at e2
    cases e1; cases e2
    simp only [renderWith, highlight, dataHit, scoreHit, Record.data, htitle]

theorem C08_identical_titles_rating_position_src (S : Sorter) (hS : SorterOK S)
    (limit : Nat) (hl : 2 ≤ limit) (dv : List Nat × List Nat)
    (q : Text) (r1 r2 : Record) (htitle : r1.title = r2.title) (hrating : r2.rating < r1.rating)
    (hhit : isHit Gen.srcConsts q r1.title = true) :
    ∃ res1 res2, verdict Gen.srcConsts dv q r1.data = some res1 ∧ verdict Gen.srcConsts dv q r2.data = some res2 ∧
      res1.id = r1.id ∧ res2.id = r2.id ∧ res1.title = res2.title ∧
      (mkStore Gen.srcConsts limit dv [r1.data, r2.data]).search S Gen.srcConsts Gen.srcScoreOrder q = [res1, res2] ∧
      (mkStore Gen.srcConsts limit dv [r2.data, r1.data]).search S Gen.srcConsts Gen.srcScoreOrder q = [res1, res2] :=
  C08_identical_titles_rating_position S hS Gen.srcConsts (by decide) (by decide) limit hl dv q r1 r2 htitle hrating hhit

/-! ### non-vacuity -/

section Examples
open C08Example

/-- "hello" (rating 0) and "helloxy" (rating 1000), typed prefix "hel": the hypotheses of
    `C08_word_beats_longer_word_position_src` are met -/
example (S : Sorter) (hS : SorterOK S) :
    ∃ res1 res2, res1.id = 1 ∧ res2.id = 2 ∧
      (mkStore Gen.srcConsts 10 ([91], [93]) [(1, tU, 0), (2, tUtail, 1000)]).search S Gen.srcConsts Gen.srcScoreOrder
        qHel = [res1, res2] ∧
      (mkStore Gen.srcConsts 10 ([91], [93]) [(2, tUtail, 1000), (1, tU, 0)]).search S Gen.srcConsts Gen.srcScoreOrder
        qHel = [res1, res2] := by
  obtain ⟨res1, res2, v1, v2, s1, s2⟩ :=
    C08_word_beats_longer_word_position_src S hS 10 (by decide) ([91], [93]) qHel ⟨0, 1, tU, 0⟩ ⟨1, 2, tUtail, 1000⟩
      _ _ _ tU_ok tUtail_ok qHel_ok rfl rfl rfl rfl (by unfold Typed; decide) (by decide) (by decide) (by decide)
  refine ⟨res1, res2, ?_, ?_, s1, s2⟩
  · unfold verdict at v1; split at v1
    · cases v1; rfl
    · cases v1
  · unfold verdict at v2; split at v2
    · cases v2; rfl
    · cases v2

/-- the same title "hello" with ratings 5 and 3, typed prefix "hel": the hypotheses of
    `C08_identical_titles_rating_position_src` are met (`isHit` through `isHit_one_typed`) -/
example (S : Sorter) (hS : SorterOK S) :
    ∃ res1 res2, res1.id = 7 ∧ res2.id = 8 ∧
      (mkStore Gen.srcConsts 2 ([91], [93]) [(8, tU, 3), (7, tU, 5)]).search S Gen.srcConsts Gen.srcScoreOrder qHel
        = [res1, res2] := by
  obtain ⟨res1, res2, _, _, i1, i2, _, _, s2⟩ :=
    C08_identical_titles_rating_position_src S hS 2 (by decide) ([91], [93]) qHel ⟨0, 7, tU, 5⟩ ⟨1, 8, tU, 3⟩ rfl
      (by decide)
      (isHit_one_typed Gen.srcConsts costsOK_src gateNumsOK_src tU qHel _ _ tU_ok qHel_ok rfl rfl
        (by unfold Typed; decide))
  exact ⟨res1, res2, i1, i2, s2⟩

/-- `C08_outranks_position_src` applied to the C08 example for rule (c) -/
example (S : Sorter) (hS : SorterOK S) (res1 res2 : Result)
    (hv1 : verdict Gen.srcConsts ([91], [93]) qHel (1, tU, 0) = some res1)
    (hv2 : verdict Gen.srcConsts ([91], [93]) qHel (2, tUtail, 1000) = some res2) :
    (mkStore Gen.srcConsts 5 ([91], [93]) [(2, tUtail, 1000), (1, tU, 0)]).search S Gen.srcConsts Gen.srcScoreOrder
      qHel = [res1, res2] :=
  (C08_outranks_position_src S hS 5 (by decide) ([91], [93]) qHel ⟨0, 1, tU, 0⟩ ⟨1, 2, tUtail, 1000⟩
    (C08_word_beats_longer_word_src qHel _ _ _ _ _ tU_ok tUtail_ok qHel_ok rfl rfl rfl rfl
      (by unfold Typed; decide) (by decide) (by decide) (by decide)) res1 res2 hv1 hv2).2

end Examples

end Lucid
