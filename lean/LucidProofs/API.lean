/-
  API — the store-level theorems restated as contracts of the top-level API (`lib.rs` + the WASM bridge): the
  calls `create`, `destroy`, `highlight_with`, `add_record`, `set_limit`, `run_search`, `get_result_ids`,
  `get_result_titles` on RAW strings (model: `Registry.step` / `RegOp`, `getResultIds`, `getResultTitles`,
  `splitNul`). Statements with short proofs; the glue lemmas are in `Lemmas/ApiLift.lean`.

  Setting of every theorem: the program generated from the source (`Gen.srcProg`); any family of language
  environments `envs : Nat → Env` meeting `EnvsOK` (generated constants, `UnicodeFacts`, `TablesOK`, `StemHyp` for
  every language index); any call list `ops` every call of which is valid when it is executed
  (`Registry.allValid … Registry.empty ops = true`: no duplicate `create`, no use of a missing id); the registry
  `g = Registry.empty.run … ops` reached by it.

  How "since the creation of `id`" is said: the call list is written
        `pre ++ create id lang :: post`                      with no `destroy id` / `create id` in `post`
  (`RegOp.keeps id`), and, for statements about the buffer,
        `pre ++ create id lang :: post ++ runSearch id q :: later`
  with, in addition, no `runSearch id` / `destroy id` / `create id` in `later` (`RegOp.quiet id`): `post` are the
  calls between the creation and the LAST search on `id`, `later` what happened since. By `api_live_shape` every
  live id has a call list of the first shape, so nothing is lost. Read off `post`:
  `addedOf id post` (the `(recId, raw title, rating)` of the `add_record` calls on `id` made since the last
  `clearStore id` in `post`, all of them if there is none), `limitOf id post` (last `set_limit` on `id`, default 10)
  and `markersOf id post` (last `highlight_with` on `id`, default `[` `]`).

  `clearStore id` is `using_store(id, |s| s.clear())`: reachable through the Rust API, not through the WASM bridge.
  It empties the store of `id`, keeps its limit, markers and language, and does not touch any result buffer; it
  may occur anywhere in `pre`, `post`, `later` (it is neither a `destroy`/`create` nor a search).
-/
import LucidProofs.C02b
import LucidProofs.C03b
import LucidProofs.C06
import LucidProofs.C06b
import LucidProofs.Lemmas.ApiLift

namespace Lucid

/-- Every live id has a call list of the shape used below: if the store map holds something for `id` after a valid
    call list, the list is `pre ++ create id lang :: post` with no `destroy id` / `create id` in `post`, and the
    store held for `id` is `Store::new()` followed by the calls of `post` addressed to `id` (titles and queries
    tokenised for `lang`). -/
theorem api_live_shape (S : Sorter) (envs : Nat → Env) (hE : EnvsOK envs) (ops : List RegOp)
    (hv : Registry.allValid S Gen.srcProg envs Registry.empty ops = true) (id lang : Nat) (st : Store)
    (h : amGet (Registry.empty.run S Gen.srcProg envs ops).stores id = some (lang, st)) :
    ∃ pre post, ops = pre ++ RegOp.create id lang :: post ∧ (∀ op ∈ post, op.keeps id = true) ∧
      st = runOne S Gen.srcProg (storeOpsOf Gen.srcProg (envs lang) id post) := by
  obtain ⟨sops, hp, rfl, _⟩ := live_store_reachable S envs hE ops hv id lang st h
  obtain ⟨pre, post, rfl, hk, rfl⟩ := proj_some_decomp Gen.srcProg envs id ops lang sops hp
  exact ⟨pre, post, rfl, hk, rfl⟩

/-! ## C01 — no trap site fires in any call -/

/-- no trap site of the model fires during this top-level call in registry state `g`: creation, destruction, limit
    and marker changes have none; `add_record` runs the record pipeline on the raw title and `Store::add` on the
    addressed store; `run_search` runs the query pipeline on the raw query and `Store::search` on the addressed
    store. A call on a missing id (an `unwrap` of the id map in `lib.rs`) counts as unsafe. -/
def RegOp.safe (S : Sorter) (P : Prog) (envs : Nat → Env) (g : Registry) : RegOp → Bool
  | .addRecord id _ title _ =>
    match amGet g.stores id with
    | some (lang, st) =>
      runStepsSafe (envs lang) P.recordSteps title && st.addSafe (tokenizeRecord P (envs lang) title)
    | none => false
  | .runSearch id query =>
    match amGet g.stores id with
    | some (lang, st) =>
      runStepsSafe (envs lang) P.querySteps query &&
        st.searchSafe S P.K P.order (tokenizeQuery P (envs lang) query)
    | none => false
  | _ => true

/-- every call of the list is safe in the registry state it is executed in -/
def Registry.runSafe (S : Sorter) (P : Prog) (envs : Nat → Env) : Registry → List RegOp → Bool
  | _, [] => true
  | g, op :: ops => op.safe S P envs g && Registry.runSafe S P envs (g.step S P envs op) ops

/-- **C01 at the top-level API.** Along every valid call list, every call is safe at the moment it is executed:
    whatever ids, languages, raw titles, raw queries, limits and markers are used, and however the calls on
    different ids are interleaved, no trap site of `LucidModel/Safe.lean` fires in the tokenizer, in `Store::add`
    or in `Store::search` (list of trap sites: see `C01_api_safe_src`). `op` is any call of the list, `pre` the
    calls before it. Not covered: calls that are not valid (`unwrap` on an unknown id, duplicate `create`).
    Hypotheses: `SorterOK S`, `EnvsOK envs`. -/
theorem C01_api_registry_safe (S : Sorter) (hS : SorterOK S) (envs : Nat → Env) (hE : EnvsOK envs)
    (ops : List RegOp) (hv : Registry.allValid S Gen.srcProg envs Registry.empty ops = true)
    (pre : List RegOp) (op : RegOp) (post : List RegOp) (hops : ops = pre ++ op :: post) :
    op.safe S Gen.srcProg envs (Registry.empty.run S Gen.srcProg envs pre) = true := by
  subst hops
  rw [allValid_append, Bool.and_eq_true] at hv
  obtain ⟨hv1, hv2⟩ := hv
  simp only [Registry.allValid, Bool.and_eq_true] at hv2
  have hvo := hv2.1
  cases op with
  | addRecord id recId title rating =>
    simp only [RegOp.valid, Option.isSome_iff_exists] at hvo
    obtain ⟨⟨lang, st⟩, hst⟩ := hvo
    obtain ⟨_, _, _, _, _, hF⟩ := live_store_reachable S envs hE pre hv1 id lang st hst
    simp only [RegOp.safe, hst, Bool.and_eq_true]
    exact ⟨runStepsSafe_record (envs lang) (hE.unicode' lang) (hE.tables lang) title,
      addSafe_of_inv hF.indexInv (hE.record lang title).textOK⟩
  | runSearch id query =>
    simp only [RegOp.valid, Bool.and_eq_true, Option.isSome_iff_exists] at hvo
    obtain ⟨⟨⟨lang, st⟩, hst⟩, _⟩ := hvo
    obtain ⟨_, _, _, _, _, hF⟩ := live_store_reachable S envs hE pre hv1 id lang st hst
    simp only [RegOp.safe, hst, Bool.and_eq_true]
    exact ⟨runStepsSafe_query (envs lang) (hE.unicode' lang) (hE.tables lang) query,
      searchSafe_of_inv S hS Gen.srcConsts costsOK_src thresholdOK_src (by decide) Gen.srcScoreOrder hF.indexInv
        hF.inv hF.textOK (hE.query lang query).textOK⟩
  | create id lang => rfl
  | destroy id => rfl
  | highlightWith id l r => rfl
  | setLimit id n => rfl
  | clearStore id => rfl

/-- `C01_api_registry_safe` as one Boolean over the whole run. -/
theorem C01_api_registry_runSafe (S : Sorter) (hS : SorterOK S) (envs : Nat → Env) (hE : EnvsOK envs)
    (ops : List RegOp) (hv : Registry.allValid S Gen.srcProg envs Registry.empty ops = true) :
    Registry.runSafe S Gen.srcProg envs Registry.empty ops = true := by
  have key : ∀ (rest pre : List RegOp), ops = pre ++ rest →
      Registry.runSafe S Gen.srcProg envs (Registry.empty.run S Gen.srcProg envs pre) rest = true := by
    intro rest
    induction rest with
    | nil => intro _ _; rfl
    | cons op rest ih =>
      intro pre he
      simp only [Registry.runSafe, Bool.and_eq_true]
      refine ⟨C01_api_registry_safe S hS envs hE ops hv pre op rest he, ?_⟩
      have := ih (pre ++ [op]) (by simp [he])
      rwa [run_append] at this
  exact key ops [] rfl

/-! ## C02 — what the buffered results are -/

/-- **C02 at the top-level API, any moment.** After any valid call list and for every id (live or not): every
    buffered result of `id` has a NUL-free title and carries the `recId` of some `add_record id recId …` call of the
    list; `get_result_ids` returns the ids of the buffered results, and splitting `get_result_titles` at NUL gives
    back exactly their titles, in order, followed by one empty string. -/
theorem C02_api_results_basic (S : Sorter) (hS : SorterOK S) (envs : Nat → Env) (hE : EnvsOK envs)
    (ops : List RegOp) (hv : Registry.allValid S Gen.srcProg envs Registry.empty ops = true) (id : Nat) :
    (∀ res ∈ (amGet (Registry.empty.run S Gen.srcProg envs ops).results id).getD [],
      0 ∉ res.title ∧ ∃ recId title rating, RegOp.addRecord id recId title rating ∈ ops ∧ res.id = recId) ∧
    getResultIds (Registry.empty.run S Gen.srcProg envs ops) id =
      ((amGet (Registry.empty.run S Gen.srcProg envs ops).results id).getD []).map (·.id) ∧
    splitNul (getResultTitles (Registry.empty.run S Gen.srcProg envs ops) id) =
      ((amGet (Registry.empty.run S Gen.srcProg envs ops).results id).getD []).map (·.title) ++ [[]] := by
  have main : ∀ res ∈ (amGet (Registry.empty.run S Gen.srcProg envs ops).results id).getD [],
      0 ∉ res.title ∧ ∃ recId title rating, RegOp.addRecord id recId title rating ∈ ops ∧ res.id = recId := by
    cases hp : proj Gen.srcProg envs id ops with
    | none =>
      rw [(C20_isolation_dead S Gen.srcProg envs ops hv id hp).2]
      intro res hres; simp at hres
    | some x =>
      obtain ⟨lang, sops⟩ := x
      rw [(C20_isolation_live S Gen.srcProg envs ops hv id lang sops hp).2]
      obtain ⟨pre, post, rfl, _, rfl⟩ := proj_some_decomp Gen.srcProg envs id ops lang sops hp
      intro res hres
      simp only [Option.getD_some] at hres
      refine ⟨lastResults_no_nul S Gen.srcProg _ res hres, ?_⟩
      obtain ⟨a, q, b, hsplit, hm⟩ := lastResults_from_search S Gen.srcProg _ res hres
      have hsub : ∀ o ∈ a, o ∈ storeOpsOf Gen.srcProg (envs lang) id post := by
        intro o ho; rw [hsplit]; exact List.mem_append_left _ ho
      have hadds : ∀ rid t rating, StoreOp.add rid t rating ∈ a →
          ∃ s, t = tokenizeRecord Gen.srcProg (envs lang) s := by
        intro rid t rating h
        obtain ⟨title, _, rfl⟩ := (add_mem_storeOpsOf _ _ _ _ _ _ _).mp (hsub _ h)
        exact ⟨title, rfl⟩
      have hF := storeFacts_reachable S (envs lang) (hE.consts lang) (hE.unicode lang) (hE.tables lang)
        (hE.stem lang) a hadds
      obtain ⟨query, rfl⟩ := search_mem_storeOpsOf Gen.srcProg (envs lang) id post q
        (by rw [hsplit]; simp)
      obtain ⟨r, hr, _, hid, _⟩ := C02_title_full_src hS _ _ hF.textOK (hE.query lang query).textOK res hm
      rcases run_record_from_add S _ _ a _ r hr with h | h
      · simp [Store.new] at h
      · obtain ⟨title, hmem, _⟩ := (add_mem_storeOpsOf _ _ _ _ _ _ _).mp (hsub _ h)
        exact ⟨r.id, title, r.rating, by simp [hmem], hid⟩
  exact ⟨main, rfl, C20_bridge_framing _ id (fun r hr => (main r hr).1)⟩

/-- **C02 at the top-level API, precisely.** `id` was created with language `lang`, received the calls `post`, then
    `run_search(id, q)` was called, and since then (`later`) there was no further search on `id` (nor a destroy /
    re-create). Then every buffered result of `id`
    * carries the `recId` of an `add_record(id, recId, title, rating)` call made between the creation and the search,
    * and its title is that record's tokenised source text (`tokenize_record(lang, title).source`) decorated with
      the markers that were in force at the time of the search (`markersOf id post`: the last `highlight_with` on
      `id` before the search, default `[` `]`) around word-aligned spans (`SpansOK`: sorted, disjoint, non-empty,
      each starting at the first character of a distinct title word and ending inside it), NUL padding removed;
      later `highlight_with` calls do not re-decorate the buffer;
    * contains no NUL. -/
theorem C02_api_results (S : Sorter) (hS : SorterOK S) (envs : Nat → Env) (hE : EnvsOK envs)
    (pre post later : List RegOp) (id lang : Nat) (q : List Nat)
    (hv : Registry.allValid S Gen.srcProg envs Registry.empty
            (pre ++ RegOp.create id lang :: post ++ RegOp.runSearch id q :: later) = true)
    (hk : ∀ op ∈ post, op.keeps id = true) (hq : ∀ op ∈ later, op.quiet id = true) :
    ∀ res ∈ (amGet (Registry.empty.run S Gen.srcProg envs
                (pre ++ RegOp.create id lang :: post ++ RegOp.runSearch id q :: later)).results id).getD [],
      ∃ recId title rating spans, RegOp.addRecord id recId title rating ∈ post ∧ res.id = recId ∧
        SpansOK (tokenizeRecord Gen.srcProg (envs lang) title) spans ∧
        res.title = stripNul (decorate (tokenizeRecord Gen.srcProg (envs lang) title).source spans
                      (markersOf id post).1 (markersOf id post).2) ∧
        0 ∉ res.title := by
  rw [buffer_after_search S envs pre post later id lang q hv hk hq]
  intro res hres
  simp only [Option.getD_some] at hres
  have hF := since_storeFacts S envs hE id lang post
  obtain ⟨r, hr, spans, hid, hsp, ht⟩ :=
    C02_title_full_src hS _ _ hF.textOK (hE.query lang q).textOK res hres
  obtain ⟨title, hmem, htitle⟩ := add_of_store_record S (envs lang) id post r hr
  rw [(store_fields S (envs lang) id post).2.2, htitle] at ht
  exact ⟨r.id, title, r.rating, spans, hmem, hid, htitle ▸ hsp, ht, C20_titles_no_nul S _ _ _ _ res hres⟩

/-- The text between the markers is the text the caller supplied: the source of a tokenised title without its NUL
    padding is the raw title after the language's composition table (Unicode-composed form), NULs removed. -/
theorem C02_api_source (envs : Nat → Env) (hE : EnvsOK envs) (lang : Nat) (title : List Nat) :
    stripNul (tokenizeRecord Gen.srcProg (envs lang) title).source = stripNul (compose (envs lang).T title) := by
  have e : (fun x : Nat => x != 0) = (fun x => decide (x ≠ 0)) := by
    funext x; cases x <;> rfl
  unfold stripNul
  rw [e]
  exact (hE.record lang title).source

/-! ## C06 — the limit -/

/-- **C06 at the top-level API.** The number of buffered results of `id` never exceeds the limit that was in force
    at its last `run_search` (`limitOf id post`: the last `set_limit` on `id` between its creation and that search,
    default 10) — whatever was called since on this or any other id, later `set_limit` calls included. -/
theorem C06_api_limit (S : Sorter) (hS : SorterOK S) (envs : Nat → Env)
    (pre post later : List RegOp) (id lang : Nat) (q : List Nat)
    (hv : Registry.allValid S Gen.srcProg envs Registry.empty
            (pre ++ RegOp.create id lang :: post ++ RegOp.runSearch id q :: later) = true)
    (hk : ∀ op ∈ post, op.keeps id = true) (hq : ∀ op ∈ later, op.quiet id = true) :
    ((amGet (Registry.empty.run S Gen.srcProg envs
        (pre ++ RegOp.create id lang :: post ++ RegOp.runSearch id q :: later)).results id).getD []).length
      ≤ limitOf id post ∧
    (getResultIds (Registry.empty.run S Gen.srcProg envs
        (pre ++ RegOp.create id lang :: post ++ RegOp.runSearch id q :: later)) id).length ≤ limitOf id post := by
  have : ((amGet (Registry.empty.run S Gen.srcProg envs
        (pre ++ RegOp.create id lang :: post ++ RegOp.runSearch id q :: later)).results id).getD []).length
      ≤ limitOf id post := by
    rw [buffer_after_search S envs pre post later id lang q hv hk hq, Option.getD_some,
      ← (store_fields S (envs lang) id post).2.1]
    exact C06_length_le_limit_src S hS _ _
  exact ⟨this, by simpa [getResultIds] using this⟩

/-- … and before the first search on a newly created id the buffer is empty. -/
theorem C06_api_no_search_empty (S : Sorter) (envs : Nat → Env) (pre later : List RegOp) (id lang : Nat)
    (hv : Registry.allValid S Gen.srcProg envs Registry.empty (pre ++ RegOp.create id lang :: later) = true)
    (hq : ∀ op ∈ later, op.quiet id = true) :
    amGet (Registry.empty.run S Gen.srcProg envs (pre ++ RegOp.create id lang :: later)).results id = some [] := by
  rw [allValid_append, Bool.and_eq_true] at hv
  have hvc : (RegOp.create id lang).valid (Registry.empty.run S Gen.srcProg envs pre) = true := by
    have := hv.2; simp only [Registry.allValid, Bool.and_eq_true] at this; exact this.1
  rw [run_append]
  show amGet (Registry.run S Gen.srcProg envs
    ((Registry.empty.run S Gen.srcProg envs pre).step S Gen.srcProg envs (RegOp.create id lang)) later).results id = _
  rw [run_quiet_results S Gen.srcProg envs _ later id hq]
  unfold Registry.step
  simp only [hvc, Bool.not_true, Bool.false_eq_true, if_false]
  exact amGet_amSet_same _ _ _

/-! ## C12 — the query without words -/

/-- **C12 at the top-level API.** If the raw query `q` tokenises to no word (it contains no letter or digit: empty,
    blanks, punctuation), then after `run_search(id, q)` — and until the next search on `id` — the buffer of `id`
    holds exactly `min(limit, n)` results, where `limit` is the limit in force at the search and `n` the number of
    `add_record` calls on `id` since its creation or, if it was cleared (`clearStore id`), since the last clear
    (`addedOf id post`). -/
theorem C12_api_empty_query (S : Sorter) (hS : SorterOK S) (envs : Nat → Env) (hE : EnvsOK envs)
    (pre post later : List RegOp) (id lang : Nat) (q : List Nat)
    (hv : Registry.allValid S Gen.srcProg envs Registry.empty
            (pre ++ RegOp.create id lang :: post ++ RegOp.runSearch id q :: later) = true)
    (hk : ∀ op ∈ post, op.keeps id = true) (hq : ∀ op ∈ later, op.quiet id = true)
    (hwords : (tokenizeQuery Gen.srcProg (envs lang) q).words = []) :
    ((amGet (Registry.empty.run S Gen.srcProg envs
        (pre ++ RegOp.create id lang :: post ++ RegOp.runSearch id q :: later)).results id).getD []).length
      = min (limitOf id post) (addedOf id post).length := by
  rw [buffer_after_search S envs pre post later id lang q hv hk hq, Option.getD_some,
    ← (store_fields S (envs lang) id post).2.1, ← store_records_length S (envs lang) id post]
  exact C12_length S hS Gen.srcConsts (by decide) Gen.srcScoreOrder _ (since_storeFacts S envs hE id lang post).inv _
    hwords

/-! ## C03 / C13 — what is typed is found -/

/-- **C03 at the top-level API.** A record was added to `id` with raw title `title` and `id` was not cleared since
    (`hadd`; by `mem_addedOf` this says: `post = a ++ add_record(id, recId, title, rating) :: b` with no
    `clearStore id` in `b`; without any `clearStore id` in `post` it is `add_record … ∈ post`,
    `mem_addedOf_noClear`). Take a word `w` of its
    tokenised title and the first `k ≥ 1` characters `p` of that word (normalised, lower-cased form, as stored). If
    `p` ends in a letter or digit and is left unchanged by the language's compose / reduce tables, and `id` holds no
    more records than its limit, then after `run_search(id, p)` — the RAW string `p` — the buffer of `id` contains a
    result with that record's `recId` (until the next search on `id`). -/
theorem C03_api_prefix (S : Sorter) (hS : SorterOK S) (envs : Nat → Env) (hE : EnvsOK envs)
    (pre post later : List RegOp) (id lang : Nat)
    (recId : Nat) (title : List Nat) (rating : Nat) (hadd : (recId, title, rating) ∈ addedOf id post)
    (w : WordShape) (hw : w ∈ (tokenizeRecord Gen.srcProg (envs lang) title).words) (k : Nat) (hk1 : 1 ≤ k)
    (p : List Nat) (hp : p = (wchars (tokenizeRecord Gen.srcProg (envs lang) title) w).take k)
    (hlast : p.getLast?.map (envs lang).U.isAlnum = some true)
    (hcomp : compose (envs lang).T p = p) (hred : reduce (envs lang).T p = none)
    (hv : Registry.allValid S Gen.srcProg envs Registry.empty
            (pre ++ RegOp.create id lang :: post ++ RegOp.runSearch id p :: later) = true)
    (hk : ∀ op ∈ post, op.keeps id = true) (hq : ∀ op ∈ later, op.quiet id = true)
    (hlim : (addedOf id post).length ≤ limitOf id post) :
    ∃ res ∈ (amGet (Registry.empty.run S Gen.srcProg envs
                (pre ++ RegOp.create id lang :: post ++ RegOp.runSearch id p :: later)).results id).getD [],
      res.id = recId := by
  rw [buffer_after_search S envs pre post later id lang p hv hk hq, Option.getD_some]
  obtain ⟨ix, r, hr, hid, htitle, _⟩ := store_record_of_add S (envs lang) id post recId title rating hadd
  subst hp
  rw [← htitle] at hw hlast hcomp hred ⊢
  rw [← hid]
  refine prefix_typed_found_env S hS (envs lang) (hE.consts lang) (hE.unicode lang) (hE.tables lang) (hE.stem lang)
    (storeOpsOf Gen.srcProg (envs lang) id post) ?_ ?_ ix r hr w hw k hk1 hlast hcomp hred
  · intro rid t rt hm
    obtain ⟨s, _, rfl⟩ := (add_mem_storeOpsOf _ _ _ _ _ _ _).mp hm
    exact ⟨s, rfl⟩
  · have h1 := store_records_length S (envs lang) id post
    have h2 := (store_fields S (envs lang) id post).2.1
    unfold runOne at h1 h2
    show (Store.run S Gen.srcProg.K Gen.srcProg.order (Store.new Gen.srcProg.K) _).records.length ≤
      (Store.run S Gen.srcProg.K Gen.srcProg.order (Store.new Gen.srcProg.K) _).limit
    rw [h1, h2]; exact hlim

/-- **C13 at the top-level API.** A record was added to `id` with raw title `title` (any text: several words,
    capitals, accents, punctuation) that has at least one word, `id` was not cleared since (`hadd`, see
    `mem_addedOf` / `mem_addedOf_noClear`), and `id` holds no more records than its limit. Then
    after `run_search(id, title)` — the very string that was added — the buffer of `id` contains a result with
    that record's `recId` (until the next search on `id`). -/
theorem C13_api_whole_title (S : Sorter) (hS : SorterOK S) (envs : Nat → Env) (hE : EnvsOK envs)
    (pre post later : List RegOp) (id lang : Nat)
    (recId : Nat) (title : List Nat) (rating : Nat) (hadd : (recId, title, rating) ∈ addedOf id post)
    (hne : (tokenizeRecord Gen.srcProg (envs lang) title).words ≠ [])
    (hv : Registry.allValid S Gen.srcProg envs Registry.empty
            (pre ++ RegOp.create id lang :: post ++ RegOp.runSearch id title :: later) = true)
    (hk : ∀ op ∈ post, op.keeps id = true) (hq : ∀ op ∈ later, op.quiet id = true)
    (hlim : (addedOf id post).length ≤ limitOf id post) :
    ∃ res ∈ (amGet (Registry.empty.run S Gen.srcProg envs
                (pre ++ RegOp.create id lang :: post ++ RegOp.runSearch id title :: later)).results id).getD [],
      res.id = recId := by
  rw [buffer_after_search S envs pre post later id lang title hv hk hq, Option.getD_some]
  obtain ⟨ix, r, hr, hid, htitle, _⟩ := store_record_of_add S (envs lang) id post recId title rating hadd
  rw [← htitle] at hne
  rw [← hid]
  refine whole_title_typed_env S hS (envs lang) (hE.consts lang) (hE.unicode lang) (hE.tables lang) (hE.stem lang)
    (storeOpsOf Gen.srcProg (envs lang) id post) ?_ ?_ ix r hr title htitle hne
  · intro rid t rt hm
    obtain ⟨s, _, rfl⟩ := (add_mem_storeOpsOf _ _ _ _ _ _ _).mp hm
    exact ⟨s, rfl⟩
  · have h1 := store_records_length S (envs lang) id post
    have h2 := (store_fields S (envs lang) id post).2.1
    unfold runOne at h1 h2
    show (Store.run S Gen.srcProg.K Gen.srcProg.order (Store.new Gen.srcProg.K) _).records.length ≤
      (Store.run S Gen.srcProg.K Gen.srcProg.order (Store.new Gen.srcProg.K) _).limit
    rw [h1, h2]; exact hlim

/-! ## C10 — the buffer is what a newly constructed store answers -/

/-- the newly constructed store of C10 for a store id with language environment `E`: `Store::new()`, then the limit,
    then the markers, then one `add_record` per triple `(recId, raw title, rating)` in order (titles tokenised for
    `E`); no search has been run on it, no record was ever removed from it -/
def freshFor (E : Env) (limit : Nat) (markers : List Nat × List Nat) (added : List (Nat × List Nat × Nat)) : Store :=
  Store.fresh Gen.srcConsts limit markers (added.map (fun x => (x.1, tokenizeRecord Gen.srcProg E x.2.1, x.2.2)))

/-- **C10 at the top-level API.** `id` was created with language `lang`, received the calls `post` — any mix of
    `add_record`, `clearStore`, `set_limit`, `highlight_with`, `run_search`, interleaved with calls on other ids —
    then `run_search(id, q)`. The buffer of `id` then holds (until the next search on `id`) exactly what a NEWLY
    CONSTRUCTED store answers to `q`: one that was given the limit and the markers in force, and then the records
    `id` currently holds (`addedOf id post`: those added since the last `clearStore id`), in the same order, and
    nothing else. Whatever caches and index entries the long-lived store accumulated make no difference. Holds for
    every sorting routine and every family of environments. -/
theorem C10_api_fresh (S : Sorter) (envs : Nat → Env) (pre post later : List RegOp) (id lang : Nat) (q : List Nat)
    (hv : Registry.allValid S Gen.srcProg envs Registry.empty
            (pre ++ RegOp.create id lang :: post ++ RegOp.runSearch id q :: later) = true)
    (hk : ∀ op ∈ post, op.keeps id = true) (hq : ∀ op ∈ later, op.quiet id = true) :
    amGet (Registry.empty.run S Gen.srcProg envs
        (pre ++ RegOp.create id lang :: post ++ RegOp.runSearch id q :: later)).results id =
      some ((freshFor (envs lang) (limitOf id post) (markersOf id post) (addedOf id post)).search S Gen.srcConsts
        Gen.srcScoreOrder (tokenizeQuery Gen.srcProg (envs lang) q)) := by
  rw [buffer_after_search S envs pre post later id lang q hv hk hq]
  obtain ⟨h1, h2, h3⟩ := store_fields S (envs lang) id post
  have e := search_eq_rebuild
    (StoreInv_reachable S Gen.srcConsts Gen.srcScoreOrder (storeOpsOf Gen.srcProg (envs lang) id post))
    Gen.srcScoreOrder (tokenizeQuery Gen.srcProg (envs lang) q)
  rw [show runOne S Gen.srcProg (storeOpsOf Gen.srcProg (envs lang) id post) =
      Store.run S Gen.srcConsts Gen.srcScoreOrder (Store.new Gen.srcConsts)
        (storeOpsOf Gen.srcProg (envs lang) id post) from rfl] at h1 h2 h3 ⊢
  rw [e, Store.rebuild, h1, h2, h3]
  rfl

/-- **C10 at the top-level API, after a clear.** `id` was created, received the calls `mid`, was cleared
    (`clearStore id` = `using_store(id, |s| s.clear())`), then received the calls `post` — `add_record`,
    `set_limit`, `highlight_with`, `run_search` on `id` and anything on other ids, but no further `clearStore id` /
    `destroy id` / `create id` — then `run_search(id, q)`. The buffer of `id` then holds exactly what a newly
    constructed store answers to `q` that was given the limit and markers in force (a clear resets neither: they
    are those of the last `set_limit` / `highlight_with` on `id` since its creation, before or after the clear) and
    then ONLY the records added AFTER the clear (`addsOf id post`: all `add_record` calls on `id` in `post`, in
    order). Nothing of what was added, indexed or cached before the clear has any influence. -/
theorem C10_api_clear (S : Sorter) (envs : Nat → Env) (pre mid post later : List RegOp) (id lang : Nat)
    (q : List Nat)
    (hv : Registry.allValid S Gen.srcProg envs Registry.empty
            (pre ++ RegOp.create id lang :: (mid ++ RegOp.clearStore id :: post) ++ RegOp.runSearch id q :: later)
              = true)
    (hkm : ∀ op ∈ mid, op.keeps id = true) (hkp : ∀ op ∈ post, op.keeps id = true)
    (hnc : ∀ op ∈ post, op ≠ RegOp.clearStore id) (hq : ∀ op ∈ later, op.quiet id = true) :
    amGet (Registry.empty.run S Gen.srcProg envs
        (pre ++ RegOp.create id lang :: (mid ++ RegOp.clearStore id :: post) ++ RegOp.runSearch id q :: later)).results
          id =
      some ((freshFor (envs lang) (limitOf id (mid ++ RegOp.clearStore id :: post))
          (markersOf id (mid ++ RegOp.clearStore id :: post)) (addsOf id post)).search S Gen.srcConsts
        Gen.srcScoreOrder (tokenizeQuery Gen.srcProg (envs lang) q)) := by
  have hk : ∀ op ∈ mid ++ RegOp.clearStore id :: post, op.keeps id = true := by
    intro op hop
    rcases List.mem_append.mp hop with h | h
    · exact hkm op h
    · rcases List.mem_cons.mp h with h | h
      · subst h; rfl
      · exact hkp op h
  rw [C10_api_fresh S envs pre _ later id lang q hv hk hq, addedOf_after_clear, addedOf_noClear id post hnc]

/-- the limit and the markers in force after `mid ++ clearStore id :: post` are those after `mid ++ post`: the clear
    call itself changes neither -/
theorem limit_markers_clear (id : Nat) (mid post : List RegOp) :
    limitOf id (mid ++ RegOp.clearStore id :: post) = limitOf id (mid ++ post) ∧
    markersOf id (mid ++ RegOp.clearStore id :: post) = markersOf id (mid ++ post) := by
  simp [limitOf, markersOf, limitFrom, markersFrom, List.foldl_append]

/-! ## C20 — isolation, in one sentence -/

/-- **C20 at the top-level API.** The result buffer of id `j` after `ops ++ ops'` is the buffer after `ops`
    whenever no call of `ops'` is a `run_search j`, `destroy j` or `create j`: calls on other ids — creations,
    destructions, additions, clears, searches — and `j`'s own `add_record` / `set_limit` / `highlight_with` /
    `clearStore` calls do not change what `get_result_ids(j)` / `get_result_titles(j)` return. Holds for every program, every family of
    environments, every sorting routine and every call list, valid or not (an invalid call changes nothing). -/
theorem C20_api_isolated (S : Sorter) (P : Prog) (envs : Nat → Env) (ops ops' : List RegOp) (j : Nat)
    (hq : ∀ op ∈ ops', op.quiet j = true) :
    amGet (Registry.empty.run S P envs (ops ++ ops')).results j = amGet (Registry.empty.run S P envs ops).results j ∧
    getResultIds (Registry.empty.run S P envs (ops ++ ops')) j = getResultIds (Registry.empty.run S P envs ops) j ∧
    getResultTitles (Registry.empty.run S P envs (ops ++ ops')) j =
      getResultTitles (Registry.empty.run S P envs ops) j := by
  have h : amGet (Registry.empty.run S P envs (ops ++ ops')).results j =
      amGet (Registry.empty.run S P envs ops).results j := by
    rw [run_append]; exact run_quiet_results S P envs _ ops' j hq
  exact ⟨h, by simp [getResultIds, h], by simp [getResultTitles, h]⟩

/-! ## non-vacuity: two ids with different languages (0: English tables, 1: German tables), interleaved calls, later
     limit / marker changes, a destroy and a re-create; toy Unicode / stem oracles and insertion sort -/

namespace APIExample
open C13Example C03Example

def exEnvs : Nat → Env := fun l => if l = 1 then C03bExample.deEnv else exEnv

theorem exEnvs_ok : EnvsOK exEnvs := by
  refine ⟨?_, ?_, ?_, ?_⟩ <;> intro l <;> unfold exEnvs <;> split
  · rfl
  · rfl
  · exact toyU_facts
  · exact toyU_facts
  · exact tablesOK_de
  · exact tablesOK_en
  · exact toyStemHyp _ (by decide)
  · exact toyStemHyp _ (by decide)

/-- calls after `create 1 0`: id 2 is created (German), "Abc def" (id 1) and "Straße" (id 2) are added, limit 5 and
    markers `<` `>` are set on id 1, "xy z" is added to id 1 -/
def exPost : List RegOp :=
  [.create 2 1, .addRecord 1 42 [65, 98, 99, 32, 100, 101, 102] 7, .addRecord 2 9 [83, 116, 114, 97, 223, 101] 0,
   .setLimit 1 5, .highlightWith 1 [60] [62], .addRecord 1 43 [120, 121, 32, 122] 1]

/-- calls after the search on id 1: a search on id 2, one more record, limit 0 and other markers on id 1, id 2
    destroyed and re-created -/
def exLater : List RegOp :=
  [.runSearch 2 [33], .addRecord 1 44 [100, 101] 3, .setLimit 1 0, .highlightWith 1 [40] [41], .destroy 2,
   .create 2 0]

/-- … with the search "de" on id 1 in between -/
def exOps : List RegOp := [] ++ RegOp.create 1 0 :: exPost ++ RegOp.runSearch 1 [100, 101] :: exLater

/-- … with the search "Abc def" on id 1 in between -/
def exOps13 : List RegOp :=
  [] ++ RegOp.create 1 0 :: exPost ++ RegOp.runSearch 1 [65, 98, 99, 32, 100, 101, 102] :: exLater

theorem exOps_valid : Registry.allValid exSorter Gen.srcProg exEnvs Registry.empty exOps = true := by decide +kernel
theorem exOps13_valid : Registry.allValid exSorter Gen.srcProg exEnvs Registry.empty exOps13 = true := by
  decide +kernel
theorem exPost_keeps : ∀ op ∈ exPost, op.keeps 1 = true := by decide
theorem exLater_quiet : ∀ op ∈ exLater, op.quiet 1 = true := by decide

/- what the run leaves in the buffer of id 1: "Abc <de>f" — found by the prefix "de", decorated with the markers in
   force at the search, not touched by the later limit 0 / markers `(` `)` -/
-- #eval (amGet (Registry.empty.run exSorter Gen.srcProg exEnvs exOps).results 1).getD []
--   [{ id := 42, title := [65, 98, 99, 32, 60, 100, 101, 62, 102] }]
-- #eval splitNul (getResultTitles (Registry.empty.run exSorter Gen.srcProg exEnvs exOps) 1)
--   [[65, 98, 99, 32, 60, 100, 101, 62, 102], []]

/-- `api_live_shape`, `live_store_reachable`: id 1 is live at the end of `exOps` -/
example : (amGet (Registry.empty.run exSorter Gen.srcProg exEnvs exOps).stores 1).isSome = true := by decide +kernel

/-- C01: the hypotheses are met -/
example : Registry.runSafe exSorter Gen.srcProg exEnvs Registry.empty exOps = true :=
  C01_api_registry_runSafe exSorter exSorter_ok exEnvs exEnvs_ok exOps exOps_valid

example : (RegOp.runSearch 1 [100, 101]).safe exSorter Gen.srcProg exEnvs
    (Registry.empty.run exSorter Gen.srcProg exEnvs ([] ++ RegOp.create 1 0 :: exPost)) = true :=
  C01_api_registry_safe exSorter exSorter_ok exEnvs exEnvs_ok exOps exOps_valid _ _ exLater rfl

/-- a call on a missing id is reported as unsafe -/
example : (RegOp.runSearch 7 []).safe exSorter Gen.srcProg exEnvs Registry.empty = false := by decide

/-- C02 (basic and precise), C06: the hypotheses are met -/
example := C02_api_results_basic exSorter exSorter_ok exEnvs exEnvs_ok exOps exOps_valid 1
example := C02_api_results exSorter exSorter_ok exEnvs exEnvs_ok [] exPost exLater 1 0 [100, 101] exOps_valid
  exPost_keeps exLater_quiet
example : markersOf 1 exPost = ([60], [62]) ∧ limitOf 1 exPost = 5 ∧ (addedOf 1 exPost).length = 2 := by decide
example := C06_api_limit exSorter exSorter_ok exEnvs [] exPost exLater 1 0 [100, 101] exOps_valid
  exPost_keeps exLater_quiet

/-- C12: on id 2 (German) two records are added and the limit is set to 1; the query "!" has no word; the buffer
    holds `min 1 2 = 1` result, also after a further `add_record` on id 2 and a search on id 1 -/
def exPost12 : List RegOp :=
  [.addRecord 1 42 [65, 98, 99] 7, .addRecord 2 9 [83, 116, 114, 97, 223, 101] 0, .addRecord 2 10 [97, 98, 99] 5,
   .setLimit 2 1]
def exLater12 : List RegOp := [.addRecord 2 11 [120] 9, .runSearch 1 [97]]

example : ((amGet (Registry.empty.run exSorter Gen.srcProg exEnvs
    ([RegOp.create 1 0] ++ RegOp.create 2 1 :: exPost12 ++ RegOp.runSearch 2 [33] :: exLater12)).results 2).getD
      []).length = min (limitOf 2 exPost12) (addedOf 2 exPost12).length :=
  C12_api_empty_query exSorter exSorter_ok exEnvs exEnvs_ok [RegOp.create 1 0] exPost12 exLater12 2 1 [33]
    (by decide +kernel) (by decide) (by decide) (by decide +kernel)

example : min (limitOf 2 exPost12) (addedOf 2 exPost12).length = 1 := by decide

/-- C03: typing "de", the first two characters of the second word of "Abc def", finds record 42 on id 1 -/
example : ∃ res ∈ (amGet (Registry.empty.run exSorter Gen.srcProg exEnvs exOps).results 1).getD [], res.id = 42 :=
  C03_api_prefix exSorter exSorter_ok exEnvs exEnvs_ok [] exPost exLater 1 0 42 [65, 98, 99, 32, 100, 101, 102] 7
    (by decide) C03bExample.exW (by decide +kernel) 2 (by decide) [100, 101] (by decide +kernel) (by decide)
    (by decide +kernel) (by decide +kernel) exOps_valid exPost_keeps exLater_quiet (by decide)

/-- C13: typing "Abc def" as it was added finds record 42 on id 1 -/
example : ∃ res ∈ (amGet (Registry.empty.run exSorter Gen.srcProg exEnvs exOps13).results 1).getD [], res.id = 42 :=
  C13_api_whole_title exSorter exSorter_ok exEnvs exEnvs_ok [] exPost exLater 1 0 42 [65, 98, 99, 32, 100, 101, 102]
    7 (by decide) (by decide +kernel) exOps13_valid exPost_keeps exLater_quiet (by decide)

/-- C10 / C20 with a clear: id 1 gets "Abc def" and limit 5, a search, is cleared, gets markers `<` `>` and "xy z"
    and "de"; the search "de" then finds record 44 only, as a new store with limit 5, markers `<` `>` and those two
    records would; afterwards id 1 is cleared once more (buffer kept) -/
def exMid : List RegOp :=
  [.create 2 1, .addRecord 1 42 [65, 98, 99, 32, 100, 101, 102] 7, .setLimit 1 5, .runSearch 1 [100, 101]]
def exPostC : List RegOp :=
  [.highlightWith 1 [60] [62], .addRecord 2 9 [83, 116, 114, 97, 223, 101] 0, .addRecord 1 43 [120, 121, 32, 122] 1,
   .addRecord 1 44 [100, 101] 3]
def exLaterC : List RegOp := [.clearStore 1, .addRecord 1 45 [100, 101] 3, .clearStore 2]
def exOpsC : List RegOp :=
  [] ++ RegOp.create 1 0 :: (exMid ++ RegOp.clearStore 1 :: exPostC) ++ RegOp.runSearch 1 [100, 101] :: exLaterC

theorem exOpsC_valid : Registry.allValid exSorter Gen.srcProg exEnvs Registry.empty exOpsC = true := by decide +kernel

example := C10_api_clear exSorter exEnvs [] exMid exPostC exLaterC 1 0 [100, 101] exOpsC_valid (by decide) (by decide)
  (by decide) (by decide)
example : addsOf 1 exPostC = [(43, [120, 121, 32, 122], 1), (44, [100, 101], 3)] ∧
    addedOf 1 (exMid ++ RegOp.clearStore 1 :: exPostC) = addsOf 1 exPostC ∧
    limitOf 1 (exMid ++ RegOp.clearStore 1 :: exPostC) = 5 ∧
    markersOf 1 (exMid ++ RegOp.clearStore 1 :: exPostC) = ([60], [62]) := by decide
-- #eval (amGet (Registry.empty.run exSorter Gen.srcProg exEnvs exOpsC).results 1).getD []
--   [{ id := 44, title := [60, 100, 101, 62] }]      (record 42 "Abc def", added before the clear, is not found)
-- #eval (amGet (Registry.empty.run exSorter Gen.srcProg exEnvs exOpsC).stores 1).map (·.2.records.map (·.id))
--   some [45]                                         (the later clear emptied the store, the buffer above is kept)
/-- the C03 hypothesis `hadd` distinguishes a record added after the clear from one added before it -/
example : (44, [100, 101], 3) ∈ addedOf 1 (exMid ++ RegOp.clearStore 1 :: exPostC) ∧
    (42, [65, 98, 99, 32, 100, 101, 102], 7) ∉ addedOf 1 (exMid ++ RegOp.clearStore 1 :: exPostC) := by decide

/-- C20: the calls of `exLater` do not change the buffer of id 1 -/
example := C20_api_isolated exSorter Gen.srcProg exEnvs ([] ++ RegOp.create 1 0 :: exPost ++ [RegOp.runSearch 1 [100, 101]])
  exLater 1 exLater_quiet

end APIExample

end Lucid
