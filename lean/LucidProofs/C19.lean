/-
  C19 (distance-matrix and cost-vector part) — every unchecked read or write of `DistMatrix`
  (`get_unchecked` / `set_unchecked` in `init`, `prepare` and `DamerauLevenshtein::distance`) and every unchecked
  read of the per-character cost vectors and of the characters uses an in-range index: row and column are each
  below the *current* matrix dimension (not merely inside the flat buffer), for every input and after any
  sequence of earlier calls that grew or reused the buffers.

  `LucidModel.DamlevChecked` runs the same loops with every such access bounds-checked (`none` on failure).
  The theorems say the checked run never fails and equals the unchecked run. The Jaccard merge and the trigram
  counters are handled elsewhere.
  Lemmas: `LucidProofs/Lemmas/DamlevChecked.lean` (checked = unchecked), `LucidProofs/Lemmas/DamlevRefine.lean`
  (shape invariant `MInv`, flat layout).
-/
import LucidProofs.Lemmas.DamlevChecked
import LucidModel.Gen.Consts

namespace Lucid
open DL

/-- `DistMatrix::init` stays inside the matrix for every matrix value whatsoever (any size, any buffer). -/
theorem C19_init_in_range (m : Mat) : m.initC = some m.init := (initC_spec m).1

/-- The growth branch of `prepare` (resize keeps stale data, then `init`) stays inside the grown matrix. -/
theorem C19_grow_in_range (m : Mat) (need : Nat) : m.growC need = some (m.grow need) := (growC_spec m need).1

/-- `DistMatrix::prepare` stays inside the matrix for every matrix value and every two cost vectors, and
    leaves a matrix whose dimension is at least the longer vector plus two. -/
theorem C19_prepare_in_range (m : Mat) (c1 c2 : List Nat) :
    m.prepareC c1 c2 = some (m.prepare c1 c2) ∧ max c1.length c2.length + 2 ≤ (m.prepare c1 c2).size := by
  have := prepareC_spec m c1 c2
  exact ⟨this.1, by omega⟩

/-- One call of `distance`: none of the checked accesses (matrix row < size and column < size separately,
    cost vectors, characters) fails, for **every** matrix state `m` (nothing at all is assumed about it, so in
    particular after any earlier calls) and all words carrying one cost per character; the checked run returns
    exactly what the unchecked loops return. -/
theorem C19_distance_in_range (K : Consts) (m : Mat) (a b : CWord) (ha : Aligned a) (hb : Aligned b) :
    distanceC K m a b = some (distanceM K m a b) :=
  distanceC_eq K m a b ha hb

example : distanceC Gen.srcConsts (Mat.new 3) ⟨[97, 98, 99, 97], [5, 10, 10, 5]⟩ ⟨[97, 99, 98, 97, 97], [5, 10, 10, 5, 5]⟩ =
    some (distanceM Gen.srcConsts (Mat.new 3) ⟨[97, 98, 99, 97], [5, 10, 10, 5]⟩ ⟨[97, 99, 98, 97, 97], [5, 10, 10, 5, 5]⟩) :=
  C19_distance_in_range _ _ _ _ (by simp [Aligned]) (by simp [Aligned])

/-- The hypothesis `Aligned` is necessary: with a cost vector shorter than the word the source's
    `costs1.get_unchecked(i1)` would read out of range, and the checked run reports it. -/
example : distanceC Gen.srcConsts (Mat.new 22) ⟨[97, 98], [5]⟩ ⟨[97], [5]⟩ = none := by decide +kernel

/-- Any sequence of calls starting from the matrix the library creates (`DistMatrix::new(DEFAULT_CAPACITY + 2)`),
    including calls that grow it: no checked access ever fails and the results equal the unchecked ones. -/
theorem C19_sequence_in_range (K : Consts) (calls : List (CWord × CWord))
    (hc : ∀ p ∈ calls, Aligned p.1 ∧ Aligned p.2) :
    runCallsC K (Mat.new (K.matCap + 2)) calls = some (runCalls K (Mat.new (K.matCap + 2)) calls) :=
  runCallsC_eq K calls hc _

/-- After any number of calls of such a sequence the buffer is exactly `size × size` and the sentinels are intact
    (`MInv`); hence (next theorem) row < size and column < size also imply that the flat index `row·size + column`
    lies inside the buffer. -/
theorem C19_sequence_shape (K : Consts) (calls : List (CWord × CWord)) (hc : CallsOK calls) (n : Nat) :
    MInv (runCalls K (Mat.new (K.matCap + 2)) (calls.take n)).2 :=
  (runCalls_spec K (calls.take n) (fun p hp => hc p (List.mem_of_mem_take hp)) _ (MInv_new _).1).2

/-- Row and column below the dimension address a slot of the flat buffer, and two different cells never share
    a slot. -/
theorem C19_flat_index (m : Mat) (hm : MInv m) (i j i' j' : Nat) (hi : i < m.size) (hj : j < m.size)
    (hj' : j' < m.size) :
    i * m.size + j < m.raw.size ∧ (i * m.size + j = i' * m.size + j' ↔ i = i' ∧ j = j') :=
  ⟨flat_in_buffer m hm i j hi hj, flat_inj m.size i j i' j' hj hj'⟩

example : MInv (Mat.new (Gen.srcConsts.matCap + 2)) := (MInv_new _).1

end Lucid
