/-
  C05 (second half) — length of the highlighted spans:
  "No highlighted span is more than one (normalised) character longer than the stretch of query text from its
  first to its last word, and when the query is an exact prefix of a one-word title the highlight covers
  exactly the typed characters."
  Statements with short proofs; the lemmas live in `Lemmas/PairOK.lean` (`wordMatchOK`: what `word_match`
  guarantees of a returned pair, proved from the model and the distance refinement; `HlSpanInv`: the scan
  invariant of `text_match` carrying the length bound).

  Hypotheses: `TextOK` of the record titles and of the query (tokenizer cluster, C15), `CostsOK K` (edit costs
  positive multiples of 0.5, at most 1.0; transposition / doubled letter 0.5, single letter 1.0) and
  `ThresholdOK K` (`DAMLEV_THRESHOLD ≤ 0.21`); both numeric hypotheses hold of the constants generated from
  the source (`costsOK_src`, `thresholdOK_src`).
-/
import LucidProofs.Lemmas.PairOK
import LucidProofs.C09

namespace Lucid

/-- **C05 (span bound, `text_match`).** Every record match returned by `text_match` highlights at most
    `stretch qt + 1` normalised characters, where `stretch qt` is the length of the query text from the start of
    its first word to the end of its last word. -/
theorem C05_span_bound (K : Consts) (hK : CostsOK K = true) (hT : ThresholdOK K = true) (rt qt : Text)
    (hrt : TextOK rt) (hqt : TextOK qt) :
    ∀ m ∈ (textMatch K rt qt).1, m.subHi - m.subLo ≤ stretch qt + 1 :=
  textMatch_span_le hrt hqt (wordMatchOK K hK hT rt qt)

theorem C05_span_bound_src (rt qt : Text) (hrt : TextOK rt) (hqt : TextOK qt) :
    ∀ m ∈ (textMatch Gen.srcConsts rt qt).1, m.subHi - m.subLo ≤ stretch qt + 1 :=
  C05_span_bound Gen.srcConsts costsOK_src thresholdOK_src rt qt hrt hqt

/-- the hypotheses of C09 on a store and a query follow from the tokenizer guarantees alone -/
theorem hitsWF_of_textOK (K : Consts) (hK : CostsOK K = true) (hT : ThresholdOK K = true) (st : Store) (q : Text)
    (htitles : ∀ r ∈ st.records, TextOK r.title) (hq : TextOK q) : HitsWF K st q :=
  ⟨htitles, hq, fun r _ => wordMatchOK K hK hT r.title q⟩

/-- **C05 (span bound, hits).** In every hit of a search, no highlighted span `(start, length)` of the title is
    more than one normalised character longer than the stretch of query text from its first to its last word;
    the same holds of every record match of the hit. -/
theorem C05_span_bound_hits (K : Consts) (hK : CostsOK K = true) (hT : ThresholdOK K = true)
    (order : List ScoreType) (st : Store) (q : Text)
    (htitles : ∀ r ∈ st.records, TextOK r.title) (hq : TextOK q) (ixs : List Nat) :
    ∀ h ∈ st.hitsOf K order q ixs,
      (∀ m ∈ h.rmatches, m.subHi - m.subLo ≤ stretch q + 1) ∧ (∀ sp ∈ hitSpans h, sp.2 ≤ stretch q + 1) := by
  intro h hh
  have H := hitsWF_of_textOK K hK hT st q htitles hq
  have hsp := C09_spans_are_rmatches H ixs h hh
  obtain ⟨_, _, hm⟩ := hit_rmatches_ok H hh
  obtain ⟨ix, r, _, hr, rfl, _⟩ := hit_of_mem_hitsOf hh
  have hb : ∀ m ∈ (scoreHit K order q r).rmatches, m.subHi - m.subLo ≤ stretch q + 1 :=
    C05_span_bound K hK hT r.title q (htitles r (List.mem_of_getElem? hr)) hq
  refine ⟨hb, ?_⟩
  intro sp hsp'
  rw [hsp] at hsp'
  obtain ⟨m, hmem, rfl⟩ := List.mem_map.mp hsp'
  have := hb m hmem
  have := (hm m hmem).sub0
  simp only []
  omega

theorem C05_span_bound_hits_src (st : Store) (q : Text)
    (htitles : ∀ r ∈ st.records, TextOK r.title) (hq : TextOK q) (ixs : List Nat) :
    ∀ h ∈ st.hitsOf Gen.srcConsts Gen.srcScoreOrder q ixs,
      (∀ m ∈ h.rmatches, m.subHi - m.subLo ≤ stretch q + 1) ∧ (∀ sp ∈ hitSpans h, sp.2 ≤ stretch q + 1) :=
  C05_span_bound_hits Gen.srcConsts costsOK_src thresholdOK_src Gen.srcScoreOrder st q htitles hq ixs

/-- **C05 (exact prefix, `text_match`).** One-word title `w`, one-word unfinished query `v` whose normalised
    characters are the first `k = v.len` characters of `w`: every record match returned by `text_match` (there is
    at most one) is the match of word `w` with no typos whose highlighted part is exactly its first `k`
    characters. No hypothesis on the distance threshold is needed. -/
theorem C05_exact_prefix_span (K : Consts) (hK : CostsOK K = true) (rt qt : Text) (w v : WordShape)
    (hrt : TextOK rt) (hqt : TextOK qt) (hrw : rt.words = [w]) (hqw : qt.words = [v]) (hfin : v.fin = false)
    (hpre : wchars qt v = (wchars rt w).take v.len) :
    ∀ m ∈ (textMatch K rt qt).1, m.lo = w.lo ∧ m.subLo = 0 ∧ m.subHi = v.len ∧ m.typos = 0 := by
  have hw : w ∈ rt.words := by simp [hrw]
  have hv : v ∈ qt.words := by simp [hqw]
  have hwo : w.offset = 0 := by have := hrt.offsets 0 (by simp [hrw]); simpa [hrw] using this
  have hvo : v.offset = 0 := by have := hqt.offsets 0 (by simp [hqw]); simpa [hqw] using this
  intro m hm
  rw [textMatch_single K rt qt w v hrw hqw hwo hvo] at hm
  split at hm
  · cases hm
  · rename_i p hp
    have := wordMatch_exact_prefix K hK rt w qt v (hrt.wordIn hw) (hqt.wordIn hv) hpre hfin (hqt.stems v hv) p hp
    simp only [List.mem_singleton] at hm
    subst hm; subst this
    exact ⟨rfl, rfl, rfl, rfl⟩

/-- … and the match is there whenever the two gates of `word_match` (length ratio, Jaccard similarity of the
    character sets) let the pair of words through and the query word's stem is not longer than the word:
    `text_match` then returns exactly one record match, the first `k` characters of `w` with no typos. -/
theorem C05_exact_prefix_match (K : Consts) (hK : CostsOK K = true) (rt qt : Text) (w v : WordShape)
    (hrt : TextOK rt) (hqt : TextOK qt) (hrw : rt.words = [w]) (hqw : qt.words = [v]) (hfin : v.fin = false)
    (hpre : wchars qt v = (wchars rt w).take v.len) (hstem : v.stem ≤ v.len)
    (hlen : lengthCheck K w v = true) (hjac : jaccardCheck K rt w qt v = true) :
    (textMatch K rt qt).1 = [(newPair K w v v.len v.len 0).1] := by
  have hw : w ∈ rt.words := by simp [hrw]
  have hv : v ∈ qt.words := by simp [hqw]
  have hwo : w.offset = 0 := by have := hrt.offsets 0 (by simp [hrw]); simpa [hrw] using this
  have hvo : v.offset = 0 := by have := hqt.offsets 0 (by simp [hqw]); simpa [hqw] using this
  rw [textMatch_single K rt qt w v hrw hqw hwo hvo,
    wordMatch_exact_prefix_some K hK rt w qt v (hrt.wordIn hw) (hqt.wordIn hv) hpre hfin (hqt.stems v hv) hstem hlen hjac]

theorem C05_exact_prefix_span_src (rt qt : Text) (w v : WordShape)
    (hrt : TextOK rt) (hqt : TextOK qt) (hrw : rt.words = [w]) (hqw : qt.words = [v]) (hfin : v.fin = false)
    (hpre : wchars qt v = (wchars rt w).take v.len) :
    ∀ m ∈ (textMatch Gen.srcConsts rt qt).1, m.lo = w.lo ∧ m.subLo = 0 ∧ m.subHi = v.len ∧ m.typos = 0 :=
  C05_exact_prefix_span Gen.srcConsts costsOK_src rt qt w v hrt hqt hrw hqw hfin hpre

/-- **C05 (exact prefix, hits).** In every hit whose title has the single word `w`, for a one-word unfinished query
    `v` that is a prefix of `w`, the only highlighted span is `(start of w, number of typed characters)`. -/
theorem C05_exact_prefix_hits (K : Consts) (hK : CostsOK K = true) (hT : ThresholdOK K = true)
    (order : List ScoreType) (st : Store) (q : Text) (v : WordShape)
    (htitles : ∀ r ∈ st.records, TextOK r.title) (hq : TextOK q) (hqw : q.words = [v]) (hfin : v.fin = false)
    (ixs : List Nat) :
    ∀ h ∈ st.hitsOf K order q ixs, ∀ w, h.title.words = [w] → wchars q v = (wchars h.title w).take v.len →
      hitSpans h = [(w.lo, v.len)] := by
  intro h hh w hw hpre
  have H := hitsWF_of_textOK K hK hT st q htitles hq
  have hsp := C09_spans_are_rmatches H ixs h hh
  have hne := (C09_some_span_for_wordy_query H (by simp [hqw]) ixs h hh).1
  obtain ⟨ix, r, _, hr, rfl, _⟩ := hit_of_mem_hitsOf hh
  have hrt : TextOK r.title := htitles r (List.mem_of_getElem? hr)
  have hwo : w.offset = 0 := by have := hrt.offsets 0 (by rw [show r.title.words = [w] from hw]; simp); simpa [show r.title.words = [w] from hw] using this
  have hvo : v.offset = 0 := by have := hq.offsets 0 (by simp [hqw]); simpa [hqw] using this
  have hall := C05_exact_prefix_span K hK r.title q w v hrt hq hw hqw hfin hpre
  have hrm : (scoreHit K order q r).rmatches = (textMatch K r.title q).1 := rfl
  rw [hsp, hrm]
  rw [hrm] at hne
  rw [textMatch_single K r.title q w v hw hqw hwo hvo] at hne hall ⊢
  cases hm : wordMatch K r.title w q v with
  | none => rw [hm] at hne; exact absurd rfl hne
  | some p =>
    simp only [hm] at hall
    obtain ⟨h1, _, h3, _⟩ := hall p.1 (List.mem_singleton.mpr rfl)
    simp [h1, h3]

theorem C05_exact_prefix_hits_src (st : Store) (q : Text) (v : WordShape)
    (htitles : ∀ r ∈ st.records, TextOK r.title) (hq : TextOK q) (hqw : q.words = [v]) (hfin : v.fin = false)
    (ixs : List Nat) :
    ∀ h ∈ st.hitsOf Gen.srcConsts Gen.srcScoreOrder q ixs, ∀ w, h.title.words = [w] →
      wchars q v = (wchars h.title w).take v.len → hitSpans h = [(w.lo, v.len)] :=
  C05_exact_prefix_hits Gen.srcConsts costsOK_src thresholdOK_src Gen.srcScoreOrder st q v htitles hq hqw hfin ixs

/-! ### non-vacuity: concrete instances of the hypotheses

`exT` is the tokenised one-word title "hello", `exQ` the tokenised unfinished query "hel"; the two-word title
"metal detector" and the query "det" of `C09Example` serve the span bound. -/
namespace C05Example

def exW : WordShape := { offset := 0, lo := 0, hi := 5, stem := 5, pos := none, fin := true }
def exV : WordShape := { offset := 0, lo := 0, hi := 3, stem := 3, pos := none, fin := false }

def exT : Text :=
  { words := [exW], source := [104,101,108,108,111], chars := [104,101,108,108,111],
    classes := [.consonant, .vowel, .consonant, .consonant, .vowel] }

def exQ : Text :=
  { words := [exV], source := [104,101,108], chars := [104,101,108], classes := [.consonant, .vowel, .consonant] }

theorem exT_ok : TextOK exT where
  lens := by decide
  offsets := by decide
  bounds := by decide
  ordered := by intro i h; simp [exT] at h
  stems := by decide

theorem exQ_ok : TextOK exQ where
  lens := by decide
  offsets := by decide
  bounds := by decide
  ordered := by intro i h; simp [exQ] at h
  stems := by decide

example : stretch exQ = 3 := by decide
example : stretch C09Example.exT = 14 := by decide

/-- the hypotheses of `wordMatchOK` / `C05_span_bound` are met by the constants generated from the source and
    the two example texts -/
example : CostsOK Gen.srcConsts = true ∧ ThresholdOK Gen.srcConsts = true ∧ TextOK C09Example.exT ∧ TextOK C09Example.exQ :=
  ⟨costsOK_src, thresholdOK_src, C09Example.exT_ok, C09Example.exQ_ok⟩

example : WordIn exT exW ∧ WordIn exQ exV ∧ 1 ≤ exW.stem ∧ 1 ≤ exV.stem := by simp [WordIn, exT, exQ, exW, exV]

/-- the hypotheses of `C05_exact_prefix_span` -/
example : TextOK exT ∧ TextOK exQ ∧ exT.words = [exW] ∧ exQ.words = [exV] ∧ exV.fin = false ∧
    wchars exQ exV = (wchars exT exW).take exV.len :=
  ⟨exT_ok, exQ_ok, rfl, rfl, rfl, by decide⟩

/-- the gates of `C05_exact_prefix_match` let "hello" / "hel" through … -/
theorem ex_len : lengthCheck Gen.srcConsts exW exV = true := by decide
theorem ex_jac : jaccardCheck Gen.srcConsts exT exW exQ exV = true := by
  simp [jaccardCheck, jaccardSlice, jaccard, jaccardM, wchars, slice, exT, exQ, exW, exV, WordShape.len, natSet,
    natInsert, copyFrom, vecResize, JacState.new, jacMerge, Gen.srcConsts]

/-- … so typing "hel" against the title "hello" highlights exactly "[hel]lo" (a theorem about the model with the
    source's constants, not an evaluation) -/
example : (textMatch Gen.srcConsts exT exQ).1 =
    [{ offset := 0, lo := 0, hi := 5, subLo := 0, subHi := 3, typos := 0, func := false, fin := false }] :=
  C05_exact_prefix_match Gen.srcConsts costsOK_src exT exQ exW exV exT_ok exQ_ok rfl rfl rfl (by decide) (by decide)
    ex_len ex_jac

end C05Example

end Lucid
