/-
  C14b — C14 (split spelling) with NO premise about the tokenizer left: the theorem speaks about the raw typed
  string `a ++ [sep] ++ b`, a title word cut at any point with one separator typed into the cut.

  `Lemmas/StableText2.lean` computes `tokenize_query (a ++ [sep] ++ b)` for `Stable` pieces `a`, `b` and a
  separator `sep` that is lower-case-fixed and occurs in no normalisation pattern; `C14_split_found_tokenized`
  (`C14.lean`) does the rest.
-/
import LucidProofs.C14
import LucidProofs.C03b
import LucidProofs.Lemmas.StableText2

namespace Lucid

theorem append_singleton_append (a : List Nat) (sep : Nat) (b : List Nat) : a ++ [sep] ++ b = a ++ sep :: b := by
  simp

/-- **The tokenised form of a word typed with a separator inside.** For two `Stable` character lists `a`, `b`
    (non-empty, separator-free, letter/digit at both ends, lower-case-fixed, untouched by the language's
    normaliser) and one separator character `sep` that is its own lower-case form and occurs in no key of the
    compose / reduce tables, `tokenize_query (a ++ [sep] ++ b)` has exactly two words: `q0` (finished, characters
    `a`) and `q1` (unfinished, characters `b`), `q1` beginning one position after the end of `q0`; that position
    holds `sep`, with class `classOf E sep`. -/
theorem C14_split_query_shape (E : Env) (a : List Nat) (sep : Nat) (b : List Nat)
    (ha : Stable E a) (hb : Stable E b) (hsepS : isSepChar E.U E.K sep = true) (hlow : E.U.lower1 sep = sep)
    (hsepF : SepFreeTables E.T sep = true) :
    ∃ q0 q1, (tokenizeQuery Gen.srcProg E (a ++ [sep] ++ b)).words = [q0, q1] ∧
      q0.fin = true ∧ q1.fin = false ∧ q1.lo = q0.hi + 1 ∧
      wchars (tokenizeQuery Gen.srcProg E (a ++ [sep] ++ b)) q0 = a ∧
      wchars (tokenizeQuery Gen.srcProg E (a ++ [sep] ++ b)) q1 = b ∧
      (tokenizeQuery Gen.srcProg E (a ++ [sep] ++ b)).chars[q0.hi]? = some sep ∧
      (tokenizeQuery Gen.srcProg E (a ++ [sep] ++ b)).classes[q0.hi]? = some (classOf E sep) := by
  rw [append_singleton_append]
  obtain ⟨q0, q1, h1, h2, h3, _, _, h6, _, _, h9, h10, h11, h12⟩ :=
    tokenizeQuery_split_words E a sep b ha hb hsepS hlow hsepF
  exact ⟨q0, q1, h1, h2, h3, h6, h9, h10, h11, h12⟩

/-- **C14 (split spelling) for the typed string.** What a user learns: in a store (reached from `Store::new` by any
    operations, titles added through `tokenize_record`) holding no more records than its limit, take a record and
    a word `w` of its tokenised title with at least three characters, cut anywhere into two non-empty pieces
    `a`, `b`. If both pieces are `Stable` (automatic for ASCII lower-case letters / digits) and `sep` is a separator
    character (whitespace, control or punctuation) that is its own lower-case form, occurs in no key of the
    language's normalisation tables and has no consonant/vowel class, then **searching for the raw string
    `a ++ [sep] ++ b`** returns the record — in every language, whatever else is stored. -/
theorem C14_split_typed_found (S : Sorter) (hS : SorterOK S) (E : Env)
    (hU : UnicodeFacts E.U E.K) (hT : TablesOK E.T = true) (hSt : StemHyp E)
    (hC : CostsOK E.K = true) (hJ : JoinNumsOK E.K = true) (hK : 1 ≤ E.K.sortFactor) (hP : 1 ≤ E.K.prepFactor)
    (order : List ScoreType) (ops : List StoreOp)
    (hops : ∀ id t rating, StoreOp.add id t rating ∈ ops → ∃ s, t = tokenizeRecord Gen.srcProg E s)
    (hlim : ((Store.new E.K).run S E.K order ops).records.length ≤ ((Store.new E.K).run S E.K order ops).limit)
    (ix : Nat) (r : Record) (hr : ((Store.new E.K).run S E.K order ops).records[ix]? = some r)
    (w : WordShape) (hw : w ∈ r.title.words) (hn : 3 ≤ w.len)
    (a b : List Nat) (hchars : wchars r.title w = a ++ b) (ha : Stable E a) (hb : Stable E b)
    (sep : Nat) (hsepS : isSepChar E.U E.K sep = true) (hlow : E.U.lower1 sep = sep)
    (hsepF : SepFreeTables E.T sep = true) (hsepT : getCharClass E.T sep = none) :
    ∃ res ∈ ((Store.new E.K).run S E.K order ops).search S E.K order (tokenizeQuery Gen.srcProg E (a ++ [sep] ++ b)),
      res.id = r.id ∧
      res = ((Store.new E.K).run S E.K order ops).render
              (scoreHit E.K order (tokenizeQuery Gen.srcProg E (a ++ [sep] ++ b)) r) := by
  obtain ⟨q0, q1, hws, _, _, hadj, hc0, hc1, hsep, _⟩ := C14_split_query_shape E a sep b ha hb hsepS hlow hsepF
  exact C14_split_found_tokenized S hS E hU hT hSt hC hJ hK hP order ops hops hlim ix r hr (a ++ [sep] ++ b) q0 q1
    (by rw [hws]; rfl) (by rw [hws]; rfl) hadj sep hsep hsepT w hw hn (by rw [hc0, hc1, hchars])

/-! ### at the constants generated from the source -/

/-- `C14_split_typed_found` at the generated constants, step lists and score order, in every language. -/
theorem C14_split_typed_found_src (S : Sorter) (hS : SorterOK S)
    (U : Unicode) (T : LangTables) (stem : List Nat → Nat)
    (hU : UnicodeFacts U Gen.srcConsts) (hT : TablesOK T = true) (hSt : StemHyp (Gen.srcProg.env U T stem))
    (ops : List StoreOp)
    (hops : ∀ id t rating, StoreOp.add id t rating ∈ ops →
      ∃ s, t = tokenizeRecord Gen.srcProg (Gen.srcProg.env U T stem) s)
    (hlim : ((Store.new Gen.srcConsts).run S Gen.srcConsts Gen.srcScoreOrder ops).records.length
              ≤ ((Store.new Gen.srcConsts).run S Gen.srcConsts Gen.srcScoreOrder ops).limit)
    (ix : Nat) (r : Record)
    (hr : ((Store.new Gen.srcConsts).run S Gen.srcConsts Gen.srcScoreOrder ops).records[ix]? = some r)
    (w : WordShape) (hw : w ∈ r.title.words) (hn : 3 ≤ w.len)
    (a b : List Nat) (hchars : wchars r.title w = a ++ b)
    (ha : Stable (Gen.srcProg.env U T stem) a) (hb : Stable (Gen.srcProg.env U T stem) b)
    (sep : Nat) (hsepS : isSepChar U Gen.srcConsts sep = true) (hlow : U.lower1 sep = sep)
    (hsepF : SepFreeTables T sep = true) (hsepT : getCharClass T sep = none) :
    ∃ res ∈ ((Store.new Gen.srcConsts).run S Gen.srcConsts Gen.srcScoreOrder ops).search S Gen.srcConsts
        Gen.srcScoreOrder (tokenizeQuery Gen.srcProg (Gen.srcProg.env U T stem) (a ++ [sep] ++ b)),
      res.id = r.id ∧
      res = ((Store.new Gen.srcConsts).run S Gen.srcConsts Gen.srcScoreOrder ops).render
              (scoreHit Gen.srcConsts Gen.srcScoreOrder
                (tokenizeQuery Gen.srcProg (Gen.srcProg.env U T stem) (a ++ [sep] ++ b)) r) :=
  C14_split_typed_found S hS (Gen.srcProg.env U T stem) hU hT hSt costsOK_src joinNumsOK_src
    (show 1 ≤ Gen.srcConsts.sortFactor by decide) (show 1 ≤ Gen.srcConsts.prepFactor by decide) Gen.srcScoreOrder
    ops hops hlim ix r hr w hw hn a b hchars ha hb sep hsepS hlow hsepF hsepT

/-- **C14 (split spelling) for ASCII words and the space bar.** If a title word of at least three characters
    consists of ASCII lower-case letters or digits, typing it with ONE SPACE inserted at any inner position
    (`a ++ [32] ++ b`, both pieces non-empty) returns the record. Needed of the Unicode oracle beyond
    `UnicodeFacts`: the 36 facts of `AsciiFacts` and `SpaceFacts` (U+0020 is whitespace and lower-case-fixed);
    of the language: no pure-ASCII key (`AsciiFreeTables`) and the space in no key and without consonant/vowel
    class (`SpaceFreeTables`; `spaceFree_none` … `spaceFree_ru`: all seven generated languages). -/
theorem C14_split_ascii_found_src (S : Sorter) (hS : SorterOK S)
    (U : Unicode) (T : LangTables) (stem : List Nat → Nat)
    (hU : UnicodeFacts U Gen.srcConsts) (hA : AsciiFacts U) (hSp : SpaceFacts U) (hT : TablesOK T = true)
    (hF : AsciiFreeTables T = true) (hF2 : SpaceFreeTables T = true) (hSt : StemHyp (Gen.srcProg.env U T stem))
    (ops : List StoreOp)
    (hops : ∀ id t rating, StoreOp.add id t rating ∈ ops →
      ∃ s, t = tokenizeRecord Gen.srcProg (Gen.srcProg.env U T stem) s)
    (hlim : ((Store.new Gen.srcConsts).run S Gen.srcConsts Gen.srcScoreOrder ops).records.length
              ≤ ((Store.new Gen.srcConsts).run S Gen.srcConsts Gen.srcScoreOrder ops).limit)
    (ix : Nat) (r : Record)
    (hr : ((Store.new Gen.srcConsts).run S Gen.srcConsts Gen.srcScoreOrder ops).records[ix]? = some r)
    (w : WordShape) (hw : w ∈ r.title.words) (hn : 3 ≤ w.len)
    (a b : List Nat) (hchars : wchars r.title w = a ++ b) (hna : a ≠ []) (hnb : b ≠ [])
    (hascii : AsciiLower (wchars r.title w)) :
    ∃ res ∈ ((Store.new Gen.srcConsts).run S Gen.srcConsts Gen.srcScoreOrder ops).search S Gen.srcConsts
        Gen.srcScoreOrder (tokenizeQuery Gen.srcProg (Gen.srcProg.env U T stem) (a ++ [32] ++ b)),
      res.id = r.id ∧
      res = ((Store.new Gen.srcConsts).run S Gen.srcConsts Gen.srcScoreOrder ops).render
              (scoreHit Gen.srcConsts Gen.srcScoreOrder
                (tokenizeQuery Gen.srcProg (Gen.srcProg.env U T stem) (a ++ [32] ++ b)) r) := by
  simp only [SpaceFreeTables, Bool.and_eq_true, Option.isNone_iff_eq_none] at hF2
  rw [hchars] at hascii
  have haa : AsciiLower a := fun c hc => hascii c (List.mem_append_left _ hc)
  have hab : AsciiLower b := fun c hc => hascii c (List.mem_append_right _ hc)
  exact C14_split_typed_found_src S hS U T stem hU hT hSt ops hops hlim ix r hr w hw hn a b hchars
    (stable_of_asciiLower (Gen.srcProg.env U T stem) rfl hA hF a haa hna)
    (stable_of_asciiLower (Gen.srcProg.env U T stem) rfl hA hF b hab hnb)
    32 (hSp.sep _) hSp.space_lower hF2.1 hF2.2

/-! ### non-vacuity: the store of `C14Example` (title "Abc", English tables, toy oracle); "a bc" and "ab c" -/

namespace C14bExample
open C13Example C14Example

example (a b : List Nat) (hs : (a = [97] ∧ b = [98, 99]) ∨ (a = [97, 98] ∧ b = [99])) :
    ∃ res ∈ ((Store.new Gen.srcConsts).run exSorter Gen.srcConsts Gen.srcScoreOrder exOpsS).search exSorter
        Gen.srcConsts Gen.srcScoreOrder (tokenizeQuery Gen.srcProg exEnvE (a ++ [32] ++ b)), res.id = 7 := by
  have hops : ∀ id t rating, StoreOp.add id t rating ∈ exOpsS → ∃ s, t = tokenizeRecord Gen.srcProg exEnvE s := by
    intro id t rating hm
    simp only [exOpsS, List.mem_cons, StoreOp.add.injEq, List.not_mem_nil, or_false] at hm
    exact ⟨_, hm.2.1⟩
  have key := fun a b hchars hna hnb =>
    C14_split_ascii_found_src exSorter exSorter_ok toyU Gen.lang_en toyStem toyU_facts toyU_asciiFacts
      toyU_spaceFacts tablesOK_en asciiFree_en spaceFree_en (toyStemHyp _ (by decide)) exOpsS hops
      (by decide +kernel) 0
      { ix := 0, id := 7, title := tokenizeRecord Gen.srcProg exEnvE [65, 98, 99], rating := 1 }
      (by decide +kernel)
      { offset := 0, lo := 0, hi := 3, stem := 2, pos := none, fin := true } (by decide +kernel) (by decide)
      a b hchars hna hnb (by decide +kernel)
  rcases hs with ⟨rfl, rfl⟩ | ⟨rfl, rfl⟩
  · obtain ⟨res, h1, h2, _⟩ := key [97] [98, 99] (by decide +kernel) (by decide) (by decide)
    exact ⟨res, h1, h2⟩
  · obtain ⟨res, h1, h2, _⟩ := key [97, 98] [99] (by decide +kernel) (by decide) (by decide)
    exact ⟨res, h1, h2⟩

/-- the shape theorem on "ab cd" -/
example : ∃ q0 q1, (tokenizeQuery Gen.srcProg exEnvE ([97, 98] ++ [32] ++ [99, 100])).words = [q0, q1] ∧
    q0.fin = true ∧ q1.fin = false ∧ q1.lo = q0.hi + 1 := by
  obtain ⟨q0, q1, h1, h2, h3, h4, _⟩ := C14_split_query_shape exEnvE [97, 98] 32 [99, 100]
    (by decide +kernel) (by decide +kernel) (by decide +kernel) (by decide +kernel) (by decide +kernel)
  exact ⟨q0, q1, h1, h2, h3, h4⟩

end C14bExample

end Lucid
