/-
  C16 — the weighted Damerau-Levenshtein distance of `matching/damlev` (`Lucid.distanceM`, the executable
  loops over the reused flat matrix): zero iff equal, symmetric, multiple of 0.5, at most the plain
  Levenshtein distance, at least half the unrestricted Damerau-Levenshtein distance, lowered (never raised)
  by the vowel / non-letter / doubled-letter discounts, independent of earlier calls, and every prefix cell
  holds the distance of those prefixes. Distances are in tenths (0.5 = 5, 1.0 = 10).
  Statements only; the specification `DL.D`, its algebra and the loop refinement live in
  `LucidProofs/Lemmas/Damlev{Spec,Refine}.lean`.

  Hypotheses used below (all about the two words as the distance function sees them, `CWord`):
  * `DL.Aligned w`  : one cost per character (`WordView::chars().len() == classes().len()`);
  * `DL.CostLe w`   : every per-character cost ≤ 1.0;
  * `DL.CostPos w`  : every per-character cost > 0;
  * `DL.CostMul5 w` : every per-character cost is a multiple of 0.5;
  * `DL.MInv m`     : the reused matrix has its shape and sentinels (true of `Mat.new (n+2)` and preserved by
                      every call) — nothing is assumed about the other cells.
  `cword_*` below show that the words built by the word matcher (`Lucid.cword`) meet all of them.
-/
import LucidModel.WordMatch
import LucidProofs.Lemmas.DamlevRefine

namespace Lucid
open DL

/-! ### the words built by the matcher satisfy the hypotheses -/

theorem cword_aligned (K : Consts) (t : Text) (w : WordShape) (ht : t.classes.length = t.chars.length) :
    Aligned (cword K t w) := by
  simp [Aligned, cword, wchars, wclasses, slice, ht]

theorem cword_costLe (K : Consts) (hK : CostsOK K = true) (t : Text) (w : WordShape) : CostLe (cword K t w) := by
  intro x hx
  simp only [cword, List.mem_map] at hx
  obtain ⟨c, _, rfl⟩ := hx
  exact getCost_le K hK c

theorem cword_costPos (K : Consts) (hK : CostsOK K = true) (t : Text) (w : WordShape) : CostPos (cword K t w) := by
  intro x hx
  simp only [cword, List.mem_map] at hx
  obtain ⟨c, _, rfl⟩ := hx
  exact getCost_pos K hK c

theorem cword_costMul5 (K : Consts) (hK : CostsOK K = true) (t : Text) (w : WordShape) : CostMul5 (cword K t w) := by
  intro x hx
  simp only [cword, List.mem_map] at hx
  obtain ⟨c, _, rfl⟩ := hx
  exact getCost_mod5 K hK c

/-! ### a concrete instance used for the non-vacuity examples: "abca" vs "acba" with a vowel discount -/

def exA : CWord := { ch := [97, 98, 99, 97], cost := [5, 10, 10, 5] }
def exB : CWord := { ch := [97, 99, 98, 97], cost := [5, 10, 10, 5] }

theorem exA_ok : Aligned exA ∧ CostLe exA ∧ CostPos exA ∧ CostMul5 exA := by
  unfold Aligned CostLe CostPos CostMul5; decide
theorem exB_ok : Aligned exB ∧ CostLe exB ∧ CostPos exB ∧ CostMul5 exB := by
  unfold Aligned CostLe CostPos CostMul5; decide
theorem exM_ok : MInv (Mat.new (Gen.srcConsts.matCap + 2)) := (MInv_new _).1

-- the loops give 0.5 (one transposition) for this pair, on a small matrix that has to grow first
example : (distanceM Gen.srcConsts (Mat.new 3) exA exB).1 = 5 := by decide +kernel

/-! ### the properties -/

/-- The distance computed by the loops is the recursive specification `DL.D` of the two whole words,
    whatever the reused matrix held before. -/
theorem C16_spec (K : Consts) (m : Mat) (hm : MInv m) (a b : CWord)
    (ha : Aligned a) (hb : Aligned b) (hca : CostLe a) (hcb : CostLe b) :
    (distanceM K m a b).1 = D K a b a.len b.len :=
  (distance_refines K a b ha hb hca hcb m hm).1

/-- The distance between two words is zero exactly when they are the same word. -/
theorem C16_zero_iff_eq (K : Consts) (hK : CostsOK K = true) (m : Mat) (hm : MInv m) (a b : CWord)
    (ha : Aligned a) (hb : Aligned b) (hca : CostLe a) (hcb : CostLe b) (hpa : CostPos a) (hpb : CostPos b) :
    (distanceM K m a b).1 = 0 ↔ a.ch = b.ch := by
  rw [C16_spec K m hm a b ha hb hca hcb,
    D_eq_zero_iff K (KOK_of_CostsOK K hK) a b ha hb hpa hpb a.len b.len (Nat.le_refl _) (Nat.le_refl _)]
  exact prefix_eq_iff a b

theorem C16_zero_iff_eq_src (m : Mat) (hm : MInv m) (a b : CWord)
    (ha : Aligned a) (hb : Aligned b) (hca : CostLe a) (hcb : CostLe b) (hpa : CostPos a) (hpb : CostPos b) :
    (distanceM Gen.srcConsts m a b).1 = 0 ↔ a.ch = b.ch :=
  C16_zero_iff_eq Gen.srcConsts costsOK_src m hm a b ha hb hca hcb hpa hpb

example : (distanceM Gen.srcConsts (Mat.new (Gen.srcConsts.matCap + 2)) exA exB).1 = 0 ↔ exA.ch = exB.ch :=
  C16_zero_iff_eq_src _ exM_ok exA exB exA_ok.1 exB_ok.1 exA_ok.2.1 exB_ok.2.1 exA_ok.2.2.1 exB_ok.2.2.1

/-- The distance is symmetric: comparing `a` with `b` gives the same number as comparing `b` with `a`
    (on any two matrix states). -/
theorem C16_symm (K : Consts) (m m' : Mat) (hm : MInv m) (hm' : MInv m') (a b : CWord)
    (ha : Aligned a) (hb : Aligned b) (hca : CostLe a) (hcb : CostLe b) :
    (distanceM K m a b).1 = (distanceM K m' b a).1 := by
  rw [C16_spec K m hm a b ha hb hca hcb, C16_spec K m' hm' b a hb ha hcb hca]
  exact D_symm K a b a.len b.len

example : (distanceM Gen.srcConsts (Mat.new 22) exA exB).1 = (distanceM Gen.srcConsts (Mat.new 7) exB exA).1 :=
  C16_symm _ _ _ (MInv_new 20).1 (MInv_new 5).1 exA exB exA_ok.1 exB_ok.1 exA_ok.2.1 exB_ok.2.1

/-- The distance is a multiple of 0.5. -/
theorem C16_multiple_of_half (K : Consts) (hK : CostsOK K = true) (m : Mat) (hm : MInv m) (a b : CWord)
    (ha : Aligned a) (hb : Aligned b) (hca : CostLe a) (hcb : CostLe b) (h5a : CostMul5 a) (h5b : CostMul5 b) :
    (distanceM K m a b).1 % 5 = 0 := by
  rw [C16_spec K m hm a b ha hb hca hcb]
  exact D_mod5 K (KOK_of_CostsOK K hK) a b h5a h5b _ _

theorem C16_multiple_of_half_src (m : Mat) (hm : MInv m) (a b : CWord)
    (ha : Aligned a) (hb : Aligned b) (hca : CostLe a) (hcb : CostLe b) (h5a : CostMul5 a) (h5b : CostMul5 b) :
    (distanceM Gen.srcConsts m a b).1 % 5 = 0 :=
  C16_multiple_of_half Gen.srcConsts costsOK_src m hm a b ha hb hca hcb h5a h5b

example : (distanceM Gen.srcConsts (Mat.new (Gen.srcConsts.matCap + 2)) exA exB).1 % 5 = 0 :=
  C16_multiple_of_half_src _ exM_ok exA exB exA_ok.1 exB_ok.1 exA_ok.2.1 exB_ok.2.1 exA_ok.2.2.2 exB_ok.2.2.2

/-- The distance never exceeds the plain (unit-cost, no transposition) Levenshtein distance `DL.lev`
    of the two words. -/
theorem C16_le_levenshtein (K : Consts) (m : Mat) (hm : MInv m) (a b : CWord)
    (ha : Aligned a) (hb : Aligned b) (hca : CostLe a) (hcb : CostLe b) :
    (distanceM K m a b).1 ≤ 10 * lev a.ch b.ch a.len b.len := by
  rw [C16_spec K m hm a b ha hb hca hcb]
  exact D_le_lev K a b hca hcb _ _

example : (distanceM Gen.srcConsts (Mat.new 22) exA exB).1 ≤ 10 * lev exA.ch exB.ch exA.len exB.len :=
  C16_le_levenshtein _ _ (MInv_new 20).1 exA exB exA_ok.1 exB_ok.1 exA_ok.2.1 exB_ok.2.1

/-- The distance is never less than half the unrestricted Damerau-Levenshtein distance `DL.DLunit`
    (unit costs; Lowrance-Wagner recurrence) of the two words. -/
theorem C16_ge_half_damlev (K : Consts) (hK : CostsOK K = true) (m : Mat) (hm : MInv m) (a b : CWord)
    (ha : Aligned a) (hb : Aligned b) (hca : CostLe a) (hcb : CostLe b)
    (hpa : CostPos a) (hpb : CostPos b) (h5a : CostMul5 a) (h5b : CostMul5 b) :
    5 * DLunit a.ch b.ch a.len b.len ≤ (distanceM K m a b).1 := by
  rw [C16_spec K m hm a b ha hb hca hcb]
  exact D_ge_DLunit K (KOK_of_CostsOK K hK) a b ha hb hpa hpb h5a h5b _ _ (Nat.le_refl _) (Nat.le_refl _)

theorem C16_ge_half_damlev_src (m : Mat) (hm : MInv m) (a b : CWord)
    (ha : Aligned a) (hb : Aligned b) (hca : CostLe a) (hcb : CostLe b)
    (hpa : CostPos a) (hpb : CostPos b) (h5a : CostMul5 a) (h5b : CostMul5 b) :
    5 * DLunit a.ch b.ch a.len b.len ≤ (distanceM Gen.srcConsts m a b).1 :=
  C16_ge_half_damlev Gen.srcConsts costsOK_src m hm a b ha hb hca hcb hpa hpb h5a h5b

example : 5 * DLunit exA.ch exB.ch exA.len exB.len ≤
    (distanceM Gen.srcConsts (Mat.new (Gen.srcConsts.matCap + 2)) exA exB).1 :=
  C16_ge_half_damlev_src _ exM_ok exA exB exA_ok.1 exB_ok.1 exA_ok.2.1 exB_ok.2.1 exA_ok.2.2.1 exB_ok.2.2.1
    exA_ok.2.2.2 exB_ok.2.2.2

/-- Discounts can only lower the distance: if the same two character strings are compared with per-character
    costs that are pointwise no larger (vowel, non-letter discounts) and with doubled-letter / single / transposition
    constants that are no larger, the distance is no larger. -/
theorem C16_discounts_lower (K K' : Consts) (m m' : Mat) (hm : MInv m) (hm' : MInv m') (a a' b b' : CWord)
    (ha : Aligned a) (hb : Aligned b) (hca : CostLe a) (hcb : CostLe b)
    (ha' : Aligned a') (hb' : Aligned b') (hca' : CostLe a') (hcb' : CostLe b')
    (hcha : a.ch = a'.ch) (hchb : b.ch = b'.ch)
    (hka : ∀ i, a.k i ≤ a'.k i) (hkb : ∀ j, b.k j ≤ b'.k j)
    (hT : K.costTrans ≤ K'.costTrans) (hD : K.costDouble ≤ K'.costDouble) (hS : K.costSingle ≤ K'.costSingle) :
    (distanceM K m a b).1 ≤ (distanceM K' m' a' b').1 := by
  rw [C16_spec K m hm a b ha hb hca hcb, C16_spec K' m' hm' a' b' ha' hb' hca' hcb']
  have e1 : a.len = a'.len := by simp [CWord.len, hcha]
  have e2 : b.len = b'.len := by simp [CWord.len, hchb]
  rw [e1, e2]
  exact D_mono K K' a a' b b' hcha hchb hka hkb hT hD hS _ _

/-- the word with every per-character cost set to the full 1.0 (no vowel / non-letter discount) -/
def plainWord (w : CWord) : CWord := { ch := w.ch, cost := w.ch.map (fun _ => 10) }
/-- the constants without the doubled-letter discount -/
def noDouble (K : Consts) : Consts := { K with costDouble := K.costSingle }

theorem plainWord_ok (w : CWord) : Aligned (plainWord w) ∧ CostLe (plainWord w) := by
  refine ⟨by simp [Aligned, plainWord], ?_⟩
  intro x hx
  simp only [plainWord, List.mem_map] at hx
  obtain ⟨_, _, rfl⟩ := hx
  exact Nat.le_refl _

theorem k_le_plain (w : CWord) (ha : Aligned w) (hc : CostLe w) (i : Nat) : w.k i ≤ (plainWord w).k i := by
  by_cases hi : i < w.ch.length
  · have : (plainWord w).k i = 10 := by simp [plainWord, CWord.k, List.getD, hi]
    rw [this]; exact k_le w hc i
  · have : w.k i = 0 := by
      unfold Aligned at ha
      simp [CWord.k, List.getD, Nat.not_lt.mp (ha ▸ hi)]
    omega

/-- The distance with the vowel, non-letter and doubled-letter discounts is never larger than the distance
    of the same two words without any discount (every character at 1.0, doubled letters at the single price). -/
theorem C16_discounted_le_plain (K : Consts) (hK : CostsOK K = true) (m m' : Mat) (hm : MInv m) (hm' : MInv m')
    (a b : CWord) (ha : Aligned a) (hb : Aligned b) (hca : CostLe a) (hcb : CostLe b) :
    (distanceM K m a b).1 ≤ (distanceM (noDouble K) m' (plainWord a) (plainWord b)).1 := by
  have hk := KOK_of_CostsOK K hK
  exact C16_discounts_lower K (noDouble K) m m' hm hm' a (plainWord a) b (plainWord b) ha hb hca hcb
    (plainWord_ok a).1 (plainWord_ok b).1 (plainWord_ok a).2 (plainWord_ok b).2 rfl rfl
    (k_le_plain a ha hca) (k_le_plain b hb hcb) (Nat.le_refl _)
    (by show K.costDouble ≤ K.costSingle; rw [hk.double, hk.single]; omega) (Nat.le_refl _)

theorem C16_discounted_le_plain_src (m m' : Mat) (hm : MInv m) (hm' : MInv m')
    (a b : CWord) (ha : Aligned a) (hb : Aligned b) (hca : CostLe a) (hcb : CostLe b) :
    (distanceM Gen.srcConsts m a b).1 ≤ (distanceM (noDouble Gen.srcConsts) m' (plainWord a) (plainWord b)).1 :=
  C16_discounted_le_plain Gen.srcConsts costsOK_src m m' hm hm' a b ha hb hca hcb

example : (distanceM Gen.srcConsts (Mat.new 22) exA exB).1 ≤
    (distanceM (noDouble Gen.srcConsts) (Mat.new 22) (plainWord exA) (plainWord exB)).1 :=
  C16_discounted_le_plain_src _ _ (MInv_new 20).1 (MInv_new 20).1 exA exB exA_ok.1 exB_ok.1 exA_ok.2.1 exB_ok.2.1

/-- The distance depends only on the two words and their per-character costs, not on the state of the
    reused matrix: any two admissible matrix states give the same result. -/
theorem C16_matrix_independent (K : Consts) (m m' : Mat) (hm : MInv m) (hm' : MInv m') (a b : CWord)
    (ha : Aligned a) (hb : Aligned b) (hca : CostLe a) (hcb : CostLe b) :
    (distanceM K m a b).1 = (distanceM K m' a b).1 := by
  rw [C16_spec K m hm a b ha hb hca hcb, C16_spec K m' hm' a b ha hb hca hcb]

/-- The bound `CostLe` (per-character costs ≤ 1.0) is what keeps the sentinel row/column (`size as f64`) from ever
    being the minimum; it always holds for the source's `get_cost` (`cword_costLe`). Without it the result would
    depend on the matrix dimension, hence on earlier calls: -/
example : (distanceM Gen.srcConsts (Mat.new 3) ⟨[1], [1000]⟩ ⟨[2], [1000]⟩).1 ≠
    (distanceM Gen.srcConsts (Mat.new 22) ⟨[1], [1000]⟩ ⟨[2], [1000]⟩).1 := by decide +kernel

/-- History independence: in any sequence of calls on the matrix the library creates
    (`DistMatrix::new(DEFAULT_CAPACITY + 2)`), each call returns exactly what it would return as the very
    first call on a fresh matrix — the result does not depend on what was compared before
    (including calls that grew the matrix). -/
theorem C16_history_independent (K : Consts) (calls : List (CWord × CWord)) (hc : CallsOK calls) :
    (runCalls K (Mat.new (K.matCap + 2)) calls).1 =
      calls.map (fun p => (distanceM K (Mat.new (K.matCap + 2)) p.1 p.2).1) := by
  rw [(runCalls_spec K calls hc _ (MInv_new _).1).1]
  apply List.map_congr_left
  intro p hp
  obtain ⟨ha, hb, hca, hcb⟩ := hc p hp
  exact (C16_spec K _ (MInv_new _).1 p.1 p.2 ha hb hca hcb).symm

example : CallsOK [(exA, exB), (exB, exB), (plainWord exA, exA)] := by
  intro p hp
  simp only [List.mem_cons, List.not_mem_nil, or_false] at hp
  rcases hp with rfl | rfl | rfl
  · exact ⟨exA_ok.1, exB_ok.1, exA_ok.2.1, exB_ok.2.1⟩
  · exact ⟨exB_ok.1, exB_ok.1, exB_ok.2.1, exB_ok.2.1⟩
  · exact ⟨(plainWord_ok exA).1, exA_ok.1, (plainWord_ok exA).2, exA_ok.2.1⟩

theorem pre_ok (w : CWord) (n : Nat) (ha : Aligned w) (hc : CostLe w) : Aligned (pre w n) ∧ CostLe (pre w n) := by
  unfold Aligned at ha
  refine ⟨by simp [Aligned, pre, ha], ?_⟩
  intro x hx
  exact hc x (List.mem_of_mem_take hx)

/-- Prefix cells: after a call, the matrix cell `(i+1, j+1)` (the value the word matcher reads for the prefixes
    of lengths `i` and `j`) equals the distance of those two prefixes computed on their own, on any matrix. -/
theorem C16_prefix_cells (K : Consts) (m m' : Mat) (hm : MInv m) (hm' : MInv m') (a b : CWord)
    (ha : Aligned a) (hb : Aligned b) (hca : CostLe a) (hcb : CostLe b)
    (i j : Nat) (hi : i ≤ a.len) (hj : j ≤ b.len) :
    (distanceM K m a b).2.get (i + 1) (j + 1) = (distanceM K m' (pre a i) (pre b j)).1 := by
  rw [(distance_refines K a b ha hb hca hcb m hm).2.2.1 i j hi hj,
    C16_spec K m' hm' (pre a i) (pre b j) (pre_ok a i ha hca).1 (pre_ok b j hb hcb).1
      (pre_ok a i ha hca).2 (pre_ok b j hb hcb).2,
    pre_len a i hi, pre_len b j hj]
  exact D_pre K a b i j

example : (distanceM Gen.srcConsts (Mat.new 22) exA exB).2.get 3 4 =
    (distanceM Gen.srcConsts (Mat.new 9) (pre exA 2) (pre exB 3)).1 :=
  C16_prefix_cells _ _ _ (MInv_new 20).1 (MInv_new 7).1 exA exB exA_ok.1 exB_ok.1 exA_ok.2.1 exB_ok.2.1 2 3
    (by decide) (by decide)

/-- Every call leaves the matrix in a state the next call may start from. -/
theorem C16_matrix_reusable (K : Consts) (m : Mat) (hm : MInv m) (a b : CWord)
    (ha : Aligned a) (hb : Aligned b) (hca : CostLe a) (hcb : CostLe b) :
    MInv (distanceM K m a b).2 :=
  (distance_refines K a b ha hb hca hcb m hm).2.1

end Lucid
