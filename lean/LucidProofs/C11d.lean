/-
  C11d — the decomposition clauses of C11 against UNICODE's canonical decomposition.

  "… writing [the query's] accented letters in decomposed instead of precomposed form … never changes the hit list
  or the highlighted titles.  Storing a title in decomposed form gives the same hits and the same returned titles
  as storing it precomposed."  (letters restricted, per language, to that language's own accent inventory)

  C11b/C11c prove these clauses with "decomposed form" read off the language's own compose table
  (`decompAt T.compose s mask`: the key of the first table entry producing the letter).  A table that composed
  `I` + U+0308 to `Î` instead of `Ï` would satisfy those theorems, because its inverse changes with it.  Here
  "decomposed form" is fixed by an independent reference, `Lucid.Gen.canonPairs` (generated from Python's
  `unicodedata`, not from the repository):

      uniDecompAt T s mask  =  `s` with every letter at a position selected by `mask` that belongs to the
                               accent inventory of `T` (`inInventory`: produced by a compose entry or folded by
                               a reduce entry) replaced by Unicode's canonical decomposition `[base, mark]`
                               (`canonDecomp`); all other characters left alone.

  WHAT THE TABLES MUST SATISFY in addition to `ComposeClosed` (both decidable, kernel-checked for all seven
  generated languages in `Lemmas/Canon.lean`, so the `_src`/`_std` forms carry no table hypothesis):
    * `ComposeCanonical`  : every compose entry is `([base, mark], [composed])` with `(composed, base, mark)` in
                            the reference table — the seeded table `I`+U+0308 ↦ `Î` FAILS this
                            (`C11_noncanonical_table_rejected` below);
    * `InventoryComposed` : every single-letter reduce key with a canonical decomposition is produced by some
                            compose entry — a table that forgot to compose a letter it folds FAILS this.
  Under them `decompAt T.compose = uniDecompAt T` (`decompAt_eq_uni`), and every theorem below is the
  corresponding C11b/C11c theorem rewritten with that equation.
-/
import LucidProofs.Lemmas.Canon
import LucidProofs.C11b
import LucidProofs.C11c

namespace Lucid
open Gen

/-! ### 0. the inventory, explicitly -/

/-- For every generated language: if `c` is a letter of the language's accent inventory and Unicode decomposes
    it canonically into `base`, `mark`, then the language's `compose` maps the two-scalar string `base mark`
    back to exactly the one letter `c`. No side condition. -/
theorem C11_unicode_decomposition_of_inventory_letter {name : String} {T : LangTables}
    (hT : (name, T) ∈ srcLangs) {c a k : Nat} (hin : inInventory T c = true)
    (hd : canonDecomp c = some (a, k)) : compose T [a, k] = [c] :=
  composeWith_canon_pair (variantTablesOK_of_src hT).1 (composeCanonical_src name T hT)
    (inventoryComposed_src name T hT) hin hd

/-- the same for arbitrary tables under the three named table conditions -/
theorem C11_unicode_decomposition_of_inventory_letter_gen (T : LangTables)
    (hC : ComposeClosed T.compose = true) (hCC : ComposeCanonical T.compose = true)
    (hIC : InventoryComposed T = true) {c a k : Nat} (hin : inInventory T c = true)
    (hd : canonDecomp c = some (a, k)) : compose T [a, k] = [c] :=
  composeWith_canon_pair hC hCC hIC hin hd

/-- What `uniDecompAt` does at one selected position, spelled out: an inventory letter `c` with canonical
    decomposition `(a, k)` becomes `a k`; a character outside the inventory, or without a canonical
    decomposition, stays. -/
theorem C11_uniDecompChar_spec (T : LangTables) (c : Nat) :
    (∀ a k, inInventory T c = true → canonDecomp c = some (a, k) → uniDecompChar T c = [a, k]) ∧
    (inInventory T c = false → uniDecompChar T c = [c]) ∧
    (canonDecomp c = none → uniDecompChar T c = [c]) := by
  refine ⟨fun a k h1 h2 => ?_, fun h => ?_, fun h => ?_⟩
  · simp only [uniDecompChar, h1, h2, if_true]
  · simp only [uniDecompChar, h, Bool.false_eq_true, if_false]
  · unfold uniDecompChar; rw [h]; split <;> rfl

/-- the seeded change (French `I` + U+0308 composed to `Î` U+00CE instead of `Ï` U+00CF) is rejected by
    `ComposeCanonical`, as is a key that is not a canonical pair at all -/
theorem C11_noncanonical_table_rejected :
    ComposeCanonical [([73, 776], [206])] = false ∧ ComposeCanonical [([73, 776], [207])] = true ∧
    ComposeCanonical [([115, 115], [223])] = false := by
  refine ⟨by decide +kernel, by decide +kernel, by decide +kernel⟩

/-- a table that folds `ï` but does not compose it is rejected by `InventoryComposed` -/
example : InventoryComposed { lang_none with reduce := [([239], [105])] } = false := by decide +kernel

/-! ### 4. decomposed titles -/

/-- Storing a title with any subset of its accented inventory letters written in Unicode's canonical
    decomposition (base letter followed by the combining mark) produces exactly the same record text — words,
    characters, classes and the `source` that is highlighted and returned — as storing it precomposed.
    Hypotheses: the compose table is `ComposeClosed`, composes canonical pairs only (`ComposeCanonical`) and
    covers the decomposable letters the language folds (`InventoryComposed`); the precomposed title has no
    free-standing combining marks. -/
theorem C11_title_unicode_decomposed (E : Env) (hC : ComposeClosed E.T.compose = true)
    (hCC : ComposeCanonical E.T.compose = true) (hIC : InventoryComposed E.T = true) (s : List Nat)
    (hs : MarkFree E.T.compose s) (mask : List Bool) :
    tokenizeRecord srcProg E (uniDecompAt E.T s mask) = tokenizeRecord srcProg E s := by
  rw [← decompAt_eq_uni E.T hCC hIC]
  exact C11_title_decomposed E hC s hs mask

/-- The same for every language of the generated registry list: no hypothesis on the tables is left (any
    character oracle, any stemmer). -/
theorem C11_title_unicode_decomposed_src (E : Env) {name : String} (hT : (name, E.T) ∈ srcLangs) (s : List Nat)
    (hs : MarkFree E.T.compose s) (mask : List Bool) :
    tokenizeRecord srcProg E (uniDecompAt E.T s mask) = tokenizeRecord srcProg E s :=
  C11_title_unicode_decomposed E (variantTablesOK_of_src hT).1 (composeCanonical_src name E.T hT)
    (inventoryComposed_src name E.T hT) s hs mask

/-- Hence the store after `add` is the same store, and every later search returns the same ids and the same
    highlighted titles (any sorter, constants, score order, query). -/
theorem C11_title_unicode_decomposed_store (E : Env) (hC : ComposeClosed E.T.compose = true)
    (hCC : ComposeCanonical E.T.compose = true) (hIC : InventoryComposed E.T = true) (s : List Nat)
    (hs : MarkFree E.T.compose s) (mask : List Bool) (st : Store) (id rating : Nat) :
    st.add id (tokenizeRecord srcProg E (uniDecompAt E.T s mask)) rating =
      st.add id (tokenizeRecord srcProg E s) rating ∧
    ∀ (S : Sorter) (K : Consts) (order : List ScoreType) (q : Text),
      (st.add id (tokenizeRecord srcProg E (uniDecompAt E.T s mask)) rating).searchM S K order q =
        (st.add id (tokenizeRecord srcProg E s) rating).searchM S K order q := by
  rw [C11_title_unicode_decomposed E hC hCC hIC s hs mask]
  exact ⟨rfl, fun _ _ _ _ => rfl⟩

/-- the store statement for every generated language, no table hypothesis -/
theorem C11_title_unicode_decomposed_store_src (E : Env) {name : String} (hT : (name, E.T) ∈ srcLangs)
    (s : List Nat) (hs : MarkFree E.T.compose s) (mask : List Bool) (st : Store) (id rating : Nat) :
    st.add id (tokenizeRecord srcProg E (uniDecompAt E.T s mask)) rating =
      st.add id (tokenizeRecord srcProg E s) rating ∧
    ∀ (S : Sorter) (K : Consts) (order : List ScoreType) (q : Text),
      (st.add id (tokenizeRecord srcProg E (uniDecompAt E.T s mask)) rating).searchM S K order q =
        (st.add id (tokenizeRecord srcProg E s) rating).searchM S K order q :=
  C11_title_unicode_decomposed_store E (variantTablesOK_of_src hT).1 (composeCanonical_src name E.T hT)
    (inventoryComposed_src name E.T hT) s hs mask st id rating

/-- Library level: `add_record` with the canonically decomposed title leaves the registry (all stores, all
    pending results) in exactly the state `add_record` with the precomposed title leaves it in. `T` are the
    tables of the language the store `id` was created with; if there is no such store both calls are the same
    no-op. -/
theorem C11_title_unicode_decomposed_registry (S : Sorter) (envs : Nat → Env) (g : Registry)
    (id recId rating : Nat) (s : List Nat) (mask : List Bool) (T : LangTables)
    (h : ∀ lang st, amGet g.stores id = some (lang, st) →
      (envs lang).T = T ∧ ComposeClosed T.compose = true ∧ ComposeCanonical T.compose = true ∧
        InventoryComposed T = true ∧ MarkFree T.compose s) :
    Registry.step S srcProg envs g (.addRecord id recId (uniDecompAt T s mask) rating) =
      Registry.step S srcProg envs g (.addRecord id recId s rating) := by
  apply step_addRecord_congr
  intro lang st hg
  obtain ⟨hm, hC, hCC, hIC, hs⟩ := h lang st hg
  subst hm
  exact C11_title_unicode_decomposed (envs lang) hC hCC hIC s hs mask

/-- library level, every generated language: the only hypotheses left are that the store uses the tables `T`
    of a generated language and that the precomposed title has no free-standing combining marks -/
theorem C11_title_unicode_decomposed_registry_src (S : Sorter) (envs : Nat → Env) (g : Registry)
    (id recId rating : Nat) (s : List Nat) (mask : List Bool) {name : String} {T : LangTables}
    (hT : (name, T) ∈ srcLangs) (hs : MarkFree T.compose s)
    (h : ∀ lang st, amGet g.stores id = some (lang, st) → (envs lang).T = T) :
    Registry.step S srcProg envs g (.addRecord id recId (uniDecompAt T s mask) rating) =
      Registry.step S srcProg envs g (.addRecord id recId s rating) :=
  C11_title_unicode_decomposed_registry S envs g id recId rating s mask T
    (fun lang st hg => ⟨h lang st hg, (variantTablesOK_of_src hT).1, composeCanonical_src name T hT,
      inventoryComposed_src name T hT, hs⟩)

/-- real Unicode tables of Rust's `std`, each generated language, any stemmer -/
theorem C11_title_unicode_decomposed_std {name : String} {T : LangTables} (hT : (name, T) ∈ srcLangs)
    (stem : List Nat → Nat) (s : List Nat) (hs : MarkFree T.compose s) (mask : List Bool) :
    tokenizeRecord srcProg (stdEnv T stem) (uniDecompAt T s mask) = tokenizeRecord srcProg (stdEnv T stem) s :=
  C11_title_unicode_decomposed_src (stdEnv T stem) (name := name) hT s hs mask

/-! ### 2. decomposed query -/

/-- Writing any subset of the accented inventory letters of a query in Unicode's canonical decomposition gives
    exactly the same tokenised query (so `source` too). Hypotheses: `ComposeClosed`, `ComposeCanonical`,
    `InventoryComposed` tables; precomposed query without free-standing combining marks. -/
theorem C11_unicode_decompose_variant (E : Env) (hC : ComposeClosed E.T.compose = true)
    (hCC : ComposeCanonical E.T.compose = true) (hIC : InventoryComposed E.T = true) (s : List Nat)
    (hs : MarkFree E.T.compose s) (mask : List Bool) :
    tokenizeQuery srcProg E (uniDecompAt E.T s mask) = tokenizeQuery srcProg E s := by
  rw [← decompAt_eq_uni E.T hCC hIC]
  exact C11_decompose_variant E hC s hs mask

/-- every language of the generated registry list: no table hypothesis left -/
theorem C11_unicode_decompose_variant_src (E : Env) {name : String} (hT : (name, E.T) ∈ srcLangs) (s : List Nat)
    (hs : MarkFree E.T.compose s) (mask : List Bool) :
    tokenizeQuery srcProg E (uniDecompAt E.T s mask) = tokenizeQuery srcProg E s :=
  C11_unicode_decompose_variant E (variantTablesOK_of_src hT).1 (composeCanonical_src name E.T hT)
    (inventoryComposed_src name E.T hT) s hs mask

/-- Hence the same hit list, the same highlighted titles and the same store after the call — for every sorting
    oracle (the tokenised queries are equal, no naturality needed). -/
theorem C11_unicode_decompose_search (S : Sorter) (E : Env) (K : Consts) (order : List ScoreType) (st : Store)
    (hC : ComposeClosed E.T.compose = true) (hCC : ComposeCanonical E.T.compose = true)
    (hIC : InventoryComposed E.T = true) (s : List Nat) (hs : MarkFree E.T.compose s) (mask : List Bool) :
    st.searchM S K order (tokenizeQuery srcProg E (uniDecompAt E.T s mask)) =
      st.searchM S K order (tokenizeQuery srcProg E s) := by
  rw [C11_unicode_decompose_variant E hC hCC hIC s hs mask]

/-- the same for every generated language, no table hypothesis -/
theorem C11_unicode_decompose_search_src (S : Sorter) (E : Env) (K : Consts) (order : List ScoreType)
    (st : Store) {name : String} (hT : (name, E.T) ∈ srcLangs) (s : List Nat) (hs : MarkFree E.T.compose s)
    (mask : List Bool) :
    st.searchM S K order (tokenizeQuery srcProg E (uniDecompAt E.T s mask)) =
      st.searchM S K order (tokenizeQuery srcProg E s) := by
  rw [C11_unicode_decompose_variant_src E hT s hs mask]

/-- library level: `search` with the canonically decomposed query leaves the registry exactly as `search` with
    the precomposed one does -/
theorem C11_unicode_decompose_registry (S : Sorter) (envs : Nat → Env) (g : Registry) (id : Nat)
    (s : List Nat) (mask : List Bool) (T : LangTables)
    (h : ∀ lang st, amGet g.stores id = some (lang, st) →
      (envs lang).T = T ∧ ComposeClosed T.compose = true ∧ ComposeCanonical T.compose = true ∧
        InventoryComposed T = true ∧ MarkFree T.compose s) :
    Registry.step S srcProg envs g (.runSearch id (uniDecompAt T s mask)) =
      Registry.step S srcProg envs g (.runSearch id s) := by
  apply step_runSearch_congr
  intro lang st hg
  obtain ⟨hm, hC, hCC, hIC, hs⟩ := h lang st hg
  subst hm
  exact C11_unicode_decompose_search S (envs lang) _ _ st hC hCC hIC s hs mask

/-- library level, every generated language -/
theorem C11_unicode_decompose_registry_src (S : Sorter) (envs : Nat → Env) (g : Registry) (id : Nat)
    (s : List Nat) (mask : List Bool) {name : String} {T : LangTables} (hT : (name, T) ∈ srcLangs)
    (hs : MarkFree T.compose s)
    (h : ∀ lang st, amGet g.stores id = some (lang, st) → (envs lang).T = T) :
    Registry.step S srcProg envs g (.runSearch id (uniDecompAt T s mask)) =
      Registry.step S srcProg envs g (.runSearch id s) :=
  C11_unicode_decompose_registry S envs g id s mask T
    (fun lang st hg => ⟨h lang st hg, (variantTablesOK_of_src hT).1, composeCanonical_src name T hT,
      inventoryComposed_src name T hT, hs⟩)

/-- real Unicode tables of Rust's `std`, each generated language, any stemmer -/
theorem C11_unicode_decompose_variant_std {name : String} {T : LangTables} (hT : (name, T) ∈ srcLangs)
    (stem : List Nat → Nat) (s : List Nat) (hs : MarkFree T.compose s) (mask : List Bool) :
    tokenizeQuery srcProg (stdEnv T stem) (uniDecompAt T s mask) = tokenizeQuery srcProg (stdEnv T stem) s :=
  C11_unicode_decompose_variant_src (stdEnv T stem) (name := name) hT s hs mask

/-- … and the two spellings search alike in every store, for every sorter -/
theorem C11_unicode_decompose_search_std (S : Sorter) {name : String} {T : LangTables} (hT : (name, T) ∈ srcLangs)
    (stem : List Nat → Nat) (st : Store) (s : List Nat) (hs : MarkFree T.compose s) (mask : List Bool) :
    st.searchM S srcConsts srcScoreOrder (tokenizeQuery srcProg (stdEnv T stem) (uniDecompAt T s mask)) =
      st.searchM S srcConsts srcScoreOrder (tokenizeQuery srcProg (stdEnv T stem) s) := by
  rw [C11_unicode_decompose_variant_std hT stem s hs mask]

/-! ### combined variants (fold, re-case, then decompose canonically), real Unicode tables -/

/-- **C11, combined variants, Unicode's decomposition, real tables, each generated language.** For a mark-free
    query `s`, any fold mask, any mark-free re-casing `s'` of the folded string and any subset `dmask` of the
    letters of `s'` written in Unicode's canonical decomposition, the tokenised queries agree up to `source`.
    No hypothesis about the tables or about Unicode is left. -/
theorem C11_unicode_combined_variant_std {name : String} {T : LangTables} (hT : (name, T) ∈ srcLangs)
    (stem : List Nat → Nat) (s : List Nat) (hs : MarkFree T.compose s) (fmask dmask : List Bool)
    (s' : List Nat) (hs' : MarkFree T.compose s')
    (hcase : s'.map srcUnicode.lower1 = (foldAt T.reduce s fmask).map srcUnicode.lower1) :
    (tokenizeQuery srcProg (stdEnv T stem) (uniDecompAt T s' dmask)).sameUpToSource
      (tokenizeQuery srcProg (stdEnv T stem) s) := by
  rw [← decompAt_eq_uni_src hT]
  exact C11_combined_variant_std hT stem s hs fmask dmask s' hs' hcase

/-- … and they search alike in every store: same ids, same highlighted titles, same store afterwards
    (`SorterNatural` is the only hypothesis left). -/
theorem C11_unicode_combined_search_std {S : Sorter} (hS : SorterNatural S) {name : String} {T : LangTables}
    (hT : (name, T) ∈ srcLangs) (stem : List Nat → Nat) (st : Store)
    (s : List Nat) (hs : MarkFree T.compose s) (fmask dmask : List Bool)
    (s' : List Nat) (hs' : MarkFree T.compose s')
    (hcase : s'.map srcUnicode.lower1 = (foldAt T.reduce s fmask).map srcUnicode.lower1) :
    st.searchM S srcConsts srcScoreOrder (tokenizeQuery srcProg (stdEnv T stem) (uniDecompAt T s' dmask)) =
      st.searchM S srcConsts srcScoreOrder (tokenizeQuery srcProg (stdEnv T stem) s) := by
  rw [← decompAt_eq_uni_src hT]
  exact C11_combined_search_std hS hT stem st s hs fmask dmask s' hs' hcase

/-! ### non-vacuity -/

section Examples

/-- French `MAÏS` with the `Ï` (U+00CF) decomposed canonically: `I` + U+0308 — NOT `Î`'s circumflex -/
example : MarkFree lang_fr.compose [77, 65, 207, 83] ∧ inInventory lang_fr 207 = true ∧
    canonDecomp 207 = some (73, 776) ∧
    uniDecompAt lang_fr [77, 65, 207, 83] [false, false, true] = [77, 65, 73, 776, 83] :=
  ⟨by decide, by decide, by decide +kernel, by decide +kernel⟩

/-- … both spellings give the same record text, whose `source` is the precomposed `MAÏS` -/
example : tokenizeRecord srcProg (toyEnv lang_fr) [77, 65, 73, 776, 83] =
      tokenizeRecord srcProg (toyEnv lang_fr) [77, 65, 207, 83] ∧
    (tokenizeRecord srcProg (toyEnv lang_fr) [77, 65, 73, 776, 83]).source = [77, 65, 207, 83] :=
  ⟨(show uniDecompAt lang_fr [77, 65, 207, 83] [false, false, true] = [77, 65, 73, 776, 83] by decide +kernel) ▸
      C11_title_unicode_decomposed_src (toyEnv lang_fr) (name := "fr")
        (.tail _ (.tail _ (.tail _ (.tail _ (.head _))))) [77, 65, 207, 83] (by decide) [false, false, true],
   by decide +kernel⟩

/-- … and `compose` maps the canonical pair of the inventory letter `Ï` back to `Ï` -/
example : compose lang_fr [73, 776] = [207] :=
  C11_unicode_decomposition_of_inventory_letter (name := "fr") (.tail _ (.tail _ (.tail _ (.tail _ (.head _)))))
    (by decide) (by decide +kernel)

/-- Portuguese `AÇÃO` with `Ç` and `Ã` decomposed: `C` + U+0327, `A` + U+0303 -/
example : MarkFree lang_pt.compose [65, 199, 195, 79] ∧
    uniDecompAt lang_pt [65, 199, 195, 79] [false, true, true] = [65, 67, 807, 65, 771, 79] ∧
    tokenizeQuery srcProg (toyEnv lang_pt) (uniDecompAt lang_pt [65, 199, 195, 79] [false, true, true]) =
      tokenizeQuery srcProg (toyEnv lang_pt) [65, 199, 195, 79] :=
  ⟨by decide, by decide +kernel,
   C11_unicode_decompose_variant_src (toyEnv lang_pt) (name := "pt")
     (.tail _ (.tail _ (.tail _ (.tail _ (.tail _ (.head _)))))) [65, 199, 195, 79] (by decide) [false, true, true]⟩

/-- Spanish `niño`, real `std` tables, any stemmer, any store, any sorter: the query typed with `n` + U+0303
    searches exactly like the precomposed one -/
example (S : Sorter) (st : Store) (stem : List Nat → Nat) :
    uniDecompAt lang_es [110, 105, 241, 111] [false, false, true] = [110, 105, 110, 771, 111] ∧
    st.searchM S srcConsts srcScoreOrder
        (tokenizeQuery srcProg (stdEnv lang_es stem) (uniDecompAt lang_es [110, 105, 241, 111] [false, false, true])) =
      st.searchM S srcConsts srcScoreOrder (tokenizeQuery srcProg (stdEnv lang_es stem) [110, 105, 241, 111]) :=
  ⟨by decide +kernel,
   C11_unicode_decompose_search_std S (name := "es") (.tail _ (.tail _ (.tail _ (.head _)))) stem st
     [110, 105, 241, 111] (by decide) [false, false, true]⟩

/-- a NON-inventory letter is left alone: `é` (U+00E9) has a canonical decomposition but is not in the German
    inventory, so it is not touched; `ü` (U+00FC) is, and becomes `u` + U+0308 -/
example : canonDecomp 233 = some (101, 769) ∧ inInventory lang_de 233 = false ∧
    uniDecompChar lang_de 233 = [233] ∧ uniDecompChar lang_de 252 = [117, 776] :=
  ⟨by decide +kernel, by decide, by decide +kernel, by decide +kernel⟩

/-- an inventory letter WITHOUT a canonical decomposition is left alone too: German `ß` (folded to `ss`) -/
example : inInventory lang_de 223 = true ∧ canonDecomp 223 = none ∧ uniDecompChar lang_de 223 = [223] :=
  ⟨by decide, by decide +kernel, by decide +kernel⟩

end Examples

end Lucid
