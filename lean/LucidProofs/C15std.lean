/-
  C15std — the property theorems WITHOUT any Unicode hypothesis: instantiations at the real tables of Rust's
  `std` (`Gen.srcUnicode`, generated from a dump of `char::is_alphabetic`, `is_numeric`, `is_whitespace`,
  `is_control`, `is_uppercase`, `to_lowercase` over all scalars) of the theorems that assume `UnicodeFacts`,
  `AsciiFacts`, `SepLowerOn`, `CaseClosedOn`. These hypotheses are theorems for the real tables
  (`Lemmas/UnicodeSrc.lean`: `unicodeFacts_src`, `asciiFacts_src`, `sepLowerOn_src`, `caseClosedOn_src`), proved
  by kernel computation. What remains assumed: the Snowball bound `StemHyp` (third-party stemmers; nothing for
  `lang_none`) and the sorter contract (`SorterOK` / `SorterNatural`).

  The environment is `Gen.srcProg.env Gen.srcUnicode T stem`: generated constants and step lists, the real
  Unicode oracle, a language table `T` with `TablesOK T` (a kernel-checked fact for each of the seven generated
  languages, `tablesOK_of_srcLangs`), any stemmer.
-/
import LucidProofs.C01
import LucidProofs.C03b
import LucidProofs.C11b
import LucidProofs.Lemmas.UnicodeSrc
import LucidProofs.Lemmas.UnicodeSrc2

namespace Lucid
open Gen

/-- the environment of the generated program with the real Unicode tables -/
abbrev stdEnv (T : LangTables) (stem : List Nat → Nat) : Env := srcProg.env srcUnicode T stem

theorem tablesOK_of_srcLangs {name : String} {T : LangTables} (h : (name, T) ∈ srcLangs) : TablesOK T = true := by
  have hall : srcLangs.all (fun p => TablesOK p.2) = true := by decide
  exact List.all_eq_true.1 hall _ h

/-! ### C15 -/

/-- **C15 for `tokenize_query`, real Unicode tables.** Whatever text is typed, in every language whose tables meet
    `TablesOK` (all seven generated ones), the tokenised query satisfies every clause of `TokInv` with the
    character predicates of Rust's `std` as dumped: arrays of one length; words numbered 0,1,2,…, non-empty, in
    bounds, ordered, disjoint; each begins and ends with a letter or digit and contains no whitespace, control or
    punctuation character; remaining upper-case characters are those `to_lowercase` leaves alone (D4);
    `1 ≤ stem ≤ len`; every letter/digit in exactly one word; the source without NULs is the composed input; only
    the last word can be unfinished. No hypothesis about Unicode is left. -/
theorem C15_query_std (T : LangTables) (hT : TablesOK T = true) (stem : List Nat → Nat)
    (hS : StemHyp (stdEnv T stem)) (s : List Nat) :
    TokInv (stdEnv T stem) true s (tokenizeQuery srcProg (stdEnv T stem) s) :=
  C15_tokenizeQuery_src srcUnicode T stem unicodeFacts_src hT hS s

/-- **C15 for `tokenize_record`, real Unicode tables**; every word of a record is finished. -/
theorem C15_record_std (T : LangTables) (hT : TablesOK T = true) (stem : List Nat → Nat)
    (hS : StemHyp (stdEnv T stem)) (s : List Nat) :
    TokInv (stdEnv T stem) false s (tokenizeRecord srcProg (stdEnv T stem) s) :=
  C15_tokenizeRecord_src srcUnicode T stem unicodeFacts_src hT hS s

/-- C15 in each of the seven generated languages -/
theorem C15_query_stdLangs {name : String} {T : LangTables} (hT : (name, T) ∈ srcLangs) (stem : List Nat → Nat)
    (hS : StemHyp (stdEnv T stem)) (s : List Nat) :
    TokInv (stdEnv T stem) true s (tokenizeQuery srcProg (stdEnv T stem) s) :=
  C15_query_std T (tablesOK_of_srcLangs hT) stem hS s

theorem C15_record_stdLangs {name : String} {T : LangTables} (hT : (name, T) ∈ srcLangs) (stem : List Nat → Nat)
    (hS : StemHyp (stdEnv T stem)) (s : List Nat) :
    TokInv (stdEnv T stem) false s (tokenizeRecord srcProg (stdEnv T stem) s) :=
  C15_record_std T (tablesOK_of_srcLangs hT) stem hS s

/-- half-length stemmer: bounded in every environment that uses it -/
theorem toyStem_bounded_std (T : LangTables) : StemBounded (stdEnv T toyStem) := by
  intro w hw _
  have : 0 < w.length := List.length_pos_iff.2 hw
  simp only [stdEnv, Prog.env, toyStem]
  omega

theorem foldClosed_of_srcLangs {name : String} {T : LangTables} (h : (name, T) ∈ srcLangs) : FoldClosed T.reduce = true := by
  have hall : srcLangs.all (fun p => FoldClosed p.2.reduce) = true := by decide
  exact List.all_eq_true.1 hall _ h

/-- the (restricted) stem hypothesis on the real Unicode tables for every generated language, with the toy stemmer:
    the table-closure and `LowerKeyFree` parts are theorems about the generated data -/
theorem toyStemHyp_std {name : String} {T : LangTables} (hT : (name, T) ∈ srcLangs) : StemHyp (stdEnv T toyStem) :=
  fun _ => ⟨foldClosed_of_srcLangs hT, lowerKeyFree_std hT toyStem, toyStem_bounded_std T⟩

/-- for ANY stem oracle: on the real tables the stem hypothesis reduces to the bound on reduce-stable words -/
theorem stemHyp_std_of_bounded {name : String} {T : LangTables} (hT : (name, T) ∈ srcLangs) (stem : List Nat → Nat)
    (hB : StemBounded (stdEnv T stem)) : StemHyp (stdEnv T stem) :=
  fun _ => ⟨foldClosed_of_srcLangs hT, lowerKeyFree_std hT stem, hB⟩

/-- non-vacuity: the hypotheses are met in German with a bounded stemmer, and in `lang_none` with any function -/
example (s : List Nat) : TokInv (stdEnv lang_de toyStem) true s (tokenizeQuery srcProg (stdEnv lang_de toyStem) s) :=
  C15_query_std lang_de tablesOK_de toyStem (toyStemHyp_std (name := "de") (by simp [srcLangs])) s

example (f : List Nat → Nat) (s : List Nat) :
    TokInv (stdEnv lang_none f) false s (tokenizeRecord srcProg (stdEnv lang_none f) s) :=
  C15_record_std lang_none tablesOK_none f (stemHyp_of_no_stemmer _ rfl) s

/-- the tokenizer evaluated by the kernel on the real tables, German: `Über ẞ` gives the characters `uber ss`
    (`Ü` is reduced to `U` and lower-cased, `ẞ` U+1E9E is reduced to `SS`), two words -/
example : (tokenizeQuery srcProg (stdEnv lang_de toyStem) [220, 98, 101, 114, 32, 7838]).chars =
      [117, 98, 101, 114, 32, 115, 115] ∧
    (tokenizeQuery srcProg (stdEnv lang_de toyStem) [220, 98, 101, 114, 32, 7838]).words.map
      (fun w => (w.lo, w.hi, w.fin)) = [(0, 4, true), (5, 7, false)] := by decide +kernel

/-- finding D4 on the real tables: `ℂx` (U+2102, `is_uppercase`, no lower-case mapping) stays as it is in a
    tokenised word — the clause `no_upper` of `TokInv` cannot be strengthened to "no upper-case character" -/
example : (tokenizeRecord srcProg (stdEnv lang_en toyStem) [0x2102, 120]).chars = [0x2102, 120] ∧
    srcUnicode.isUppercase 0x2102 = true := by decide +kernel

/-! ### C01 -/

/-- **C01, real Unicode tables.** No sequence of `add_record` / `search` / `set_limit` / `set_markers` /
    `clear` calls on raw strings reaches a trap site of the engine (see `C01_api_safe_src` for the list), with the
    character predicates of Rust's `std`. Left: `SorterOK`, `TablesOK` (a fact for the generated languages),
    `StemHyp`. -/
theorem C01_api_safe_std (S : Sorter) (hS : SorterOK S) (T : LangTables) (hT : TablesOK T = true)
    (stem : List Nat → Nat) (hSt : StemHyp (stdEnv T stem)) (ops : List ApiOp) :
    apiRunSafe S srcProg (stdEnv T stem) (Store.new srcConsts) ops = true :=
  C01_api_safe_src S hS (stdEnv T stem) rfl unicodeFacts_src hT hSt ops

theorem C01_api_safe_stdLangs (S : Sorter) (hS : SorterOK S) {name : String} {T : LangTables}
    (hT : (name, T) ∈ srcLangs) (stem : List Nat → Nat) (hSt : StemHyp (stdEnv T stem)) (ops : List ApiOp) :
    apiRunSafe S srcProg (stdEnv T stem) (Store.new srcConsts) ops = true :=
  C01_api_safe_std S hS T (tablesOK_of_srcLangs hT) stem hSt ops

/-- non-vacuity: every hypothesis is met in French with the insertion sorter and the half-length stemmer -/
example (ops : List ApiOp) :
    apiRunSafe C13Example.exSorter srcProg (stdEnv lang_fr toyStem) (Store.new srcConsts) ops = true :=
  C01_api_safe_std _ C13Example.exSorter_ok lang_fr tablesOK_fr toyStem (toyStemHyp_std (name := "fr") (by simp [srcLangs])) ops

/-! ### C03, C04, C13 on tokenised texts -/

/-- **C03 on tokenised texts, real Unicode tables** (`C03_prefix_found_tokenized_src` with `UnicodeFacts`
    discharged): typing the first characters of a word of a stored title returns the record. -/
theorem C03_prefix_found_tokenized_std (S : Sorter) (hS : SorterOK S)
    (T : LangTables) (stem : List Nat → Nat) (hT : TablesOK T = true) (hSt : StemHyp (stdEnv T stem))
    (ops : List StoreOp)
    (hops : ∀ id t rating, StoreOp.add id t rating ∈ ops → ∃ s, t = tokenizeRecord srcProg (stdEnv T stem) s)
    (hlim : ((Store.new srcConsts).run S srcConsts srcScoreOrder ops).records.length
              ≤ ((Store.new srcConsts).run S srcConsts srcScoreOrder ops).limit)
    (ix : Nat) (r : Record)
    (hr : ((Store.new srcConsts).run S srcConsts srcScoreOrder ops).records[ix]? = some r)
    (s : List Nat) (v : WordShape)
    (hq : (tokenizeQuery srcProg (stdEnv T stem) s).words = [v]) (hfin : v.fin = false)
    (w : WordShape) (hw : w ∈ r.title.words) (hle : v.len ≤ w.len)
    (hpre : wchars (tokenizeQuery srcProg (stdEnv T stem) s) v = (wchars r.title w).take v.len) :
    ∃ res ∈ ((Store.new srcConsts).run S srcConsts srcScoreOrder ops).search S srcConsts
        srcScoreOrder (tokenizeQuery srcProg (stdEnv T stem) s),
      res.id = r.id ∧
      res = ((Store.new srcConsts).run S srcConsts srcScoreOrder ops).render
              (scoreHit srcConsts srcScoreOrder (tokenizeQuery srcProg (stdEnv T stem) s) r) :=
  C03_prefix_found_tokenized_src S hS srcUnicode T stem unicodeFacts_src hT hSt ops hops hlim ix r hr s v hq hfin w hw
    hle hpre

/-- **C03 for ASCII prefixes, real Unicode tables** (`C03_prefix_ascii_found_src` with `UnicodeFacts` and
    `AsciiFacts` discharged): if the first `k ≥ 1` characters of a title word are letters `a`–`z` or digits, typing
    them returns the record. No premise about the tokenizer or about Unicode. -/
theorem C03_prefix_ascii_found_std (S : Sorter) (hS : SorterOK S)
    (T : LangTables) (stem : List Nat → Nat) (hT : TablesOK T = true) (hF : AsciiFreeTables T = true)
    (hSt : StemHyp (stdEnv T stem)) (ops : List StoreOp)
    (hops : ∀ id t rating, StoreOp.add id t rating ∈ ops → ∃ s, t = tokenizeRecord srcProg (stdEnv T stem) s)
    (hlim : ((Store.new srcConsts).run S srcConsts srcScoreOrder ops).records.length
              ≤ ((Store.new srcConsts).run S srcConsts srcScoreOrder ops).limit)
    (ix : Nat) (r : Record)
    (hr : ((Store.new srcConsts).run S srcConsts srcScoreOrder ops).records[ix]? = some r)
    (w : WordShape) (hw : w ∈ r.title.words) (k : Nat) (hk : 1 ≤ k)
    (hascii : AsciiLower ((wchars r.title w).take k)) :
    ∃ res ∈ ((Store.new srcConsts).run S srcConsts srcScoreOrder ops).search S srcConsts
        srcScoreOrder (tokenizeQuery srcProg (stdEnv T stem) ((wchars r.title w).take k)),
      res.id = r.id ∧
      res = ((Store.new srcConsts).run S srcConsts srcScoreOrder ops).render
              (scoreHit srcConsts srcScoreOrder
                (tokenizeQuery srcProg (stdEnv T stem) ((wchars r.title w).take k)) r) :=
  C03_prefix_ascii_found_src S hS srcUnicode T stem unicodeFacts_src asciiFacts_src hT hF hSt ops hops hlim ix r hr w
    hw k hk hascii

/-- **C04 on tokenised texts, real Unicode tables** (`C04_single_edit_found_tokenized_src` with `UnicodeFacts`
    discharged): a word of at least five characters, three of them distinct, typed with one error, is found. -/
theorem C04_single_edit_found_tokenized_std (S : Sorter) (hS : SorterOK S)
    (T : LangTables) (stem : List Nat → Nat) (hTb : TablesOK T = true) (hSt : StemHyp (stdEnv T stem))
    (ops : List StoreOp)
    (hops : ∀ id t rating, StoreOp.add id t rating ∈ ops → ∃ s, t = tokenizeRecord srcProg (stdEnv T stem) s)
    (hlim : ((Store.new srcConsts).run S srcConsts srcScoreOrder ops).records.length
              ≤ ((Store.new srcConsts).run S srcConsts srcScoreOrder ops).limit)
    (ix : Nat) (r : Record)
    (hr : ((Store.new srcConsts).run S srcConsts srcScoreOrder ops).records[ix]? = some r)
    (s : List Nat) (v : WordShape)
    (hq : (tokenizeQuery srcProg (stdEnv T stem) s).words = [v]) (hfin : v.fin = false)
    (w : WordShape) (hw : w ∈ r.title.words) (h5 : 5 ≤ w.len) (h3 : 3 ≤ distinctCard (wchars r.title w))
    (hed : Edit1 (wchars r.title w) (wchars (tokenizeQuery srcProg (stdEnv T stem) s) v)) :
    ∃ res ∈ ((Store.new srcConsts).run S srcConsts srcScoreOrder ops).search S srcConsts
        srcScoreOrder (tokenizeQuery srcProg (stdEnv T stem) s),
      res.id = r.id ∧
      res = ((Store.new srcConsts).run S srcConsts srcScoreOrder ops).render
              (scoreHit srcConsts srcScoreOrder (tokenizeQuery srcProg (stdEnv T stem) s) r) :=
  C04_single_edit_found_tokenized_src S hS srcUnicode T stem unicodeFacts_src hTb hSt ops hops hlim ix r hr s v hq
    hfin w hw h5 h3 hed

/-- **C04 for ASCII misspellings, real Unicode tables** (`C04_single_edit_ascii_found_src` with `UnicodeFacts`
    and `AsciiFacts` discharged). -/
theorem C04_single_edit_ascii_found_std (S : Sorter) (hS : SorterOK S)
    (T : LangTables) (stem : List Nat → Nat) (hTb : TablesOK T = true) (hF : AsciiFreeTables T = true)
    (hSt : StemHyp (stdEnv T stem)) (ops : List StoreOp)
    (hops : ∀ id t rating, StoreOp.add id t rating ∈ ops → ∃ s, t = tokenizeRecord srcProg (stdEnv T stem) s)
    (hlim : ((Store.new srcConsts).run S srcConsts srcScoreOrder ops).records.length
              ≤ ((Store.new srcConsts).run S srcConsts srcScoreOrder ops).limit)
    (ix : Nat) (r : Record)
    (hr : ((Store.new srcConsts).run S srcConsts srcScoreOrder ops).records[ix]? = some r)
    (w : WordShape) (hw : w ∈ r.title.words) (h5 : 5 ≤ w.len) (h3 : 3 ≤ distinctCard (wchars r.title w))
    (cs' : List Nat) (hascii : AsciiLower cs') (hed : Edit1 (wchars r.title w) cs') :
    ∃ res ∈ ((Store.new srcConsts).run S srcConsts srcScoreOrder ops).search S srcConsts
        srcScoreOrder (tokenizeQuery srcProg (stdEnv T stem) cs'),
      res.id = r.id ∧
      res = ((Store.new srcConsts).run S srcConsts srcScoreOrder ops).render
              (scoreHit srcConsts srcScoreOrder (tokenizeQuery srcProg (stdEnv T stem) cs') r) :=
  C04_single_edit_ascii_found_src S hS srcUnicode T stem unicodeFacts_src asciiFacts_src hTb hF hSt ops hops hlim ix r
    hr w hw h5 h3 cs' hascii hed

/-- **C13 for the typed string, real Unicode tables** (`C13_whole_title_typed_src` with `UnicodeFacts`
    discharged): in a store holding no more records than its limit, a record added with the title text `s` (any
    text with at least one word) is returned when exactly `s` is typed — in every language, with the character
    predicates of Rust's `std`, and no premise about tokenisation. -/
theorem C13_whole_title_typed_std (S : Sorter) (hS : SorterOK S)
    (T : LangTables) (stem : List Nat → Nat) (hT : TablesOK T = true) (hSt : StemHyp (stdEnv T stem))
    (ops : List StoreOp)
    (hops : ∀ id t rating, StoreOp.add id t rating ∈ ops → ∃ s, t = tokenizeRecord srcProg (stdEnv T stem) s)
    (hlim : ((Store.new srcConsts).run S srcConsts srcScoreOrder ops).records.length
              ≤ ((Store.new srcConsts).run S srcConsts srcScoreOrder ops).limit)
    (ix : Nat) (r : Record)
    (hr : ((Store.new srcConsts).run S srcConsts srcScoreOrder ops).records[ix]? = some r)
    (s : List Nat) (htitle : r.title = tokenizeRecord srcProg (stdEnv T stem) s) (hne : r.title.words ≠ []) :
    ∃ res ∈ ((Store.new srcConsts).run S srcConsts srcScoreOrder ops).search S srcConsts
        srcScoreOrder (tokenizeQuery srcProg (stdEnv T stem) s),
      res.id = r.id ∧
      res = ((Store.new srcConsts).run S srcConsts srcScoreOrder ops).render
              (scoreHit srcConsts srcScoreOrder (tokenizeQuery srcProg (stdEnv T stem) s) r) :=
  C13_whole_title_typed_src S hS srcUnicode T stem unicodeFacts_src hT hSt ops hops hlim ix r hr s htitle hne

/-- the German title `Über uns`, tokenised with the real tables, in a one-record store -/
def exOpsStd : List StoreOp :=
  [.add 42 (tokenizeRecord srcProg (stdEnv lang_de toyStem) [220, 98, 101, 114, 32, 117, 110, 115]) 7]

/-- non-vacuity of `C13_whole_title_typed_std`: all hypotheses are met (kernel-evaluated on the real tables) by
    typing `Über uns` against the stored title `Über uns` -/
example : ∃ res ∈ ((Store.new srcConsts).run C13Example.exSorter srcConsts srcScoreOrder exOpsStd).search
      C13Example.exSorter srcConsts srcScoreOrder
      (tokenizeQuery srcProg (stdEnv lang_de toyStem) [220, 98, 101, 114, 32, 117, 110, 115]), res.id = 42 := by
  have hops : ∀ id t rating, StoreOp.add id t rating ∈ exOpsStd →
      ∃ s, t = tokenizeRecord srcProg (stdEnv lang_de toyStem) s := by
    intro id t rating hm
    simp only [exOpsStd, List.mem_cons, StoreOp.add.injEq, List.not_mem_nil, or_false] at hm
    exact ⟨_, hm.2.1⟩
  obtain ⟨res, h1, h2, _⟩ := C13_whole_title_typed_std C13Example.exSorter C13Example.exSorter_ok lang_de toyStem
    tablesOK_de (toyStemHyp_std (name := "de") (by simp [srcLangs])) exOpsStd hops (by decide +kernel) 0
    { ix := 0, id := 42,
      title := tokenizeRecord srcProg (stdEnv lang_de toyStem) [220, 98, 101, 114, 32, 117, 110, 115], rating := 7 }
    (by decide +kernel) [220, 98, 101, 114, 32, 117, 110, 115] rfl (by decide +kernel)
  exact ⟨res, h1, h2⟩

/-! ### C11: re-casing -/

/-- **C11 (re-casing), real Unicode tables, each generated language.** For mark-free query texts `s`, `s'` that
    agree after `to_lowercase` of every character (first character of the mapping, as in the source), the search
    returns the same results — `UnicodeFacts`, `SepLowerOn` and `CaseClosedOn` are theorems for the real tables
    and the seven generated reduce tables, so only `SorterNatural` is left. Title-case letters, `ẞ`/`ß` in German,
    the Kelvin and Ångström signs, … are all covered: the statement is for every `c : Nat`. -/
theorem C11_recase_search_std {S : Sorter} (hS : SorterNatural S) {name : String} {T : LangTables}
    (hT : (name, T) ∈ srcLangs) (stem : List Nat → Nat) (st : Store) (s s' : List Nat)
    (hs : MarkFree T.compose s) (hs' : MarkFree T.compose s')
    (hcase : s'.map srcUnicode.lower1 = s.map srcUnicode.lower1) :
    st.search S srcConsts srcScoreOrder (tokenizeQuery srcProg (stdEnv T stem) s') =
      st.search S srcConsts srcScoreOrder (tokenizeQuery srcProg (stdEnv T stem) s) :=
  C11_recase_search_src hS (stdEnv T stem) unicodeFacts_src hT st s s' hs hs' hcase
    (caseClosedOn_src _ rfl hT _) (sepLowerOn_src _ rfl rfl _)

/-- the same at the level of tokenised queries: equal up to `source` -/
theorem C11_recase_variant_std {name : String} {T : LangTables} (hT : (name, T) ∈ srcLangs)
    (stem : List Nat → Nat) (s s' : List Nat)
    (hs : MarkFree T.compose s) (hs' : MarkFree T.compose s')
    (hcase : s'.map srcUnicode.lower1 = s.map srcUnicode.lower1) :
    (tokenizeQuery srcProg (stdEnv T stem) s').sameUpToSource (tokenizeQuery srcProg (stdEnv T stem) s) :=
  C11_recase_variant_src (stdEnv T stem) unicodeFacts_src hT s s' hs hs' hcase
    (caseClosedOn_src _ rfl hT _) (sepLowerOn_src _ rfl rfl _)

/-- non-vacuity with the real tables, German: `Über ẞ ǅ` typed `üBER ß ǆ` (U+1E9E ↦ U+00DF; the title-case
    digraph U+01C5 ↦ U+01C6 is not `is_uppercase`) searches alike in every store -/
example (st : Store) (stem : List Nat → Nat) :
    st.search insSorter srcConsts srcScoreOrder
        (tokenizeQuery srcProg (stdEnv lang_de stem) [252, 66, 69, 82, 32, 223, 32, 454]) =
      st.search insSorter srcConsts srcScoreOrder
        (tokenizeQuery srcProg (stdEnv lang_de stem) [220, 98, 101, 114, 32, 7838, 32, 453]) :=
  C11_recase_search_std insSorter_natural (name := "de") (.tail _ (.head _)) stem st _ _ (by decide) (by decide)
    (by decide +kernel)

end Lucid
