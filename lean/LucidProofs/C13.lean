/-
  C13 / C03 / C14 (control-flow half) — from "a word of the record's title matches the first query word" to
  "the record is among the search results", for a store holding no more records than the limit.

  The word-level facts (`wordMatch … ≠ none`, proved by the matching cluster from the gates and the distance)
  and the candidate facts (the record's position is among the index candidates, which are duplicate-free and in
  range; proved by the index cluster) are explicit hypotheses. Helper lemmas: `Lemmas/ScanSurvival.lean`
  (the greedy scan never loses a match), `Lemmas/SearchGlue.lean` (filter and bounded selection).
-/
import LucidModel.Gen.Consts
import LucidProofs.Lemmas.ScanSurvival
import LucidProofs.Lemmas.SearchGlue

namespace Lucid

/-- General form. If, for the FIRST query word `q0`, one of the three closures of `text_match` (plain word match,
    joined record words, joined query words) succeeds on some word of the record's title, and the query is a
    single word or `q0` is a finished word, then a candidate record of a store within its limit is returned. -/
theorem found_of_first_word (S : Sorter) (hS : SorterOK S) (K : Consts) (hK : 1 ≤ K.sortFactor)
    (order : List ScoreType) (st : Store) (q : Text) (ix : Nat) (r : Record) (hc : CandOK S K st q ix r)
    (hrt : TextOK r.title) (hqt : TextOK q) (q0 : WordShape) (hq0 : q.words[0]? = some q0)
    (hshape : q.words.length = 1 ∨ q0.fin = true)
    (hw : ∃ w ∈ r.title.words, AnyClosure K r.title q (tmInit r.title q) w q0) :
    ∃ res ∈ st.search S K order q, res.id = r.id ∧ res = st.render (scoreHit K order q r) := by
  have hne := textMatch_nonempty_any (K := K) hrt.offsetsOK hqt.offsetsOK q0 hq0 hw
  refine hit_in_results S hS K hK order st q ix r hc.get hc.cand hc.nodup hc.range hc.small ?_
  rcases hshape with h1 | hfin
  · exact (hitMatches_single _ h1).mpr (by rw [scoreHit_rmatches]; exact hne.1)
  · refine hitMatches_of_counts _ (by rw [scoreHit_rmatches]; exact hne.1) ?_
    rw [scoreHit_rmatches, scoreHit_qmatches]
    rcases textMatch_first_counts_any (K := K) hrt.offsetsOK hqt.offsetsOK q0 hq0 hw with h | h | ⟨m, hm, hf⟩
    · exact Or.inl h
    · exact Or.inr (Or.inl h)
    · exact Or.inr (Or.inr ⟨m, hm, hf hfin⟩)

/-- C13 (control flow). If the first word of the query is a finished word and matches (`word_match` succeeds on)
    some word of a record's title, the record is a candidate, and the store holds no more records than the
    limit, then the record is among the results — however many further words the query has and whatever they
    are. (The filter passes because either two slots are filled or the only record match is `fin`.) -/
theorem C13_first_finished_word_found (S : Sorter) (hS : SorterOK S) (K : Consts) (hK : 1 ≤ K.sortFactor)
    (order : List ScoreType) (st : Store) (q : Text) (ix : Nat) (r : Record) (hc : CandOK S K st q ix r)
    (hrt : TextOK r.title) (hqt : TextOK q) (q0 : WordShape) (hq0 : q.words[0]? = some q0)
    (hfin : q0.fin = true)
    (w : WordShape) (hw : w ∈ r.title.words) (hwm : wordMatch K r.title w q q0 ≠ none) :
    ∃ res ∈ st.search S K order q, res.id = r.id ∧ res = st.render (scoreHit K order q r) :=
  found_of_first_word S hS K hK order st q ix r hc hrt hqt q0 hq0 (Or.inr hfin) ⟨w, hw, Or.inl hwm⟩

/-- C03 (control flow). A single-word query whose word matches some word of a record's title returns that
    record, if the record is a candidate and the store holds no more records than the limit. -/
theorem C03_single_word_found (S : Sorter) (hS : SorterOK S) (K : Consts) (hK : 1 ≤ K.sortFactor)
    (order : List ScoreType) (st : Store) (q : Text) (ix : Nat) (r : Record) (hc : CandOK S K st q ix r)
    (hrt : TextOK r.title) (hqt : TextOK q) (q0 : WordShape) (hq : q.words = [q0])
    (w : WordShape) (hw : w ∈ r.title.words) (hwm : wordMatch K r.title w q q0 ≠ none) :
    ∃ res ∈ st.search S K order q, res.id = r.id ∧ res = st.render (scoreHit K order q r) :=
  found_of_first_word S hS K hK order st q ix r hc hrt hqt q0 (by simp [hq]) (Or.inl (by simp [hq]))
    ⟨w, hw, Or.inl hwm⟩

/-- C14 (control flow, title word spelled as two query words). If the first two query words `q0 q1`, run
    together, match a title word `w` that is long enough, and the matched part reaches into `q1`, then the
    record is returned (`q0` finished; candidate record; store within its limit). -/
theorem C14_split_word_found (S : Sorter) (hS : SorterOK S) (K : Consts) (hK : 1 ≤ K.sortFactor)
    (order : List ScoreType) (st : Store) (q : Text) (ix : Nat) (r : Record) (hc : CandOK S K st q ix r)
    (hrt : TextOK r.title) (hqt : TextOK q) (q0 q1 : WordShape)
    (hq0 : q.words[0]? = some q0) (hq1 : q.words[1]? = some q1) (hfin : q0.fin = true)
    (w : WordShape) (hw : w ∈ r.title.words) (hlen : q0.len + q0.dist q1 ≤ w.len)
    (p : WMatch × WMatch) (hwm : wordMatch K r.title w q (q0.join q1) = some p)
    (hreach : q1.lo < q0.lo + p.2.subHi) :
    ∃ res ∈ st.search S K order q, res.id = r.id ∧ res = st.render (scoreHit K order q r) := by
  have ho : q0.offset = 0 := (hqt.offsetsOK.offset_of_get hq0).1
  refine found_of_first_word S hS K hK order st q ix r hc hrt hqt q0 hq0 (Or.inr hfin)
    ⟨w, hw, Or.inr (Or.inr ?_)⟩
  rw [tryJoinQ_ne_none_iff]
  refine ⟨q1, by rw [ho]; exact hq1, hlen, ?_, p, hwm, hreach⟩
  rw [ho]
  exact tmInit_qm_get (List.getElem?_eq_some_iff.mp hq1).1

/-- C14 (control flow, two adjacent title words run together in the query). If the first query word `q0` is long
    enough and matches the join of two adjacent title words `w wnext`, the matched part reaching into `wnext`,
    then the record is returned (`q0` finished or the only query word; candidate record; store within its limit). -/
theorem C14_joined_words_found (S : Sorter) (hS : SorterOK S) (K : Consts) (hK : 1 ≤ K.sortFactor)
    (order : List ScoreType) (st : Store) (q : Text) (ix : Nat) (r : Record) (hc : CandOK S K st q ix r)
    (hrt : TextOK r.title) (hqt : TextOK q) (q0 : WordShape)
    (hq0 : q.words[0]? = some q0) (hshape : q.words.length = 1 ∨ q0.fin = true)
    (w wnext : WordShape) (hw : w ∈ r.title.words) (hnext : r.title.words[w.offset + 1]? = some wnext)
    (hlen : w.len + w.dist wnext ≤ q0.len)
    (p : WMatch × WMatch) (hwm : wordMatch K r.title (w.join wnext) q q0 = some p)
    (hreach : wnext.lo < w.lo + p.1.subHi) :
    ∃ res ∈ st.search S K order q, res.id = r.id ∧ res = st.render (scoreHit K order q r) := by
  refine found_of_first_word S hS K hK order st q ix r hc hrt hqt q0 hq0 hshape
    ⟨w, hw, Or.inr (Or.inl ?_)⟩
  rw [tryJoinR_ne_none_iff]
  exact ⟨wnext, hnext, hlen, tmInit_rm_get (List.getElem?_eq_some_iff.mp hnext).1, p, hwm, hreach⟩

/-! ### instantiations at the constants generated from the source -/

theorem C13_first_finished_word_found_src (S : Sorter) (hS : SorterOK S)
    (st : Store) (q : Text) (ix : Nat) (r : Record) (hc : CandOK S Gen.srcConsts st q ix r)
    (hrt : TextOK r.title) (hqt : TextOK q) (q0 : WordShape) (hq0 : q.words[0]? = some q0)
    (hfin : q0.fin = true)
    (w : WordShape) (hw : w ∈ r.title.words) (hwm : wordMatch Gen.srcConsts r.title w q q0 ≠ none) :
    ∃ res ∈ st.search S Gen.srcConsts Gen.srcScoreOrder q,
      res.id = r.id ∧ res = st.render (scoreHit Gen.srcConsts Gen.srcScoreOrder q r) :=
  C13_first_finished_word_found S hS Gen.srcConsts (by decide) Gen.srcScoreOrder st q ix r hc hrt hqt q0 hq0 hfin
    w hw hwm

theorem C03_single_word_found_src (S : Sorter) (hS : SorterOK S)
    (st : Store) (q : Text) (ix : Nat) (r : Record) (hc : CandOK S Gen.srcConsts st q ix r)
    (hrt : TextOK r.title) (hqt : TextOK q) (q0 : WordShape) (hq : q.words = [q0])
    (w : WordShape) (hw : w ∈ r.title.words) (hwm : wordMatch Gen.srcConsts r.title w q q0 ≠ none) :
    ∃ res ∈ st.search S Gen.srcConsts Gen.srcScoreOrder q,
      res.id = r.id ∧ res = st.render (scoreHit Gen.srcConsts Gen.srcScoreOrder q r) :=
  C03_single_word_found S hS Gen.srcConsts (by decide) Gen.srcScoreOrder st q ix r hc hrt hqt q0 hq w hw hwm

theorem C14_split_word_found_src (S : Sorter) (hS : SorterOK S)
    (st : Store) (q : Text) (ix : Nat) (r : Record) (hc : CandOK S Gen.srcConsts st q ix r)
    (hrt : TextOK r.title) (hqt : TextOK q) (q0 q1 : WordShape)
    (hq0 : q.words[0]? = some q0) (hq1 : q.words[1]? = some q1) (hfin : q0.fin = true)
    (w : WordShape) (hw : w ∈ r.title.words) (hlen : q0.len + q0.dist q1 ≤ w.len)
    (p : WMatch × WMatch) (hwm : wordMatch Gen.srcConsts r.title w q (q0.join q1) = some p)
    (hreach : q1.lo < q0.lo + p.2.subHi) :
    ∃ res ∈ st.search S Gen.srcConsts Gen.srcScoreOrder q,
      res.id = r.id ∧ res = st.render (scoreHit Gen.srcConsts Gen.srcScoreOrder q r) :=
  C14_split_word_found S hS Gen.srcConsts (by decide) Gen.srcScoreOrder st q ix r hc hrt hqt q0 q1 hq0 hq1 hfin
    w hw hlen p hwm hreach

theorem C14_joined_words_found_src (S : Sorter) (hS : SorterOK S)
    (st : Store) (q : Text) (ix : Nat) (r : Record) (hc : CandOK S Gen.srcConsts st q ix r)
    (hrt : TextOK r.title) (hqt : TextOK q) (q0 : WordShape)
    (hq0 : q.words[0]? = some q0) (hshape : q.words.length = 1 ∨ q0.fin = true)
    (w wnext : WordShape) (hw : w ∈ r.title.words) (hnext : r.title.words[w.offset + 1]? = some wnext)
    (hlen : w.len + w.dist wnext ≤ q0.len)
    (p : WMatch × WMatch) (hwm : wordMatch Gen.srcConsts r.title (w.join wnext) q q0 = some p)
    (hreach : wnext.lo < w.lo + p.1.subHi) :
    ∃ res ∈ st.search S Gen.srcConsts Gen.srcScoreOrder q,
      res.id = r.id ∧ res = st.render (scoreHit Gen.srcConsts Gen.srcScoreOrder q r) :=
  C14_joined_words_found S hS Gen.srcConsts (by decide) Gen.srcScoreOrder st q ix r hc hrt hqt q0 hq0 hshape
    w wnext hw hnext hlen p hwm hreach

namespace C13Example

/-! ### non-vacuity: a concrete sorter, store, title and queries meeting every hypothesis -/

def insertBy {α : Type} (le : α → α → Bool) (a : α) : List α → List α
  | [] => [a]
  | b :: t => if le a b then a :: b :: t else b :: insertBy le a t

def isort {α : Type} (le : α → α → Bool) : List α → List α
  | [] => []
  | a :: t => insertBy le a (isort le t)

/-- insertion sort as the sorting oracle -/
def exSorter : Sorter := ⟨fun le l => isort le l⟩

theorem insertBy_perm {α : Type} (le : α → α → Bool) (a : α) : ∀ l, (insertBy le a l).Perm (a :: l)
  | [] => List.Perm.refl _
  | b :: t => by
    unfold insertBy
    split
    · exact List.Perm.refl _
    · exact ((insertBy_perm le a t).cons b).trans (List.Perm.swap a b t)

theorem isort_perm {α : Type} (le : α → α → Bool) : ∀ l, (isort le l).Perm l
  | [] => List.Perm.refl _
  | a :: t => (insertBy_perm le a _).trans ((isort_perm le t).cons a)

theorem insertBy_sorted {α : Type} {le : α → α → Bool} (P : Preorder' le) (a : α) :
    ∀ l, l.Pairwise (fun x y => le x y = true) → (insertBy le a l).Pairwise (fun x y => le x y = true)
  | [], _ => by simp [insertBy]
  | b :: t, h => by
    rw [List.pairwise_cons] at h
    unfold insertBy
    split
    · rename_i hab
      refine List.pairwise_cons.mpr ⟨?_, List.pairwise_cons.mpr h⟩
      intro x hx
      rcases List.mem_cons.mp hx with e | e
      · rw [e]; exact hab
      · exact P.trans a b x hab (h.1 x e)
    · rename_i hab
      refine List.pairwise_cons.mpr ⟨?_, insertBy_sorted P a t h.2⟩
      intro x hx
      rcases List.mem_cons.mp ((insertBy_perm le a t).mem_iff.mp hx) with e | e
      · rw [e]
        rcases P.total a b with h1 | h1
        · exact absurd h1 hab
        · exact h1
      · exact h.1 x e

theorem isort_sorted {α : Type} {le : α → α → Bool} (P : Preorder' le) :
    ∀ l, (isort le l).Pairwise (fun x y => le x y = true)
  | [] => by simp [isort]
  | a :: t => insertBy_sorted P a _ (isort_sorted P t)

theorem exSorter_ok : SorterOK exSorter := fun le P => ⟨isort_perm le, isort_sorted P⟩

def wd (o lo hi : Nat) (fin : Bool) : WordShape :=
  { offset := o, lo := lo, hi := hi, stem := hi - lo, pos := none, fin := fin }

/-- title "abc def" -/
def exTitle : Text :=
  { words := [wd 0 0 3 true, wd 1 4 7 true], source := [97,98,99,32,100,101,102],
    chars := [97,98,99,32,100,101,102], classes := List.replicate 7 CharClass.any }
/-- query "abc de" (last word unfinished) -/
def exQuery : Text :=
  { words := [wd 0 0 3 true, wd 1 4 6 false], source := [97,98,99,32,100,101],
    chars := [97,98,99,32,100,101], classes := List.replicate 6 CharClass.any }
/-- query "ab" (a prefix, unfinished) -/
def exQuery1 : Text :=
  { words := [wd 0 0 2 false], source := [97,98], chars := [97,98], classes := List.replicate 2 CharClass.any }

def exRecord : Record := { ix := 0, id := 42, title := exTitle, rating := 0 }
def exStore : Store := (Store.new Gen.srcConsts).add 42 exTitle 0

theorem exTitle_ok : TextOK exTitle :=
  ⟨by decide, by decide, by decide,
   by intro i h; have hi : i = 0 := (by have : exTitle.words.length = 2 := rfl; omega); subst hi; simp [exTitle, wd],
   by decide⟩
theorem exQuery_ok : TextOK exQuery :=
  ⟨by decide, by decide, by decide,
   by intro i h; have hi : i = 0 := (by have : exQuery.words.length = 2 := rfl; omega); subst hi; simp [exQuery, wd],
   by decide⟩
theorem exQuery1_ok : TextOK exQuery1 :=
  ⟨by decide, by decide, by decide, by intro i h; have : exQuery1.words.length = 1 := rfl; omega, by decide⟩

/-- `word_match("abc", "abc")` succeeds (the Jaccard merge is evaluated by `simp`, the rest by the kernel) -/
theorem exMatch : wordMatch Gen.srcConsts exTitle (wd 0 0 3 true) exQuery (wd 0 0 3 true) ≠ none := by
  have hj : jaccardCheck Gen.srcConsts exTitle (wd 0 0 3 true) exQuery (wd 0 0 3 true) = true := by
    simp [jaccardCheck, jaccardSlice, wchars, slice, wd, exTitle, exQuery, jaccard, jaccardM, JacState.new,
      vecResize, copyFrom, natSet, natInsert, jacMerge]
    decide
  unfold wordMatch wordMatchM
  rw [hj]
  decide +kernel

/-- `word_match("abc", "ab…")` succeeds -/
theorem exMatch1 : wordMatch Gen.srcConsts exTitle (wd 0 0 3 true) exQuery1 (wd 0 0 2 false) ≠ none := by
  have hj : jaccardCheck Gen.srcConsts exTitle (wd 0 0 3 true) exQuery1 (wd 0 0 2 false) = true := by
    simp [jaccardCheck, jaccardSlice, wchars, slice, wd, exTitle, exQuery1, jaccard, jaccardM, JacState.new,
      vecResize, copyFrom, natSet, natInsert, jacMerge, WordShape.len]
    decide
  unfold wordMatch wordMatchM
  rw [hj]
  decide +kernel

theorem exCand : CandOK exSorter Gen.srcConsts exStore exQuery 0 exRecord :=
  ⟨by decide +kernel, by decide +kernel, by decide +kernel, by decide +kernel, by decide +kernel⟩
theorem exCand1 : CandOK exSorter Gen.srcConsts exStore exQuery1 0 exRecord :=
  ⟨by decide +kernel, by decide +kernel, by decide +kernel, by decide +kernel, by decide +kernel⟩

/-- the hypotheses of `C13_first_finished_word_found_src` are met by "abc de" against the title "abc def" -/
example : ∃ res ∈ exStore.search exSorter Gen.srcConsts Gen.srcScoreOrder exQuery, res.id = 42 ∧
    res = exStore.render (scoreHit Gen.srcConsts Gen.srcScoreOrder exQuery exRecord) :=
  C13_first_finished_word_found_src exSorter exSorter_ok exStore exQuery 0 exRecord exCand exTitle_ok exQuery_ok
    (wd 0 0 3 true) (by decide) (by decide) (wd 0 0 3 true) (by decide) exMatch

/-- the hypotheses of `C03_single_word_found_src` are met by the prefix "ab" against the title "abc def" -/
example : ∃ res ∈ exStore.search exSorter Gen.srcConsts Gen.srcScoreOrder exQuery1, res.id = 42 ∧
    res = exStore.render (scoreHit Gen.srcConsts Gen.srcScoreOrder exQuery1 exRecord) :=
  C03_single_word_found_src exSorter exSorter_ok exStore exQuery1 0 exRecord exCand1 exTitle_ok exQuery1_ok
    (wd 0 0 2 false) (by decide) (wd 0 0 3 true) (by decide) exMatch1

/-- title "abcdef" -/
def exTitleJ : Text :=
  { words := [wd 0 0 6 true], source := [97,98,99,100,101,102], chars := [97,98,99,100,101,102],
    classes := List.replicate 6 CharClass.any }
/-- query "abc def" (last word unfinished) -/
def exQueryS : Text :=
  { words := [wd 0 0 3 true, wd 1 4 7 false], source := [97,98,99,32,100,101,102],
    chars := [97,98,99,32,100,101,102], classes := List.replicate 7 CharClass.any }
/-- query "abcdef" (unfinished) -/
def exQueryJ : Text :=
  { words := [wd 0 0 6 false], source := [97,98,99,100,101,102], chars := [97,98,99,100,101,102],
    classes := List.replicate 6 CharClass.any }

def exRecordJ : Record := { ix := 0, id := 43, title := exTitleJ, rating := 0 }
def exStoreJ : Store := (Store.new Gen.srcConsts).add 43 exTitleJ 0

theorem exTitleJ_ok : TextOK exTitleJ :=
  ⟨by decide, by decide, by decide, by intro i h; have : exTitleJ.words.length = 1 := rfl; omega, by decide⟩
theorem exQueryS_ok : TextOK exQueryS :=
  ⟨by decide, by decide, by decide,
   by intro i h; have hi : i = 0 := (by have : exQueryS.words.length = 2 := rfl; omega); subst hi; simp [exQueryS, wd],
   by decide⟩
theorem exQueryJ_ok : TextOK exQueryJ :=
  ⟨by decide, by decide, by decide, by intro i h; have : exQueryJ.words.length = 1 := rfl; omega, by decide⟩

theorem exCandS : CandOK exSorter Gen.srcConsts exStoreJ exQueryS 0 exRecordJ :=
  ⟨by decide +kernel, by decide +kernel, by decide +kernel, by decide +kernel, by decide +kernel⟩
theorem exCandJ : CandOK exSorter Gen.srcConsts exStore exQueryJ 0 exRecord :=
  ⟨by decide +kernel, by decide +kernel, by decide +kernel, by decide +kernel, by decide +kernel⟩

/-- `word_match("abcdef", "abc def" joined)` succeeds with one typo (the separator) -/
theorem exMatchS : wordMatch Gen.srcConsts exTitleJ (wd 0 0 6 true) exQueryS ((wd 0 0 3 true).join (wd 1 4 7 false)) =
    some ({ offset := 0, lo := 0, hi := 6, subLo := 0, subHi := 6, typos := 10, func := false, fin := true },
          { offset := 0, lo := 0, hi := 7, subLo := 0, subHi := 7, typos := 10, func := false, fin := true }) := by
  have hj : jaccardCheck Gen.srcConsts exTitleJ (wd 0 0 6 true) exQueryS ((wd 0 0 3 true).join (wd 1 4 7 false)) = true := by
    simp [jaccardCheck, jaccardSlice, wchars, slice, wd, exTitleJ, exQueryS, jaccard, jaccardM, JacState.new,
      vecResize, copyFrom, natSet, natInsert, jacMerge, WordShape.len, WordShape.join]
    decide
  unfold wordMatch wordMatchM
  rw [hj]
  decide +kernel

/-- `word_match("abc def" joined, "abcdef")` succeeds with one typo -/
theorem exMatchJ : wordMatch Gen.srcConsts exTitle ((wd 0 0 3 true).join (wd 1 4 7 true)) exQueryJ (wd 0 0 6 false) =
    some ({ offset := 0, lo := 0, hi := 7, subLo := 0, subHi := 7, typos := 10, func := false, fin := true },
          { offset := 0, lo := 0, hi := 6, subLo := 0, subHi := 6, typos := 10, func := false, fin := true }) := by
  have hj : jaccardCheck Gen.srcConsts exTitle ((wd 0 0 3 true).join (wd 1 4 7 true)) exQueryJ (wd 0 0 6 false) = true := by
    simp [jaccardCheck, jaccardSlice, wchars, slice, wd, exTitle, exQueryJ, jaccard, jaccardM, JacState.new,
      vecResize, copyFrom, natSet, natInsert, jacMerge, WordShape.len, WordShape.join]
    decide
  unfold wordMatch wordMatchM
  rw [hj]
  decide +kernel

/-- the hypotheses of `C14_split_word_found_src` are met by "abc def" against the title "abcdef" -/
example : ∃ res ∈ exStoreJ.search exSorter Gen.srcConsts Gen.srcScoreOrder exQueryS, res.id = 43 ∧
    res = exStoreJ.render (scoreHit Gen.srcConsts Gen.srcScoreOrder exQueryS exRecordJ) :=
  C14_split_word_found_src exSorter exSorter_ok exStoreJ exQueryS 0 exRecordJ exCandS exTitleJ_ok exQueryS_ok
    (wd 0 0 3 true) (wd 1 4 7 false) (by decide) (by decide) (by decide) (wd 0 0 6 true) (by decide) (by decide)
    _ exMatchS (by decide)

/-- the hypotheses of `C14_joined_words_found_src` are met by "abcdef" against the title "abc def" -/
example : ∃ res ∈ exStore.search exSorter Gen.srcConsts Gen.srcScoreOrder exQueryJ, res.id = 42 ∧
    res = exStore.render (scoreHit Gen.srcConsts Gen.srcScoreOrder exQueryJ exRecord) :=
  C14_joined_words_found_src exSorter exSorter_ok exStore exQueryJ 0 exRecord exCandJ exTitle_ok exQueryJ_ok
    (wd 0 0 6 false) (by decide) (Or.inl (by decide)) (wd 0 0 3 true) (wd 1 4 7 true) (by decide) (by decide)
    (by decide) _ exMatchJ (by decide)

end C13Example

end Lucid
