/-
  LucidModel.Safe — trap sites. For every function of the pipeline a Boolean that is the conjunction of
  the conditions under which no `usize` subtraction underflows, no index or slice is out of range, no
  `unwrap`/`panic!`/`debug_assert!` fires and no unchecked access leaves its buffer, *on the path the
  function actually takes* for its arguments (the value-level model functions are total and are reused
  for the control flow). Property C01 is the theorem that these are `true` for every input.
-/
import LucidModel.Registry
import LucidModel.DamlevChecked

namespace Lucid

/-- every word slice is `lo ≤ hi ≤ chars.len()` and the class array covers it -/
def Text.wordsInBounds (t : Text) : Bool :=
  t.words.all (fun w => decide (w.lo ≤ w.hi) && decide (w.hi ≤ t.chars.length))

def Text.classesCover (t : Text) : Bool :=
  t.words.all (fun w => decide (w.hi ≤ t.classes.length))

/-- trap sites of one tokenizer step on the text it is applied to -/
def TokStep.safe (E : Env) (t : Text) : TokStep → Bool
  | .normalize => t.normalizeSafe E
  | .fin _ => true
  | .split _ => t.wordsInBounds
  | .strip _ => t.wordsInBounds
  | .lower => true
  | .setPos => t.wordsInBounds
  | .setCharClasses => true
  | .setStem => t.wordsInBounds

def runStepsSafeFrom (E : Env) : List TokStep → Text → Bool
  | [], _ => true
  | s :: rest, t => s.safe E t && runStepsSafeFrom E rest (s.run E t)

/-- `tokenize_query` / `tokenize_record` never trap on `s` -/
def runStepsSafe (E : Env) (steps : List TokStep) (s : List Nat) : Bool :=
  runStepsSafeFrom E steps (Text.fromChars s)

/-- a word view whose slices of `chars` and `classes` are in range -/
def viewSafe (t : Text) (w : WordShape) : Bool :=
  decide (w.lo ≤ w.hi) && decide (w.hi ≤ t.chars.length) && decide (w.hi ≤ t.classes.length)

/-- `WordMatch::new_pair` debug assertions -/
def newPairSafe (r q : WordShape) (rslice qslice : Nat) : Bool :=
  decide (r.lo + rslice ≤ r.hi) && decide (q.lo + qslice ≤ q.hi)

/-- the pairs `(qslice, rslice)` for which `word_match` reads a cell and may build a pair: same guards as `wmInner` -/
def wmInnerSafe (c : WMCtx) (m : Mat) (rslice : Nat) : List Nat → Option (WMatch × WMatch) → Bool
  | [], _ => true
  | qslice :: rest, best =>
    if qslice > c.q.len then wmInnerSafe c m rslice rest best
    else if rslice > c.r.len then wmInnerSafe c m rslice rest best
    else if qslice < c.q.stem then wmInnerSafe c m rslice rest best
    else if rslice = c.left ∧ qslice = c.left then wmInnerSafe c m rslice rest best
    else if c.q.fin ∧ rslice < c.r.stem then true
    else if (if qslice ≥ rslice then qslice - rslice else rslice - qslice) > 1 then wmInnerSafe c m rslice rest best
    else
      -- `dists.get(i, j)` is a checked index into the flat buffer
      decide ((qslice + 1) * m.size + (rslice + 1) < m.raw.size) &&
      (let dist := c.cell qslice rslice
       if relTooBig c.K dist qslice rslice then wmInnerSafe c m rslice rest best
       else
         newPairSafe c.r c.q rslice qslice &&
         (let best' := match best with
            | some p => if p.1.typos ≤ dist then some p else some (newPair c.K c.r c.q rslice qslice dist)
            | none => some (newPair c.K c.r c.q rslice qslice dist)
          if dist = 0 then true else wmInnerSafe c m rslice rest best'))

def wmOuterSafe (c : WMCtx) (m : Mat) (range : List Nat) : List Nat → Option (WMatch × WMatch) → Bool
  | [], _ => true
  | rslice :: rest, best => wmInnerSafe c m rslice range best && wmOuterSafe c m range rest (wmInner c rslice range best)

/-- trap sites of `word_match` on a given matrix state -/
def wordMatchSafeM (K : Consts) (m : Mat) (rt : Text) (r : WordShape) (qt : Text) (q : WordShape) : Bool :=
  viewSafe rt r && viewSafe qt q &&
  (if q.len = 0 ∨ r.len = 0 then true else
   if !lengthCheck K r q then true else
   if !jaccardCheck K rt r qt q then true else
   match distanceC K m (cword K qt q) (cword K rt r) with
   | none => false
   | some (_, m') =>
     wmLeftSafe r q &&
     (let left := wmLeftRaw r q - 1
      let right := max q.len r.len + 1
      if right ≤ left then true else
      let range := descRange left right
      let c : WMCtx := { K := K, r := r, q := q, left := left, cell := fun qs rs => m'.get (qs + 1) (rs + 1) }
      wmOuterSafe c m' range range none))

def wordMatchSafe (K : Consts) (rt : Text) (r : WordShape) (qt : Text) (q : WordShape) : Bool :=
  wordMatchSafeM K (Mat.new (K.matCap + 2)) rt r qt q

/-- `WordView::join`: `other.slice.0 - self.slice.0` -/
def joinSafe (a b : WordShape) : Bool := decide (a.lo ≤ b.lo)

/-- `WordMatch::split`: the two `debug_assert!`s and `subslice.1 - (w2.slice.0 - w1.slice.0)` -/
def splitSafe (m : WMatch) (w1 w2 : WordShape) : Bool :=
  decide (w1.lo < w2.lo) && (decide (w1.offset = m.offset) || decide (w2.offset = m.offset)) &&
  (decide (w1.lo + m.subHi ≤ w2.lo) || (decide (w2.lo - w1.lo ≤ m.subHi) && decide (w1.lo ≤ w1.hi) && decide (w2.lo ≤ w2.hi)))

def inRangeOpt (n : Nat) (i : Nat) : Bool := decide (i < n)

/-- trap sites of one `tmStep` (the three closures in source order) -/
def tmStepSafe (K : Consts) (rt qt : Text) (q : WordShape) (s : TMState) (r : WordShape) : Bool :=
  -- closure 1
  (match rt.words[r.offset + 1]? with
   | none => true
   | some rnext =>
     decide (q.lo ≤ q.hi) && decide (r.lo ≤ r.hi) && r.distSafe rnext &&
     (if q.len < r.len + r.dist rnext then true else
      match s.rm[r.offset + 1]? with
      | none => true
      | some (some _) => true
      | some none =>
        joinSafe r rnext && wordMatchSafe K rt (r.join rnext) qt q &&
        (match wordMatch K rt (r.join rnext) qt q with
         | none => true
         | some (rmatch, qmatch) =>
           splitSafe rmatch r rnext &&
           (match rmatch.split K r rnext with
            | none => true
            | some (r1, r2) => inRangeOpt s.rm.length r1.offset && inRangeOpt s.rm.length r2.offset && inRangeOpt s.qm.length qmatch.offset)))) &&
  -- closure 2 (only evaluated when closure 1 yields nothing)
  (match tryJoinR K rt qt s r q with
   | some _ => true
   | none =>
     (match qt.words[q.offset + 1]? with
      | none => true
      | some qnext =>
        decide (q.lo ≤ q.hi) && decide (r.lo ≤ r.hi) && q.distSafe qnext &&
        (if r.len < q.len + q.dist qnext then true else
         match s.qm[q.offset + 1]? with
         | none => true
         | some (some _) => true
         | some none =>
           joinSafe q qnext && wordMatchSafe K rt r qt (q.join qnext) &&
           (match wordMatch K rt r qt (q.join qnext) with
            | none => true
            | some (rmatch, qmatch) =>
              splitSafe qmatch q qnext &&
              (match qmatch.split K q qnext with
               | none => true
               | some (q1, q2) => inRangeOpt s.rm.length rmatch.offset && inRangeOpt s.qm.length q1.offset && inRangeOpt s.qm.length q2.offset)))) &&
     -- closure 3
     (match tryJoinQ K rt qt s r q with
      | some _ => true
      | none =>
        wordMatchSafe K rt r qt q &&
        (match wordMatch K rt r qt q with
         | none => true
         | some (r2, _) =>
           candScoreSafe r2 && (match s.cand with | some (m, _) => candScoreSafe m | none => true))))

def tmScanSafe (K : Consts) (rt qt : Text) (q : WordShape) : List WordShape → TMState → Bool
  | [], _ => true
  | r :: rs, s =>
    inRangeOpt s.rm.length r.offset &&
    (if isSet s.rm r.offset then tmScanSafe K rt qt q rs s
     else
       tmStepSafe K rt qt q s r &&
       (let (s', stop) := tmStep K rt qt q s r
        if stop then true else tmScanSafe K rt qt q rs s'))

def tmCommitSafe (s : TMState) : Bool :=
  match s.cand with
  | none => true
  | some (rmm, qmm) => inRangeOpt s.rm.length rmm.offset && inRangeOpt s.qm.length qmm.offset

def tmQuerySafe (K : Consts) (rt qt : Text) (s : TMState) (q : WordShape) : Bool :=
  inRangeOpt s.qm.length q.offset &&
  (if isSet s.qm q.offset then true
   else tmScanSafe K rt qt q rt.words { s with cand := none } &&
        tmCommitSafe (tmScan K rt qt q rt.words { s with cand := none }))

def tmFoldSafe (K : Consts) (rt qt : Text) : List WordShape → TMState → Bool
  | [], _ => true
  | q :: qs, s => tmQuerySafe K rt qt s q && tmFoldSafe K rt qt qs (tmQuery K rt qt s q)

/-- `text_match` never traps -/
def textMatchSafe (K : Consts) (rt qt : Text) : Bool :=
  tmFoldSafe K rt qt qt.words
    { rm := List.replicate rt.words.length none, qm := List.replicate qt.words.length none, cand := none }

/-- `score::score`, `filter::hit_matches`, `highlight` on one record -/
def hitSafe (K : Consts) (order : List ScoreType) (q : Text) (r : Record) : Bool :=
  textMatchSafe K r.title q &&
  (let h := scoreHit K order q r
   scoreTailsSafe h.rmatches &&
   r.title.words.all (fun w => decide (w.lo ≤ w.hi)) &&
   (h.rmatches ++ h.qmatches).all (fun m => decide (m.lo ≤ m.hi)) &&
   hlSafe r.title.source h.rmatches r.title.words 0 0)

/-- `collect_grams`: word slices in range -/
def gramsSafe (t : Text) : Bool := t.wordsInBounds

/-- `Store::add` -/
def Store.addSafe (st : Store) (title : Text) : Bool :=
  decide (st.nextIx = st.records.length) && gramsSafe title && st.index.addSafe st.nextIx title

/-- `Store::search` -/
def Store.searchSafe (S : Sorter) (K : Consts) (order : List ScoreType) (st : Store) (q : Text) : Bool :=
  let ixs := (st.candidatesM S K q).1
  (if q.words.length > 0 then gramsSafe q && st.index.prepareSafe q else true) &&
  ixs.all (fun ix => decide (ix < st.records.length)) &&
  (ixs.filterMap (fun ix => st.records[ix]?)).all (hitSafe K order q)

end Lucid
