/-
  LucidModel.DamlevChecked — the same loops as `LucidModel.Damlev`, but every access that is unchecked
  in the source (`get_unchecked` / `set_unchecked` on the matrix with row and column checked
  *separately* against the current dimension, `get_unchecked` on the cost vectors and on the
  characters) goes through a checked accessor that fails with `none` when out of range.
  C19 is the theorem that the checked run never fails and equals the unchecked run.
-/
import LucidModel.Damlev

namespace Lucid

def Mat.getC (m : Mat) (i j : Nat) : Option Nat :=
  if i < m.size ∧ j < m.size then some (m.get i j) else none

def Mat.setC (m : Mat) (i j v : Nat) : Option Mat :=
  if i < m.size ∧ j < m.size then some (m.set i j v) else none

/-- monadic left fold -/
def foldlO {σ α : Type} (f : σ → α → Option σ) : σ → List α → Option σ
  | s, [] => some s
  | s, x :: xs => match f s x with
    | some s' => foldlO f s' xs
    | none => none

def Mat.initC (m : Mat) : Option Mat :=
  if m.size = 0 then some m else
  match foldlO (fun m i => match m.setC i 0 (10 * m.size) with
      | some m1 => m1.setC 0 i (10 * m1.size)
      | none => none) m (List.range m.size) with
  | none => none
  | some m =>
    foldlO (fun m i => match m.setC i 1 (10 * (i - 1)) with
      | some m1 => m1.setC 1 i (10 * (i - 1))
      | none => none) m (List.range' 1 (m.size - 1))

def Mat.growC (m : Mat) (need : Nat) : Option Mat :=
  if need > m.size then
    let size := need + need / 2
    Mat.initC { size := size, raw := arrResize m.raw (size * size) }
  else some m

def Mat.prepareC (m : Mat) (c1 c2 : List Nat) : Option Mat :=
  match m.growC (max (c1.length + 2) (c2.length + 2)) with
  | none => none
  | some m =>
    match foldlO (fun m (p : Nat × Nat) => match m.getC (p.2 + 1) 1 with
        | some prev => m.setC (p.2 + 2) 1 (prev + p.1)
        | none => none) m c1.zipIdx with
    | none => none
    | some m =>
      foldlO (fun m (p : Nat × Nat) => match m.getC 1 (p.2 + 1) with
        | some prev => m.setC 1 (p.2 + 2) (prev + p.1)
        | none => none) m c2.zipIdx

/-- checked body of the inner loop: cost and character reads are bounds-checked too -/
def dlInnerC (K : Consts) (a b : CWord) (i1 : Nat) (last : List (Nat × Nat)) (st : Mat × Nat) (i2 : Nat) : Option (Mat × Nat) :=
  let (m, l2) := st
  match a.ch[i1]?, b.ch[i2]?, a.cost[i1]?, b.cost[i2]? with
  | some ch1, some ch2, some cost1, some cost2 =>
    let l1 := lastGet last ch2
    match (if i1 > 0 then a.ch[i1 - 1]? else some 0), (if i2 > 0 then b.ch[i2 - 1]? else some 0) with
    | some p1, some p2 =>
      let double1 := decide (i1 > 0) && (ch1 == p1)
      let costDel := min cost1 (if double1 then K.costDouble else K.costSingle)
      let double2 := decide (i2 > 0) && (ch2 == p2)
      let costAdd := min cost2 (if double2 then K.costDouble else K.costSingle)
      let costSub := if ch1 == ch2 then 0 else max cost1 cost2
      let costTrans := K.costTrans * ((i1 - l1) + (i2 - l2) + 1)
      match m.getC (i1 + 2) (i2 + 1), m.getC (i1 + 1) (i2 + 2), m.getC (i1 + 1) (i2 + 1), m.getC l1 l2 with
      | some vAdd, some vDel, some vSub, some vTr =>
        let d := min4 (costAdd + vAdd) (costDel + vDel) (costSub + vSub) (costTrans + vTr)
        match m.setC (i1 + 2) (i2 + 2) d with
        | some m' => some (m', if ch1 == ch2 then i2 + 1 else l2)
        | none => none
      | _, _, _, _ => none
    | _, _ => none
  | _, _, _, _ => none

def dlOuterC (K : Consts) (a b : CWord) (st : Mat × List (Nat × Nat)) (i1 : Nat) : Option (Mat × List (Nat × Nat)) :=
  match foldlO (dlInnerC K a b i1 st.2) (st.1, 0) (List.range b.len) with
  | some r => some (r.1, (a.c i1, i1 + 1) :: st.2)
  | none => none

/-- checked `distance`: `none` iff some unchecked access of the source would be out of range -/
def distanceC (K : Consts) (m : Mat) (a b : CWord) : Option (Nat × Mat) :=
  match m.prepareC a.cost b.cost with
  | none => none
  | some m =>
    match foldlO (dlOuterC K a b) (m, []) (List.range a.len) with
    | none => none
    | some r =>
      match r.1.getC (a.len + 1) (b.len + 1) with
      | some d => some (d, r.1)
      | none => none

end Lucid
