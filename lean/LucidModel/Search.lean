/-
  LucidModel.Search — `search/{score,filter,sort,highlight,mod}.rs`, `store/{record,store}.rs`.
-/
import LucidModel.TextMatch
import LucidModel.Index

namespace Lucid

/-- `store/record.rs: struct Record` -/
structure Record where
  ix     : Nat
  id     : Nat
  title  : Text
  rating : Nat
deriving Repr, Inhabited, DecidableEq

/-- `search/hit.rs: struct Hit` after `score::score` -/
structure Hit where
  ix       : Nat
  id       : Nat
  title    : Text
  rating   : Nat
  rmatches : List WMatch
  qmatches : List WMatch
  scores   : List Int
deriving Repr, Inhabited, DecidableEq

/-- `score_chars_up` (signed after the D1 fix) -/
def scoreChars (rm : List WMatch) : Int :=
  (rm.map (fun m => (m.matchLen : Int) - 2 * (ceilTenths m.typos : Int))).sum

def scoreWords (rm : List WMatch) : Int := ((rm.filter (fun m => !m.func)).length : Int)

/-- `score_tails_down`; `word_len() - match_len()` is a `usize` subtraction (trap site) -/
def scoreTails (rm : List WMatch) : Int := - (((rm.map (fun m => m.wordLen - m.matchLen)).sum : Nat) : Int)
def scoreTailsSafe (rm : List WMatch) : Bool := rm.all (fun m => decide (m.matchLen ≤ m.wordLen))

def transCount : List WMatch → Nat
  | a :: b :: rest =>
    (if a.offset + 1 > b.offset then a.offset + 1 - b.offset else 0) +
    (if a.offset + 1 < b.offset then b.offset - a.offset - 1 else 0) + transCount (b :: rest)
  | _ => 0

def scoreTrans (rm : List WMatch) : Int := - ((transCount rm : Nat) : Int)

def scoreFin (rm : List WMatch) : Int :=
  match rm.getLast? with
  | some m => if m.fin then 1 else 0
  | none => 1

def scoreOffset (rm : List WMatch) : Int :=
  - (((rm.map (·.offset)).min?.getD 0 : Nat) : Int)

/-- the named score components; their order in the vector is generated from `enum ScoreType` -/
inductive ScoreType where
  | chars | words | tails | trans | fin | offset | rating | wordLen | charLen
deriving Repr, DecidableEq

def scoreOf (title : Text) (rating : Nat) (rm : List WMatch) : ScoreType → Int
  | .chars => scoreChars rm
  | .words => scoreWords rm
  | .tails => scoreTails rm
  | .trans => scoreTrans rm
  | .fin => scoreFin rm
  | .offset => scoreOffset rm
  | .rating => (rating : Int)
  | .wordLen => - (title.words.length : Int)
  | .charLen => - (((title.words.map (·.len)).sum : Nat) : Int)

/-- `score::score`: run `text_match`, fill the score vector in `order` -/
def scoreHit (K : Consts) (order : List ScoreType) (q : Text) (r : Record) : Hit :=
  let (rm, qm) := textMatch K r.title q
  { ix := r.ix, id := r.id, title := r.title, rating := r.rating, rmatches := rm, qmatches := qm,
    scores := order.map (scoreOf r.title r.rating rm) }

/-- `filter::hit_matches` -/
def hitMatches (q : Text) (h : Hit) : Bool :=
  if q.words.length = 0 then true else
  if h.rmatches.length = 0 then false else
  match h.rmatches, h.qmatches with
  | [rm], [qm] =>
    if q.words.length > 1 then
      let firstHalf := decide (qm.wordLen * 2 < rm.wordLen)
      !( !rm.fin && firstHalf )
    else true
  | _, _ => true

/-- `sort::compare_hits` as "h1 is not after h2": first differing component decides, larger first -/
def scoresLe : List Int → List Int → Bool
  | [], _ => true
  | _ :: _, [] => false
  | a :: as, b :: bs => if a = b then scoresLe as bs else decide (b < a)

def hitLe (h1 h2 : Hit) : Bool := scoresLe h1.scores h2.scores

/-- `highlight::highlight`: one pass over the words copying gaps, markers and word pieces of `source`;
    NUL padding removed at the end -/
def hlWalk (source : List Nat) (rm : List WMatch) (dl dr : List Nat) : List WordShape → Nat → Nat → List Nat
  | [], _, off => source.drop off
  | w :: ws, wi, off =>
    (match rm.find? (fun m => m.offset == wi) with
     | some m =>
       let ms := w.lo + m.subLo
       let me := w.lo + m.subHi
       slice source off ms ++ dl ++ slice source ms me ++ dr ++ slice source me w.hi
     | none => slice source off w.hi) ++ hlWalk source rm dl dr ws (wi + 1) w.hi

def highlight (h : Hit) (dl dr : List Nat) : List Nat :=
  (hlWalk h.title.source h.rmatches dl dr h.title.words 0 0).filter (· != 0)

/-- trap sites of `highlight`: every slice of `source` is `lo ≤ hi ≤ len` -/
def hlSafe (source : List Nat) (rm : List WMatch) : List WordShape → Nat → Nat → Bool
  | [], _, off => decide (off ≤ source.length)
  | w :: ws, wi, off =>
    (match rm.find? (fun m => m.offset == wi) with
     | some m => decide (off ≤ w.lo + m.subLo) && decide (m.subLo ≤ m.subHi) && decide (w.lo + m.subHi ≤ w.hi)
     | none => decide (off ≤ w.hi)) && decide (w.hi ≤ source.length) && hlSafe source rm ws (wi + 1) w.hi

/-- `SearchResult` -/
structure Result where
  id    : Nat
  title : List Nat
deriving Repr, Inhabited, DecidableEq

/-- `store/store.rs: struct Store` (the language is part of `Env`) -/
structure Store where
  nextIx   : Nat
  records  : List Record
  limit    : Nat
  dividers : List Nat × List Nat
  index    : Index
  topIxs   : Option (Nat × List Nat)
deriving Repr, Inhabited, DecidableEq

def Store.new (K : Consts) : Store :=
  { nextIx := 0, records := [], limit := K.defaultLimit, dividers := (K.dividerL, K.dividerR), index := Index.new, topIxs := none }

/-- `Store::add` (after the D2 fix: the cache is dropped) -/
def Store.add (st : Store) (id : Nat) (title : Text) (rating : Nat) : Store :=
  { st with
    index := st.index.add st.nextIx title,
    records := st.records ++ [{ ix := st.nextIx, id := id, title := title, rating := rating }],
    nextIx := st.nextIx + 1,
    topIxs := none }

/-- `Store::clear` (after the D3 fix: index and cache are reset) -/
def Store.clear (st : Store) : Store :=
  { st with records := [], nextIx := 0, index := Index.new, topIxs := none }

def Store.setLimit (st : Store) (n : Nat) : Store := { st with limit := n }
def Store.setDividers (st : Store) (l r : List Nat) : Store := { st with dividers := (l, r) }

/-- lexicographic `Vec<char>` comparison `a ≤ b` -/
def charsLe : List Nat → List Nat → Bool
  | [], _ => true
  | _ :: _, [] => false
  | a :: as, b :: bs => if a = b then charsLe as bs else decide (a < b)

/-- comparator of `top_ixs`: rating descending, then normalised title ascending -/
def topLe (r1 r2 : Record) : Bool :=
  if r1.rating = r2.rating then charsLe r1.title.chars r2.title.chars else decide (r2.rating < r1.rating)

/-- `Store::top_ixs`: `(list, store with the cache filled)` -/
def Store.topIxsM (S : Sorter) (K : Consts) (st : Store) : List Nat × Store :=
  match st.topIxs with
  | some (lim, ixs) =>
    if lim = st.limit then (ixs, st)
    else
      let ixs := (limitSort (S.sort topLe) K.sortFactor st.limit st.records).map (·.ix)
      (ixs, { st with topIxs := some (st.limit, ixs) })
  | none =>
    let ixs := (limitSort (S.sort topLe) K.sortFactor st.limit st.records).map (·.ix)
    (ixs, { st with topIxs := some (st.limit, ixs) })

/-- candidate positions for a query -/
def Store.candidatesM (S : Sorter) (K : Consts) (st : Store) (q : Text) : List Nat × Store :=
  if q.words.length > 0 then (st.index.prepare S K q st.limit, st) else st.topIxsM S K

/-- the scored hits that pass the filter, in candidate order (input of the bounded selection);
    `self.records[ix]` is a trap site -/
def Store.hitsOf (K : Consts) (order : List ScoreType) (st : Store) (q : Text) (ixs : List Nat) : List Hit :=
  ((ixs.filterMap (fun ix => st.records[ix]?)).map (scoreHit K order q)).filter (hitMatches q)

def Store.render (st : Store) (h : Hit) : Result :=
  { id := h.id, title := highlight h st.dividers.1 st.dividers.2 }

/-- `Store::search`: `(results, store after the call)` -/
def Store.searchM (S : Sorter) (K : Consts) (order : List ScoreType) (st : Store) (q : Text) : List Result × Store :=
  let (ixs, st') := st.candidatesM S K q
  let top := limitSort (S.sort hitLe) K.sortFactor st.limit (st.hitsOf K order q ixs)
  (top.map st.render, st')

def Store.search (S : Sorter) (K : Consts) (order : List ScoreType) (st : Store) (q : Text) : List Result :=
  (st.searchM S K order q).1

end Lucid
