/-
  LucidModel.Index — `utils/trigrams.rs`, `store/trigram_index.rs`.
-/
import LucidModel.Tokenize
import LucidModel.LimitSort

namespace Lucid

abbrev Gram := Nat × Nat × Nat

/-- sliding windows of three characters -/
def windows3 : List Nat → List Gram
  | a :: b :: c :: rest => (a, b, c) :: windows3 (b :: c :: rest)
  | _ => []

/-- `TrigramIter`: the one- and two-character prefixes padded with NUL, then every window of three -/
def trigrams (cs : List Nat) : List Gram :=
  (match cs with
   | [] => []
   | [a] => [(a, 0, 0)]
   | a :: b :: _ => [(a, 0, 0), (a, b, 0)]) ++ windows3 cs

def gramLt (a b : Gram) : Bool :=
  a.1 < b.1 || (a.1 == b.1 && (a.2.1 < b.2.1 || (a.2.1 == b.2.1 && a.2.2 < b.2.2)))

/-- insertion into a strictly ascending list, dropping duplicates: the result of
    `sort_unstable(); dedup()` is this canonical list whatever the sort does -/
def gramInsert (g : Gram) : List Gram → List Gram
  | [] => [g]
  | h :: t => if gramLt g h then g :: h :: t else if g = h then h :: t else h :: gramInsert g t

def gramSet (gs : List Gram) : List Gram := gs.foldr gramInsert []

/-- `TrigramIndex::collect_grams` -/
def collectGrams (t : Text) : List Gram :=
  gramSet ((t.words.map (fun w => trigrams (slice t.chars w.lo w.hi))).flatten)

/-- `struct TrigramIndex` without the scratch `counts` vector (cleared and resized on every call) -/
structure Index where
  len  : Nat
  dict : List (Gram × List Nat)
deriving Repr, Inhabited, DecidableEq

def Index.new : Index := { len := 0, dict := [] }

/-- `dict.entry(gram).and_modify(push ix).or_insert(vec![ix])` -/
def dictPush (g : Gram) (ix : Nat) : List (Gram × List Nat) → List (Gram × List Nat)
  | [] => [(g, [ix])]
  | (h, ixs) :: rest => if h = g then (h, ixs ++ [ix]) :: rest else (h, ixs) :: dictPush g ix rest

def dictGet (d : List (Gram × List Nat)) (g : Gram) : Option (List Nat) :=
  (d.find? (fun e => e.1 = g)).map (·.2)

/-- `TrigramIndex::add` (the record's position `ix` is assigned by `Store::add`) -/
def Index.add (idx : Index) (ix : Nat) (title : Text) : Index :=
  { len := idx.len + 1, dict := (collectGrams title).foldl (fun d g => dictPush g ix d) idx.dict }

/-- trap site: `debug_assert!(ixs.last() < ix)` -/
def Index.addSafe (idx : Index) (ix : Nat) (title : Text) : Bool :=
  (collectGrams title).all (fun g => match dictGet idx.dict g with
    | some ixs => (match ixs.getLast? with | some l => decide (l < ix) | none => true)
    | none => true)

def bump (counts : List Nat) (ix : Nat) : List Nat := counts.modify ix (· + 1)

/-- the counting loop of `prepare`: one increment per (query gram, posting) pair -/
def countShared (idx : Index) (qgrams : List Gram) : List Nat :=
  qgrams.foldl (fun counts g =>
    match dictGet idx.dict g with
    | some ixs => ixs.foldl bump counts
    | none => counts) (List.replicate idx.len 0)

/-- trap site: `counts.get_unchecked_mut(ix)` needs `ix < len` -/
def Index.prepareSafe (idx : Index) (q : Text) : Bool :=
  (collectGrams q).all (fun g => match dictGet idx.dict g with
    | some ixs => ixs.all (fun ix => decide (ix < idx.len))
    | none => true)

/-- `(ix, count)` pairs with a positive count, in position order (input of the bounded selection) -/
def positiveCounts (idx : Index) (q : Text) : List (Nat × Nat) :=
  ((countShared idx (collectGrams q)).zipIdx.map (fun (c, i) => (i, c))).filter (fun p => decide (p.2 > 0))

/-- comparator `count2.cmp(count1)` as "a is not after b" -/
def countLe (a b : Nat × Nat) : Bool := decide (b.2 ≤ a.2)

/-- `TrigramIndex::prepare` -/
def Index.prepare (S : Sorter) (K : Consts) (idx : Index) (q : Text) (size : Nat) : List Nat :=
  if q.words.length = 0 then [] else
  (limitSort (S.sort countLe) K.sortFactor (size * K.prepFactor) (positiveCounts idx q)).map (·.1)

end Lucid
