/-
  LucidModel.Tokenize — `tokenization/{mod,text,word_shape,word_split}.rs`.
-/
import LucidModel.Lang

namespace Lucid

/-- `TextOwn::from_str`: one finished word covering the whole text, every class `Any`. -/
def Text.fromChars (s : List Nat) : Text :=
  { words := [{ offset := 0, lo := 0, hi := s.length, stem := s.length, pos := none, fin := true }],
    source := s, chars := s, classes := s.map (fun _ => CharClass.any) }

/-- replace the upper slice bound of the first word (`self.words[0].slice.1 = self.chars.len()`) -/
def setFirstHi (ws : List WordShape) (n : Nat) : List WordShape :=
  match ws with
  | [] => []
  | w :: rest => { w with hi := n } :: rest

/-- `TextOwn::normalize`. The `panic!` for more than one word is a trap site (`normalizeSafe`). -/
def Text.normalize (E : Env) (t : Text) : Text :=
  if t.words.length = 0 then t else
  let nfc := compose E.T t.source
  let t1 : Text := if nfc = t.source then t else { t with source := nfc, chars := nfc, words := setFirstHi t.words nfc.length }
  match reduce E.T t1.chars with
  | some (src, chs) => { t1 with source := src, chars := chs, words := setFirstHi t1.words chs.length }
  | none => t1

def Text.normalizeSafe (E : Env) (t : Text) : Bool :=
  t.words.length ≤ 1 && (t.words.length = 0 || reduceSafe E.T.reduce
    (let nfc := compose E.T t.source; if nfc = t.source then t.chars else nfc))

/-- `TextOwn::fin`: set the flag of the last word -/
def setLastFin (ws : List WordShape) (fin : Bool) : List WordShape :=
  match ws with
  | [] => []
  | [w] => [{ w with fin := fin }]
  | w :: rest => w :: setLastFin rest fin

def Text.setFin (t : Text) (fin : Bool) : Text := { t with words := setLastFin t.words fin }

/-- Maximal runs of non-separator characters of `cs`, as `(start, end)` positions counted from `pos`;
    `cur` is the start of the run being read. This is what the `WordSplit` iterator yields
    (skip separators, take non-separators, stop when nothing is left). -/
def splitSpans (isSep : Nat → Bool) : List Nat → Nat → Option Nat → List (Nat × Nat)
  | [], _, none => []
  | [], pos, some s => [(s, pos)]
  | c :: cs, pos, none =>
    if isSep c then splitSpans isSep cs (pos + 1) none else splitSpans isSep cs (pos + 1) (some pos)
  | c :: cs, pos, some s =>
    if isSep c then (s, pos) :: splitSpans isSep cs (pos + 1) none else splitSpans isSep cs (pos + 1) (some s)

/-- `WordShape::split` for one word: spans are relative to the word's own slice -/
def splitWord (isSep : Nat → Bool) (chars : List Nat) (w : WordShape) : List WordShape :=
  (splitSpans isSep (slice chars w.lo w.hi) 0 none).map (fun (s, e) =>
    { offset := 0, lo := w.lo + s, hi := w.lo + e, stem := e - s, pos := none,
      fin := w.fin || decide (e < w.len) })

/-- renumber `offset` = position in the list -/
def renumber (ws : List WordShape) : List WordShape :=
  (ws.zipIdx).map (fun (w, i) => { w with offset := i })

/-- `TextOwn::split` -/
def Text.split (E : Env) (ps : List CharClass) (t : Text) : Text :=
  { t with words := renumber ((t.words.map (splitWord (patMatches E ps) t.chars)).flatten) }

/-- `WordShape::strip` -/
def stripWord (isPat : Nat → Bool) (chars : List Nat) (w : WordShape) : WordShape :=
  let cs := slice chars w.lo w.hi
  let left := (cs.takeWhile isPat).length
  let right := ((cs.reverse.takeWhile isPat).take (cs.length - left)).length
  { w with lo := w.lo + left, hi := w.hi - right, fin := w.fin || decide (right ≠ 0) }

/-- `TextOwn::strip` -/
def Text.strip (E : Env) (ps : List CharClass) (t : Text) : Text :=
  { t with words := renumber ((t.words.map (stripWord (patMatches E ps) t.chars)).filter (fun w => decide (w.len > 0))) }

/-- `TextOwn::lower` (after the D5 fix): map every character to the first character of its `to_lowercase()` -/
def Text.lower (E : Env) (t : Text) : Text := { t with chars := t.chars.map E.U.lower1 }

/-- `TextOwn::set_pos` -/
def Text.setPos (E : Env) (t : Text) : Text :=
  { t with words := t.words.map (fun w => { w with pos := getPos E.T (slice t.chars w.lo w.hi) }) }

/-- class assigned to one character by `set_char_classes` -/
def classOf (E : Env) (c : Nat) : CharClass :=
  match getCharClass E.T c with
  | some k => k
  | none => if !E.U.isAlphabetic c then .notAlpha else .any

/-- `TextOwn::set_char_classes` (resize to `chars.len()`, then overwrite every entry) -/
def Text.setCharClasses (E : Env) (t : Text) : Text := { t with classes := t.chars.map (classOf E) }

/-- `TextOwn::set_stem` -/
def Text.setStem (E : Env) (t : Text) : Text :=
  { t with words := t.words.map (fun w => { w with stem := (if E.T.stemmer then E.stem (slice t.chars w.lo w.hi) else w.len) }) }

/-- One step of the tokenizer pipelines in `tokenization/mod.rs`; the two step lists are generated
    from the source (`Gen/Consts.lean`). -/
inductive TokStep where
  | normalize
  | fin (b : Bool)
  | split (ps : List CharClass)
  | strip (ps : List CharClass)
  | lower
  | setPos
  | setCharClasses
  | setStem
deriving Repr, DecidableEq

def TokStep.run (E : Env) (t : Text) : TokStep → Text
  | .normalize => t.normalize E
  | .fin b => t.setFin b
  | .split ps => t.split E ps
  | .strip ps => t.strip E ps
  | .lower => t.lower E
  | .setPos => t.setPos E
  | .setCharClasses => t.setCharClasses E
  | .setStem => t.setStem E

def runSteps (E : Env) (steps : List TokStep) (s : List Nat) : Text :=
  steps.foldl (TokStep.run E) (Text.fromChars s)

end Lucid
