/-
  LucidModel.LimitSort — `utils/limitsort.rs`: bounded top-k selection.
  Push items one by one; whenever `factor·limit` (factor = 2 in the source) items are buffered, sort and
  truncate to `limit`; at the end sort and truncate once more. `sort` is the sorting oracle.
-/
import LucidModel.Basic

namespace Lucid
variable {α : Type}

def limitLoop (sort : List α → List α) (factor limit : Nat) : List α → List α → List α
  | buf, [] => buf
  | buf, x :: xs =>
    let buf' := buf ++ [x]
    if buf'.length ≥ limit * factor then limitLoop sort factor limit ((sort buf').take limit) xs
    else limitLoop sort factor limit buf' xs

def limitSort (sort : List α → List α) (factor limit : Nat) (xs : List α) : List α :=
  (sort (limitLoop sort factor limit [] xs)).take limit

end Lucid
