/-
  LucidModel.Basic — data types shared by the whole model of `rust/core`.

  Characters are Unicode scalar values as `Nat`; NUL is `0`. Texts are `List Nat`.
  Everything that is *not* logic of the repository (Unicode character predicates of `std`,
  the Snowball stemmers, `sort_unstable_by`) is an explicit oracle parameter (`Env`, `Sorter`).
  Numeric constants and language tables are parameters too (`Consts`, `LangTables`); their
  concrete values are *generated from the Rust source* into `LucidModel/Gen/*.lean`.
-/

namespace Lucid

/-- `lang/char_class.rs: enum CharClass` -/
inductive CharClass where
  | any | control | whitespace | punctuation | notAlpha | notAlphaNum | consonant | vowel
deriving DecidableEq, Repr, Inhabited

/-- `lang/pos.rs: enum PartOfSpeech` (spelling of `Intejection` as in the source) -/
inductive Pos where
  | noun | pronoun | verb | adjective | adverb | preposition | conjunction | particle | intejection | article
deriving DecidableEq, Repr, Inhabited

/-- `tokenization/word_shape.rs: struct WordShape`; `slice = (lo, hi)` -/
structure WordShape where
  offset : Nat
  lo     : Nat
  hi     : Nat
  stem   : Nat
  pos    : Option Pos
  fin    : Bool
deriving DecidableEq, Repr, Inhabited

def WordShape.len (w : WordShape) : Nat := w.hi - w.lo

/-- `tokenization/text.rs: struct Text` (owned or borrowed, same fields) -/
structure Text where
  words   : List WordShape
  source  : List Nat
  chars   : List Nat
  classes : List CharClass
deriving DecidableEq, Repr, Inhabited

/-- Oracle for the character predicates of Rust's `std` (`char::is_alphabetic`, …) and the first
    character of `char::to_lowercase`. -/
structure Unicode where
  isAlphabetic : Nat → Bool
  isNumeric    : Nat → Bool
  isWhitespace : Nat → Bool
  isControl    : Nat → Bool
  isUppercase  : Nat → Bool
  lower1       : Nat → Nat

def Unicode.isAlnum (U : Unicode) (c : Nat) : Bool := U.isAlphabetic c || U.isNumeric c

/-- Language tables exactly as written in `lang/lang_*.rs` (source order = insertion order). -/
structure LangTables where
  compose   : List (List Nat × List Nat)
  reduce    : List (List Nat × List Nat)
  funcWords : List (Pos × List Nat)
  classes   : List (CharClass × Nat)
  stemmer   : Bool
deriving Repr, Inhabited

/-- Numeric constants of the source. Thresholds are rationals `num/den`; edit costs are in tenths. -/
structure Consts where
  lenNum : Nat
  lenDen : Nat
  jacNum : Nat
  jacDen : Nat
  damNum : Nat
  damDen : Nat
  costTrans     : Nat
  costDouble    : Nat
  costVowel     : Nat
  costNotAlpha  : Nat
  costConsonant : Nat
  costDefault   : Nat
  /-- cost of inserting/deleting a character that does not repeat its predecessor (`COST_DEFAULT` in the loops) -/
  costSingle    : Nat
  matCap        : Nat
  defaultLimit  : Nat
  prepFactor    : Nat
  sortFactor    : Nat
  punctuation   : List Nat
  funcPos       : List Pos
  dividerL      : List Nat
  dividerR      : List Nat
deriving Repr, Inhabited

/-- Everything a tokenizer / matcher call depends on. `stem` is the Snowball oracle
    (`Lang::stem`: number of characters of the stem of a word). -/
structure Env where
  U    : Unicode
  K    : Consts
  T    : LangTables
  stem : List Nat → Nat

/-- Oracle for `sort_unstable_by` / `sort_by`: any function returning a sorted permutation. -/
structure Sorter where
  sort : {α : Type} → (α → α → Bool) → List α → List α

/-- slice `l[lo .. hi]` -/
def slice (l : List α) (lo hi : Nat) : List α := (l.drop lo).take (hi - lo)

end Lucid
