/-
  LucidModel.WordMatch — `tokenization/word_view.rs`, `matching/word_match.rs`, `matching/word.rs`.
-/
import LucidModel.Tokenize
import LucidModel.Jaccard
import LucidModel.Damlev

namespace Lucid

/-- `struct WordMatch`; `typos` in tenths -/
structure WMatch where
  offset : Nat
  lo     : Nat
  hi     : Nat
  subLo  : Nat
  subHi  : Nat
  typos  : Nat
  func   : Bool
  fin    : Bool
deriving Repr, Inhabited, DecidableEq

def WMatch.wordLen (m : WMatch) : Nat := m.hi - m.lo
def WMatch.matchLen (m : WMatch) : Nat := m.subHi - m.subLo

/-- `WordView::join` / `WordShape::join` -/
def WordShape.join (a b : WordShape) : WordShape :=
  { offset := a.offset, lo := a.lo, hi := b.hi, stem := b.lo - a.lo + b.stem, pos := none, fin := b.fin }

/-- `Word::dist`; the `panic!("Malformed words")` branch is a trap site (`distSafe`) -/
def WordShape.dist (a b : WordShape) : Nat :=
  if a.lo ≥ b.hi then a.lo - b.hi else b.lo - a.hi

def WordShape.distSafe (a b : WordShape) : Bool := decide (a.lo ≥ b.hi) || decide (b.lo ≥ a.hi)

def wchars (t : Text) (w : WordShape) : List Nat := slice t.chars w.lo w.hi
def wclasses (t : Text) (w : WordShape) : List CharClass := slice t.classes w.lo w.hi

def cword (K : Consts) (t : Text) (w : WordShape) : CWord :=
  { ch := wchars t w, cost := (wclasses t w).map (getCost K) }

/-- `WordMatch::new_pair` -/
def newPair (K : Consts) (r q : WordShape) (rslice qslice typos : Nat) : WMatch × WMatch :=
  let fin := q.fin || decide (r.len = rslice)
  ({ offset := r.offset, lo := r.lo, hi := r.hi, subLo := 0, subHi := rslice, typos := typos, func := isFunc K r.pos, fin := fin },
   { offset := q.offset, lo := q.lo, hi := q.hi, subLo := 0, subHi := qslice, typos := typos, func := isFunc K q.pos, fin := fin })

/-- `WordMatch::split_typos` in tenths: `ceil(t·len1/(len1+len2))` and the remainder -/
def splitTypos (t len1 len2 : Nat) : Nat × Nat :=
  if len1 = 0 then (0, t) else
  if len2 = 0 then (t, 0) else
  let s1 := (t * len1 + (len1 + len2) - 1) / (len1 + len2)
  (s1, t - s1)

/-- `WordMatch::split` -/
def WMatch.split (K : Consts) (m : WMatch) (w1 w2 : WordShape) : Option (WMatch × WMatch) :=
  if w1.lo + m.subHi ≤ w2.lo then none else
  let (t1, t2) := splitTypos m.typos w1.len w2.len
  some ({ offset := w1.offset, lo := w1.lo, hi := w1.hi, subLo := 0, subHi := w1.len, typos := t1, func := isFunc K w1.pos, fin := true },
        { offset := w2.offset, lo := w2.lo, hi := w2.hi, subLo := 0, subHi := m.subHi - (w2.lo - w1.lo), typos := t2, func := isFunc K w2.pos, fin := m.fin })

/-- `length_check`: `1 - short/long < LENGTH_THRESHOLD` cross-multiplied -/
def lengthCheck (K : Consts) (r q : WordShape) : Bool :=
  let qlen := q.len
  let rlen := if q.fin then r.len else min qlen r.len
  if qlen ≤ 1 || rlen ≤ 1 then qlen == rlen else
  let long := max qlen rlen
  let short := min qlen rlen
  decide (K.lenDen * (long - short) < K.lenNum * long)

/-- the record slice handed to the Jaccard check -/
def jaccardSlice (rt : Text) (r q : WordShape) : List Nat :=
  if q.fin then wchars rt r else (wchars rt r).take (min (q.len + 1) r.len)

/-- `jaccard_check`: `1 - i/u < JACCARD_THRESHOLD` cross-multiplied -/
def jaccardCheck (K : Consts) (rt : Text) (r : WordShape) (qt : Text) (q : WordShape) : Bool :=
  let (i, u) := jaccard (jaccardSlice rt r q) (wchars qt q)
  decide (K.jacDen * (u - i) < K.jacNum * u)

/-- fixed data of one `word_match` call -/
structure WMCtx where
  K : Consts
  r : WordShape
  q : WordShape
  left : Nat
  /-- `dists.get(qslice + 1, rslice + 1)` -/
  cell : Nat → Nat → Nat

/-- `dist / max(qslice, rslice, 1) > DAMLEV_THRESHOLD` in tenths -/
def relTooBig (K : Consts) (dist qslice rslice : Nat) : Bool :=
  decide (K.damDen * dist > K.damNum * 10 * max (max qslice rslice) 1)

/-- inner loop over `qslice` (descending) for a fixed `rslice`, with its `continue`/`break` guards -/
def wmInner (c : WMCtx) (rslice : Nat) : List Nat → Option (WMatch × WMatch) → Option (WMatch × WMatch)
  | [], best => best
  | qslice :: rest, best =>
    if qslice > c.q.len then wmInner c rslice rest best
    else if rslice > c.r.len then wmInner c rslice rest best
    else if qslice < c.q.stem then wmInner c rslice rest best
    else if rslice = c.left ∧ qslice = c.left then wmInner c rslice rest best
    else if c.q.fin ∧ rslice < c.r.stem then best
    else if (if qslice ≥ rslice then qslice - rslice else rslice - qslice) > 1 then wmInner c rslice rest best
    else
      let dist := c.cell qslice rslice
      if relTooBig c.K dist qslice rslice then wmInner c rslice rest best
      else
        let best' := match best with
          | some p => if p.1.typos ≤ dist then some p else some (newPair c.K c.r c.q rslice qslice dist)
          | none => some (newPair c.K c.r c.q rslice qslice dist)
        if dist = 0 then best' else wmInner c rslice rest best'

/-- outer loop over `rslice` (descending) -/
def wmOuter (c : WMCtx) (range : List Nat) : List Nat → Option (WMatch × WMatch) → Option (WMatch × WMatch)
  | [], best => best
  | rslice :: rest, best => wmOuter c range rest (wmInner c rslice range best)

/-- the descending range `(left .. right).rev()` -/
def descRange (left right : Nat) : List Nat := (List.range' left (right - left)).reverse

def wmLeftRaw (r q : WordShape) : Nat := if q.fin then max q.stem r.stem else q.stem

/-- trap site `... - 1` on the stem in `word_match` -/
def wmLeftSafe (r q : WordShape) : Bool := decide (wmLeftRaw r q ≥ 1)

/-- `word_match` threading the reused distance matrix (`DAMLEV` thread-local):
    `(result, matrix after the call)`. `distance(qword, rword)`: query = rows, record = columns. -/
def wordMatchM (K : Consts) (m : Mat) (rt : Text) (r : WordShape) (qt : Text) (q : WordShape) :
    Option (WMatch × WMatch) × Mat :=
  if q.len = 0 ∨ r.len = 0 then (none, m) else
  if !lengthCheck K r q then (none, m) else
  if !jaccardCheck K rt r qt q then (none, m) else
  let (_, m') := distanceM K m (cword K qt q) (cword K rt r)
  let left := wmLeftRaw r q - 1
  let right := max q.len r.len + 1
  if right ≤ left then (none, m') else
  let range := descRange left right
  let c : WMCtx := { K := K, r := r, q := q, left := left, cell := fun qs rs => m'.get (qs + 1) (rs + 1) }
  (wmOuter c range range none, m')

/-- pure value: the same function on a freshly created matrix (`DistMatrix::new(DEFAULT_CAPACITY + 2)`) -/
def wordMatch (K : Consts) (rt : Text) (r : WordShape) (qt : Text) (q : WordShape) : Option (WMatch × WMatch) :=
  (wordMatchM K (Mat.new (K.matCap + 2)) rt r qt q).1

end Lucid
