/-
  LucidModel.TextMatch — `matching/text.rs`: greedy assignment of query words to record words.
-/
import LucidModel.WordMatch

namespace Lucid

/-- scan state: the two `Vec<Option<WordMatch>>` scratch vectors and the pending candidate -/
structure TMState where
  rm   : List (Option WMatch)
  qm   : List (Option WMatch)
  cand : Option (WMatch × WMatch)
deriving Repr, Inhabited, DecidableEq

def isSet (l : List (Option WMatch)) (i : Nat) : Bool := (l.getD i none).isSome
def setAt (l : List (Option WMatch)) (i : Nat) (m : WMatch) : List (Option WMatch) := l.set i (some m)

/-- `typos.ceil()` for typos in tenths -/
def ceilTenths (t : Nat) : Nat := (t + 9) / 10

/-- `match_len() - 2 * ceil(typos)` in `usize` (trap site when negative: `candScoreSafe`) -/
def candScore (m : WMatch) : Nat := m.matchLen - 2 * ceilTenths m.typos
def candScoreSafe (m : WMatch) : Bool := decide (2 * ceilTenths m.typos ≤ m.matchLen)

/-- closure 1: record word joined with the next record word against the query word -/
def tryJoinR (K : Consts) (rt qt : Text) (s : TMState) (r q : WordShape) : Option TMState :=
  match rt.words[r.offset + 1]? with
  | none => none
  | some rnext =>
    if q.len < r.len + r.dist rnext then none else
    match s.rm[r.offset + 1]? with
    | none => none
    | some (some _) => none
    | some none =>
      match wordMatch K rt (r.join rnext) qt q with
      | none => none
      | some (rmatch, qmatch) =>
        match rmatch.split K r rnext with
        | none => none
        | some (r1, r2) =>
          some { rm := setAt (setAt s.rm r1.offset r1) r2.offset r2, qm := setAt s.qm qmatch.offset qmatch, cand := none }

/-- closure 2: query word joined with the next query word against the record word -/
def tryJoinQ (K : Consts) (rt qt : Text) (s : TMState) (r q : WordShape) : Option TMState :=
  match qt.words[q.offset + 1]? with
  | none => none
  | some qnext =>
    if r.len < q.len + q.dist qnext then none else
    match s.qm[q.offset + 1]? with
    | none => none
    | some (some _) => none
    | some none =>
      match wordMatch K rt r qt (q.join qnext) with
      | none => none
      | some (rmatch, qmatch) =>
        match qmatch.split K q qnext with
        | none => none
        | some (q1, q2) =>
          some { rm := setAt s.rm rmatch.offset rmatch, qm := setAt (setAt s.qm q1.offset q1) q2.offset q2, cand := none }

/-- replacement rule of closure 3 -/
def shouldReplace (cand : Option (WMatch × WMatch)) (r2 : WMatch) : Bool :=
  match cand with
  | none => true
  | some (m, _) => candScore m < candScore r2 || (candScore m == candScore r2 && !r2.func)

/-- one record word against the current query word: new state and the `stop` flag -/
def tmStep (K : Consts) (rt qt : Text) (q : WordShape) (s : TMState) (r : WordShape) : TMState × Bool :=
  match tryJoinR K rt qt s r q with
  | some s' => (s', true)
  | none =>
  match tryJoinQ K rt qt s r q with
  | some s' => (s', true)
  | none =>
  match wordMatch K rt r qt q with
  | none => (s, false)
  | some (r2, q2) =>
    if shouldReplace s.cand r2 then ({ s with cand := some (r2, q2) }, !r2.func) else (s, false)

/-- the scan over record words for one query word, with early exit -/
def tmScan (K : Consts) (rt qt : Text) (q : WordShape) : List WordShape → TMState → TMState
  | [], s => s
  | r :: rs, s =>
    if isSet s.rm r.offset then tmScan K rt qt q rs s
    else
      let (s', stop) := tmStep K rt qt q s r
      if stop then s' else tmScan K rt qt q rs s'

def tmCommit (s : TMState) : TMState :=
  match s.cand with
  | none => s
  | some (rmm, qmm) => { rm := setAt s.rm rmm.offset rmm, qm := setAt s.qm qmm.offset qmm, cand := none }

/-- body of the loop over query words -/
def tmQuery (K : Consts) (rt qt : Text) (s : TMState) (q : WordShape) : TMState :=
  if isSet s.qm q.offset then s
  else tmCommit (tmScan K rt qt q rt.words { s with cand := none })

/-- `text_match(rtext, qtext)`: `(rmatches, qmatches)` -/
def textMatch (K : Consts) (rt qt : Text) : List WMatch × List WMatch :=
  let s0 : TMState := { rm := List.replicate rt.words.length none, qm := List.replicate qt.words.length none, cand := none }
  let s := qt.words.foldl (tmQuery K rt qt) s0
  (s.rm.filterMap id, s.qm.filterMap id)

end Lucid
