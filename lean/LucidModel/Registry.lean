/-
  LucidModel.Registry — `lib.rs` (two thread-local maps keyed by store id) and the two functions of
  `rust/wasm/src/lib.rs` that carry logic.
-/
import LucidModel.Search

namespace Lucid

/-- the fixed part of a deployment: constants, tokenizer step lists and score order of the source -/
structure Prog where
  K          : Consts
  querySteps : List TokStep
  recordSteps : List TokStep
  order      : List ScoreType

def Prog.env (P : Prog) (U : Unicode) (T : LangTables) (stem : List Nat → Nat) : Env :=
  { U := U, K := P.K, T := T, stem := stem }

/-- `tokenize_query` / `tokenize_record` -/
def tokenizeQuery (P : Prog) (E : Env) (s : List Nat) : Text := runSteps E P.querySteps s
def tokenizeRecord (P : Prog) (E : Env) (s : List Nat) : Text := runSteps E P.recordSteps s

/-- association-list map with `HashMap` semantics on distinct keys -/
def amSet {ν : Type} (m : List (Nat × ν)) (k : Nat) (v : ν) : List (Nat × ν) :=
  match m with
  | [] => [(k, v)]
  | (k', v') :: rest => if k' = k then (k, v) :: rest else (k', v') :: amSet rest k v

def amGet {ν : Type} (m : List (Nat × ν)) (k : Nat) : Option ν := (m.find? (fun e => e.1 = k)).map (·.2)
def amDel {ν : Type} (m : List (Nat × ν)) (k : Nat) : List (Nat × ν) := m.filter (fun e => e.1 ≠ k)

/-- `STORES` and `RESULTS`; each store remembers the language (index into `envs`) it was created with -/
structure Registry where
  stores  : List (Nat × (Nat × Store))
  results : List (Nat × List Result)
deriving Repr, Inhabited, DecidableEq

def Registry.empty : Registry := { stores := [], results := [] }

inductive RegOp where
  | create (id lang : Nat)
  | destroy (id : Nat)
  | highlightWith (id : Nat) (l r : List Nat)
  | addRecord (id recId : Nat) (title : List Nat) (rating : Nat)
  | setLimit (id limit : Nat)
  | runSearch (id : Nat) (query : List Nat)
  /-- `using_store(id, |s| s.clear())` — reachable through the Rust API, not through the WASM bridge -/
  | clearStore (id : Nat)
deriving Repr, DecidableEq

/-- an operation is a valid call: no duplicate create, no use of a missing id -/
def RegOp.valid (g : Registry) : RegOp → Bool
  | .create id _ => (amGet g.stores id).isNone && (amGet g.results id).isNone
  | .destroy id => (amGet g.stores id).isSome && (amGet g.results id).isSome
  | .highlightWith id _ _ => (amGet g.stores id).isSome
  | .addRecord id _ _ _ => (amGet g.stores id).isSome
  | .setLimit id _ => (amGet g.stores id).isSome && (amGet g.results id).isSome
  | .runSearch id _ => (amGet g.stores id).isSome && (amGet g.results id).isSome
  | .clearStore id => (amGet g.stores id).isSome

/-- the functions of `lib.rs`; an invalid call (a `panic!`/`unwrap` in the source) leaves the state unchanged -/
def Registry.step (S : Sorter) (P : Prog) (envs : Nat → Env) (g : Registry) (op : RegOp) : Registry :=
  if !op.valid g then g else
  match op with
  | .create id lang => { stores := amSet g.stores id (lang, Store.new P.K), results := amSet g.results id [] }
  | .destroy id => { stores := amDel g.stores id, results := amDel g.results id }
  | .highlightWith id l r =>
    match amGet g.stores id with
    | some (lang, st) => { g with stores := amSet g.stores id (lang, st.setDividers l r) }
    | none => g
  | .addRecord id recId title rating =>
    match amGet g.stores id with
    | some (lang, st) => { g with stores := amSet g.stores id (lang, st.add recId (tokenizeRecord P (envs lang) title) rating) }
    | none => g
  | .setLimit id limit =>
    match amGet g.stores id with
    | some (lang, st) => { g with stores := amSet g.stores id (lang, st.setLimit limit) }
    | none => g
  | .runSearch id query =>
    match amGet g.stores id with
    | some (lang, st) =>
      let (res, st') := st.searchM S P.K P.order (tokenizeQuery P (envs lang) query)
      { stores := amSet g.stores id (lang, st'), results := amSet g.results id res }
    | none => g
  | .clearStore id =>
    match amGet g.stores id with
    | some (lang, st) => { g with stores := amSet g.stores id (lang, st.clear) }
    | none => g

/-- `get_result_ids` of the WASM bridge -/
def getResultIds (g : Registry) (id : Nat) : List Nat := ((amGet g.results id).getD []).map (·.id)

/-- `get_result_titles` of the WASM bridge: every title followed by NUL -/
def getResultTitles (g : Registry) (id : Nat) : List Nat :=
  (((amGet g.results id).getD []).map (fun r => r.title ++ [0])).flatten

/-- JavaScript `String.prototype.split('\0')` on code points -/
def splitNul : List Nat → List (List Nat)
  | [] => [[]]
  | c :: cs =>
    match splitNul cs with
    | [] => [[]]
    | h :: t => if c = 0 then [] :: h :: t else (c :: h) :: t

end Lucid
