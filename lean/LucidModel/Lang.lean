/-
  LucidModel.Lang — `lang/normalize.rs`, `lang/lang.rs`, `lang/char_class.rs`.
-/
import LucidModel.Basic

namespace Lucid

/-- `HashMap::get` on a map built by successive `insert`s in list order: the last entry wins. -/
def mapGet {κ ν : Type} [DecidableEq κ] : List (κ × ν) → κ → Option ν
  | [], _ => none
  | (k, v) :: rest, key =>
    match mapGet rest key with
    | some v' => some v'
    | none => if k = key then some v else none

/-- `Normalize` iterator over a two-character fading window (`NORM_MAX_PATTERN_LEN = 2`, asserted by
    the generator): longest pattern first, unmatched characters pass through one at a time.
    Yields `(word_chunk, norm_chunk)` pairs. -/
def normChunks (m : List (List Nat × List Nat)) : List Nat → List (List Nat × List Nat)
  | [] => []
  | [a] =>
    match mapGet m [a] with
    | some r => [([a], r)]
    | none => [([a], [a])]
  | a :: b :: rest =>
    match mapGet m [a, b] with
    | some r => ([a, b], r) :: normChunks m rest
    | none =>
      match mapGet m [a] with
      | some r => ([a], r) :: normChunks m (b :: rest)
      | none => ([a], [a]) :: normChunks m (b :: rest)

/-- `Lang::unicode_compose`, with `None` (unchanged) folded into returning the input. -/
def composeWith (m : List (List Nat × List Nat)) (w : List Nat) : List Nat :=
  ((normChunks m w).map (·.2)).flatten

/-- padding loop of `Lang::unicode_reduce`: `norm_chunk.len() - word_chunk.len()` NULs -/
def padChunk (c : List Nat × List Nat) : List Nat :=
  c.1 ++ List.replicate (c.2.length - c.1.length) 0

/-- `Lang::unicode_reduce`: `(source, chars)`; `None` when the normalised text equals the input. -/
def reduceWith (m : List (List Nat × List Nat)) (w : List Nat) : Option (List Nat × List Nat) :=
  let cs := normChunks m w
  let b2 := (cs.map (·.2)).flatten
  if b2 = w then none else some ((cs.map padChunk).flatten, b2)

/-- trap site `lang.rs: norm_chunk.len() - word_chunk.len()` -/
def reduceSafe (m : List (List Nat × List Nat)) (w : List Nat) : Bool :=
  (normChunks m w).all (fun c => c.1.length ≤ c.2.length)

def compose (T : LangTables) (w : List Nat) : List Nat := composeWith T.compose w
def reduce (T : LangTables) (w : List Nat) : Option (List Nat × List Nat) := reduceWith T.reduce w

/-- `Lang::add_pos` applied to every function word in source order: the `pos_map` as an insertion list. -/
def posMap (T : LangTables) : List (List Nat × Pos) :=
  (T.funcWords.map (fun (p, w) =>
    let composed := compose T w
    match reduce T composed with
    | some (_, reduced) => [(composed, p), (reduced, p)]
    | none => [(composed, p)])).flatten

def getPos (T : LangTables) (w : List Nat) : Option Pos := mapGet (posMap T) w

def charMap (T : LangTables) : List (Nat × CharClass) := T.classes.map (fun (c, ch) => (ch, c))

def getCharClass (T : LangTables) (c : Nat) : Option CharClass := mapGet (charMap T) c

/-- `CharPattern for CharClass` -/
def CharClass.matchesOpt (E : Env) : CharClass → Nat → Option Bool
  | .any, _ => some true
  | .control, c => some (E.U.isControl c)
  | .whitespace, c => some (E.U.isWhitespace c)
  | .punctuation, c => some (E.K.punctuation.contains c)
  | .notAlpha, c => some (!E.U.isAlphabetic c)
  | .notAlphaNum, c => some (!E.U.isAlnum c)
  | .consonant, c => (getCharClass E.T c).map (· == .consonant)
  | .vowel, c => (getCharClass E.T c).map (· == .vowel)

/-- `CharPattern for [P]`: `Some(true)` on the first match, `None` if some pattern was undecided -/
def patMatchesOpt (E : Env) (ps : List CharClass) (c : Nat) : Option Bool :=
  let rec go : List CharClass → Bool → Option Bool
    | [], metNone => if metNone then none else some false
    | p :: rest, metNone =>
      match p.matchesOpt E c with
      | some true => some true
      | some false => go rest metNone
      | none => go rest true
  go ps false

/-- `pattern.matches(ch, lang).unwrap_or(false)` as used by split and strip -/
def patMatches (E : Env) (ps : List CharClass) (c : Nat) : Bool := (patMatchesOpt E ps c).getD false

/-- `PartOfSpeech` is a function word (`Word::is_function`) -/
def isFunc (K : Consts) (p : Option Pos) : Bool :=
  match p with
  | some p => K.funcPos.contains p
  | none => false

end Lucid
