/-
  LucidModel.Jaccard — `matching/jaccard/mod.rs`. Similarity is the pair (|A∩B|, |A∪B|).
-/
import LucidModel.Basic

namespace Lucid

/-- `simple_similarity`: two-pointer merge over two sorted de-duplicated slices;
    returns `(intersection, union)` -/
def jacMerge : List Nat → List Nat → Nat × Nat
  | [], l2 => (0, l2.length)
  | a :: as, [] => (0, (a :: as).length)
  | a :: as, b :: bs =>
    if a < b then let r := jacMerge as (b :: bs); (r.1, r.2 + 1)
    else if b < a then let r := jacMerge (a :: as) bs; (r.1, r.2 + 1)
    else let r := jacMerge as bs; (r.1 + 1, r.2 + 1)

/-- insertion into a strictly ascending list, dropping duplicates (= `sort_unstable(); dedup()`) -/
def natInsert (x : Nat) : List Nat → List Nat
  | [] => [x]
  | h :: t => if x < h then x :: h :: t else if x = h then h :: t else h :: natInsert x t

def natSet (l : List Nat) : List Nat := l.foldr natInsert []

/-- `Vec::resize(n, 0)` -/
def vecResize (buf : List Nat) (n : Nat) : List Nat := buf.take n ++ List.replicate (n - buf.length) 0

/-- `copy_from_slice`: overwrite slot by slot (lengths are equal after the resize) -/
def copyFrom (dst src : List Nat) : List Nat := (dst.zip src).map (·.2)

/-- the two reusable buffers of `struct Jaccard` -/
structure JacState where
  set1 : List Nat
  set2 : List Nat
deriving Repr, Inhabited, DecidableEq

def JacState.new : JacState := { set1 := [], set2 := [] }

/-- `Jaccard::similarity` threading the buffers: `((inter, union), buffers after the call)` -/
def jaccardM (st : JacState) (s1 s2 : List Nat) : (Nat × Nat) × JacState :=
  match s1, s2 with
  | [], [] => ((1, 1), st)
  | [], _ :: _ => ((0, 1), st)
  | _ :: _, [] => ((0, 1), st)
  | _, _ =>
    let b1 := natSet (copyFrom (vecResize st.set1 s1.length) s1)
    let b2 := natSet (copyFrom (vecResize st.set2 s2.length) s2)
    (jacMerge b1 b2, { set1 := b1, set2 := b2 })

/-- pure value: the same function started from empty buffers -/
def jaccard (s1 s2 : List Nat) : Nat × Nat := (jaccardM JacState.new s1 s2).1

end Lucid
