/-
  LucidModel.Damlev — `matching/damlev/{matrix,mod}.rs`.
  Distances are in tenths (costs 5 and 10 for 0.5 and 1.0). The matrix is the flat `size × size`
  buffer of the source, reused and grown across calls.
-/
import LucidModel.Basic

namespace Lucid

/-- `struct DistMatrix` -/
structure Mat where
  size : Nat
  raw  : Array Nat
deriving Repr, Inhabited, DecidableEq

/-- `get_unchecked(i, j)` / `get(i, j)`: flat index `i * size + j` -/
def Mat.get (m : Mat) (i j : Nat) : Nat := m.raw.getD (i * m.size + j) 0

/-- `set_unchecked(i, j, v)` -/
def Mat.set (m : Mat) (i j v : Nat) : Mat := { m with raw := m.raw.setIfInBounds (i * m.size + j) v }

/-- C19: both coordinates individually in range -/
def Mat.inRange (m : Mat) (i j : Nat) : Bool := decide (i < m.size) && decide (j < m.size)

/-- `DistMatrix::init`: sentinel row/column 0 (`size as f64`), border row/column 1 (`i - 1`) -/
def Mat.init (m : Mat) : Mat :=
  if m.size = 0 then m else
  let m := (List.range m.size).foldl (fun m i => (m.set i 0 (10 * m.size)).set 0 i (10 * m.size)) m
  (List.range' 1 (m.size - 1)).foldl (fun m i => (m.set i 1 (10 * (i - 1))).set 1 i (10 * (i - 1))) m

/-- `DistMatrix::new(size)` -/
def Mat.new (size : Nat) : Mat := Mat.init { size := size, raw := Array.replicate (size * size) 0 }

/-- `Vec::resize(n, 0.0)` on the flat buffer -/
def arrResize (a : Array Nat) (n : Nat) : Array Nat :=
  if n ≤ a.size then a.extract 0 n else a ++ Array.replicate (n - a.size) 0

/-- growth branch of `DistMatrix::prepare` -/
def Mat.grow (m : Mat) (need : Nat) : Mat :=
  if need > m.size then
    let size := need + need / 2
    Mat.init { size := size, raw := arrResize m.raw (size * size) }
  else m

/-- `DistMatrix::prepare`: grow if needed, then rebuild the two border lines from the per-character costs -/
def Mat.prepare (m : Mat) (c1 c2 : List Nat) : Mat :=
  let m := m.grow (max (c1.length + 2) (c2.length + 2))
  let m := c1.zipIdx.foldl (fun m (coef, i1) => m.set (i1 + 2) 1 (m.get (i1 + 1) 1 + coef)) m
  c2.zipIdx.foldl (fun m (coef, i2) => m.set 1 (i2 + 2) (m.get 1 (i2 + 1) + coef)) m

/-- `DamerauLevenshtein::get_cost` (tenths) -/
def getCost (K : Consts) : CharClass → Nat
  | .consonant => K.costConsonant
  | .vowel => K.costVowel
  | .notAlpha => K.costNotAlpha
  | _ => K.costDefault

def min4 (a b c d : Nat) : Nat := min (min a b) (min c d)

/-- `last_i1: HashMap<char, usize>` as an insertion list, newest first -/
def lastGet (l : List (Nat × Nat)) (c : Nat) : Nat :=
  match l.find? (fun e => e.1 == c) with
  | some e => e.2
  | none => 0

/-- a word as the distance function sees it: characters and their costs -/
structure CWord where
  ch   : List Nat
  cost : List Nat
deriving Repr, Inhabited, DecidableEq

def CWord.c (w : CWord) (i : Nat) : Nat := w.ch.getD i 0
def CWord.k (w : CWord) (i : Nat) : Nat := w.cost.getD i 0
def CWord.len (w : CWord) : Nat := w.ch.length

/-- body of the inner loop of `distance` for `(i1, i2)`; state = (matrix, l2) -/
def dlInner (K : Consts) (a b : CWord) (i1 : Nat) (last : List (Nat × Nat)) (st : Mat × Nat) (i2 : Nat) : Mat × Nat :=
  let (m, l2) := st
  let ch1 := a.c i1
  let ch2 := b.c i2
  let l1 := lastGet last ch2
  let cost1 := a.k i1
  let double1 := decide (i1 > 0) && (ch1 == a.c (i1 - 1))
  let costDel := min cost1 (if double1 then K.costDouble else K.costSingle)
  let cost2 := b.k i2
  let double2 := decide (i2 > 0) && (ch2 == b.c (i2 - 1))
  let costAdd := min cost2 (if double2 then K.costDouble else K.costSingle)
  let costSub := if ch1 == ch2 then 0 else max cost1 cost2
  let costTrans := K.costTrans * ((i1 - l1) + (i2 - l2) + 1)
  let dAdd := costAdd + m.get (i1 + 2) (i2 + 1)
  let dDel := costDel + m.get (i1 + 1) (i2 + 2)
  let dSub := costSub + m.get (i1 + 1) (i2 + 1)
  let dTrans := costTrans + m.get l1 l2
  let d := min4 dAdd dDel dSub dTrans
  (m.set (i1 + 2) (i2 + 2) d, if ch1 == ch2 then i2 + 1 else l2)

/-- body of the outer loop; state = (matrix, last_i1) -/
def dlOuter (K : Consts) (a b : CWord) (st : Mat × List (Nat × Nat)) (i1 : Nat) : Mat × List (Nat × Nat) :=
  let r := (List.range b.len).foldl (dlInner K a b i1 st.2) (st.1, 0)
  (r.1, (a.c i1, i1 + 1) :: st.2)

/-- `DamerauLevenshtein::distance(word1, word2)` threading the reused matrix: `(distance, matrix after)` -/
def distanceM (K : Consts) (m : Mat) (a b : CWord) : Nat × Mat :=
  let m := m.prepare a.cost b.cost
  let r := (List.range a.len).foldl (dlOuter K a b) (m, [])
  (r.1.get (a.len + 1) (b.len + 1), r.1)

end Lucid
