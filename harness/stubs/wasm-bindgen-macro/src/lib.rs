extern crate proc_macro;
use proc_macro::TokenStream;

#[proc_macro_attribute]
pub fn wasm_bindgen(_attr: TokenStream, item: TokenStream) -> TokenStream {
    item
}
