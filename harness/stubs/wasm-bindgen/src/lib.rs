//! Stub of `wasm-bindgen` so that /repo/rust/wasm/src/lib.rs can be compiled natively:
//! the `#[wasm_bindgen]` attribute is the identity.
pub mod prelude {
    pub use wasm_bindgen_macro::wasm_bindgen;
}
