//! The line protocol: cases, operations, their serialisation for the model driver, their execution on
//! the real code, and the comparison of the two observation streams.
use crate::real::*;
use crate::util::*;
use lucid_suggest_core as core;
use core::verif::*;
use core::{Record, Store, Text, TextOwn, Word, tokenize_query};
use core::tokenization::tokenize_record;
use std::collections::BTreeSet;

#[derive(Clone, Debug)]
pub enum Op {
    TokQ(String),
    TokR(String),
    Trig(Vec<char>),
    Jacc(Vec<char>, Vec<char>),
    Dist(Vec<char>, Vec<u32>, Vec<char>, Vec<u32>),
    Wm { title: String, query: String, ri: usize, qi: usize, joinr: bool, joinq: bool },
    Tm { title: String, rating: usize, query: String },
    SplitTy(u64, usize, usize),
    New,
    Add(usize, usize, String),
    Clear,
    Limit(usize),
    Markers(String, String),
    Search(String),
    Prepare(String, usize),
    RCreate(usize, String),
    RDestroy(usize),
    /// `using_store(id, |s| s.clear())`: the store of an id emptied through the top-level API
    RClear(usize),
    RMarkers(usize, String, String),
    RLimit(usize, usize),
    RAdd(usize, usize, usize, String),
    RSearch(usize, String),
    RResults(usize),
}

#[derive(Clone, Debug)]
pub struct Case {
    pub name: String,
    pub lang: String,
    pub stream: &'static str,
    pub ops: Vec<Op>,
}

impl Op {
    pub fn line(&self) -> String {
        match self {
            Op::TokQ(s) => format!("tokq {}", enc_str(s)),
            Op::TokR(s) => format!("tokr {}", enc_str(s)),
            Op::Trig(w) => format!("trig {}", enc(w)),
            Op::Jacc(a, b) => format!("jacc {} {}", enc(a), enc(b)),
            Op::Dist(c1, k1, c2, k2) => format!("dist {} {} {} {}", enc(c1), enc_nums(k1), enc(c2), enc_nums(k2)),
            Op::Wm { title, query, ri, qi, joinr, joinq } =>
                format!("wm {} {} {} {} {} {}", enc_str(title), enc_str(query), ri, qi, show_bool(*joinr), show_bool(*joinq)),
            Op::Tm { title, rating, query } => format!("tm {} {} {}", enc_str(title), rating, enc_str(query)),
            Op::SplitTy(t, a, b) => format!("splitty {} {} {}", t, a, b),
            Op::New => "new".to_string(),
            Op::Add(id, rating, t) => format!("add {} {} {}", id, rating, enc_str(t)),
            Op::Clear => "clear".to_string(),
            Op::Limit(n) => format!("limit {}", n),
            Op::Markers(l, r) => format!("markers {} {}", enc_str(l), enc_str(r)),
            Op::Search(q) => format!("search {}", enc_str(q)),
            Op::Prepare(q, n) => format!("prepare {} {}", enc_str(q), n),
            Op::RCreate(id, l) => format!("rcreate {} {}", id, l),
            Op::RDestroy(id) => format!("rdestroy {}", id),
            Op::RClear(id) => format!("rclear {}", id),
            Op::RMarkers(id, l, r) => format!("rmarkers {} {} {}", id, enc_str(l), enc_str(r)),
            Op::RLimit(id, n) => format!("rlimit {} {}", id, n),
            Op::RAdd(id, rid, rating, t) => format!("radd {} {} {} {}", id, rid, rating, enc_str(t)),
            Op::RSearch(id, q) => format!("rsearch {} {}", id, enc_str(q)),
            Op::RResults(id) => format!("rresults {}", id),
        }
    }

    /// texts whose words need a stem-table entry: (lang, text, is_query)
    fn texts(&self, case_lang: &str, reg_langs: &[(usize, String)]) -> Vec<(String, String, bool)> {
        let l = case_lang.to_string();
        let rl = |id: &usize| reg_langs.iter().rev().find(|e| e.0 == *id).map(|e| e.1.clone()).unwrap_or_else(|| "none".to_string());
        match self {
            Op::TokQ(s) | Op::Search(s) | Op::Prepare(s, _) => vec![(l, s.clone(), true)],
            Op::TokR(s) | Op::Add(_, _, s) => vec![(l, s.clone(), false)],
            Op::Wm { title, query, .. } | Op::Tm { title, query, .. } => vec![(l.clone(), title.clone(), false), (l, query.clone(), true)],
            Op::RAdd(id, _, _, t) => vec![(rl(id), t.clone(), false)],
            Op::RSearch(id, q) => vec![(rl(id), q.clone(), true)],
            _ => vec![],
        }
    }
}

impl Case {
    /// lines for the driver: header, stem table (from the real tokenizer's words), operations
    pub fn lines(&self) -> Vec<String> {
        let mut out = vec![format!("case {}", self.name), format!("lang {}", self.lang)];
        let mut reg_langs: Vec<(usize, String)> = vec![];
        let mut seen: BTreeSet<(String, Vec<char>)> = BTreeSet::new();
        let mut langs: Vec<(String, core::Lang)> = vec![];
        for op in &self.ops {
            if let Op::RCreate(id, l) = op { reg_langs.push((*id, l.clone())); }
            for (l, text, is_q) in op.texts(&self.lang, &reg_langs) {
                if !langs.iter().any(|e| e.0 == l) { langs.push((l.clone(), make_lang(&l))); }
                let lang = &langs.iter().find(|e| e.0 == l).unwrap().1;
                let words = guarded(|| {
                    let t = if is_q { tokenize_query(&text, lang) } else { tokenize_record(&text, lang) };
                    stems_of(&t, lang)
                }).unwrap_or_default();
                for (cs, st) in words {
                    if seen.insert((l.clone(), cs.clone())) { out.push(format!("stem {} {} {}", l, enc(&cs), st)); }
                }
            }
        }
        for op in &self.ops { out.push(op.line()); }
        out
    }
}

/// one real observation: either a line in the driver's format, or structured search / prepare results
#[derive(Clone, Debug)]
pub enum Obs {
    Line(String),
    Search(Vec<(usize, String)>),
    Prepare(Vec<usize>),
    Panic(String),
}

impl Obs {
    pub fn digest_text(&self) -> String {
        match self {
            Obs::Line(s) => s.clone(),
            Obs::Search(r) => format!("search {:?}", r),
            Obs::Prepare(r) => format!("prepare {:?}", r),
            Obs::Panic(s) => format!("panic {}", s),
        }
    }
}

fn word_view_pair<'a>(rt: &'a TextOwn, qt: &'a TextOwn, ri: usize, qi: usize, joinr: bool, joinq: bool)
    -> Option<(core::WordView<'a>, core::WordView<'a>)> {
    let r = rt.words.get(ri)?.to_view(rt);
    let q = qt.words.get(qi)?.to_view(qt);
    let r = if joinr { let n = rt.words.get(ri + 1)?.to_view(rt); r.join(&n) } else { r };
    let q = if joinq { let n = qt.words.get(qi + 1)?.to_view(qt); q.join(&n) } else { q };
    Some((r, q))
}

pub fn exec_op(st: &mut RealState, op: &Op) -> Obs {
    let r = guarded(|| -> Obs {
        match op {
            Op::TokQ(s) => Obs::Line(format!("tok {}", show_text(&tokenize_query(s, &st.lang)))),
            Op::TokR(s) => Obs::Line(format!("tok {}", show_text(&tokenize_record(s, &st.lang)))),
            Op::Trig(w) => {
                let gs: Vec<String> = w[..].trigrams().map(|g| format!("{}.{}.{}", g[0] as u32, g[1] as u32, g[2] as u32)).collect();
                Obs::Line(format!("trig {}", if gs.is_empty() { "-".to_string() } else { gs.join(";") }))
            }
            Op::Jacc(a, b) => {
                let sim = st.jaccard.similarity(a, b);
                // the model answers with the pair (i, u); the real value must be exactly i/u in f64
                Obs::Line(format!("jaccf {:?}", sim))
            }
            Op::Dist(c1, k1, c2, k2) => {
                let t1 = text_from_parts(c1, k1);
                let t2 = text_from_parts(c2, k2);
                let d = st.damlev.distance(&t1.view(0), &t2.view(0));
                let m = st.damlev.dists.borrow();
                let size = m.verif_size();
                let mut rows = vec![];
                for i in 0..c1.len() + 2 {
                    let mut row = vec![];
                    for j in 0..c2.len() + 2 { row.push(if i < size && j < size { tenths(m.get(i, j)) } else { "oob".to_string() }); }
                    rows.push(row.join(","));
                }
                // the same pair with the first word unfinished, on the second engine: same value, same cells, same dimension
                let t1u = text_from_parts(c1, k1).fin(false);
                let du = st.damlev_unfinished.distance(&t1u.view(0), &t2.view(0));
                let mu = st.damlev_unfinished.dists.borrow();
                let same = tenths(du) == tenths(d) && mu.verif_size() == size && mu.verif_raw_len() == m.verif_raw_len()
                    && (0..c1.len() + 2).all(|i| (0..c2.len() + 2).all(|j| i >= size || j >= size || tenths(mu.get(i, j)) == tenths(m.get(i, j))));
                if !same { return Obs::Line(format!("dist {} size={} rawlen={} but with the first word unfinished dist {} size={} rawlen={} (or cells differ)", tenths(d), size, m.verif_raw_len(), tenths(du), mu.verif_size(), mu.verif_raw_len())); }
                Obs::Line(format!("dist {} size={} rawlen={} cells={}", tenths(d), size, m.verif_raw_len(), rows.join(";")))
            }
            Op::Wm { title, query, ri, qi, joinr, joinq } => {
                let rt = tokenize_record(title, &st.lang);
                let qt = tokenize_query(query, &st.lang);
                if rt.words.get(*ri).is_none() || qt.words.get(*qi).is_none() { return Obs::Line("wm noword".to_string()); }
                match word_view_pair(&rt, &qt, *ri, *qi, *joinr, *joinq) {
                    None => Obs::Line("wm nojoin".to_string()),
                    Some((r, q)) => {
                        let lc = length_check(&r, &q);
                        let jc = jaccard_check(&r, &q);
                        match word_match(&r, &q) {
                            Some((a, b)) => Obs::Line(format!("wm len={} jac={} r={} q={}", show_bool(lc), show_bool(jc), show_match(&a), show_match(&b))),
                            None => Obs::Line(format!("wm len={} jac={} none", show_bool(lc), show_bool(jc))),
                        }
                    }
                }
            }
            Op::Tm { title, rating, query } => {
                let rec = Record::new(0, title, *rating, &st.lang);
                let qt = tokenize_query(query, &st.lang);
                let q = qt.to_ref();
                let mut hit = Hit::from_record(&rec);
                score(&q, &mut hit);
                let scores: Vec<isize> = hit.scores.iter().cloned().collect();
                let pass = hit_matches(&q, &hit);
                let hl = highlight(&hit, (&['['], &[']']));
                Obs::Line(format!("tm r={} q={} scores={} pass={} hl={}", show_matches(&hit.rmatches), show_matches(&hit.qmatches),
                    enc_nums(&scores), show_bool(pass), enc_str(&hl)))
            }
            Op::SplitTy(t, a, b) => {
                let (s1, s2) = WordMatch::verif_split_typos(*t as f64 / 10.0, *a, *b);
                Obs::Line(format!("splitty {} {}", tenths(s1), tenths(s2)))
            }
            Op::New => { st.store = new_store(&st.lang_code, core::DEFAULT_LIMIT); Obs::Line("ok".to_string()) }
            Op::Add(id, rating, title) => { add_to(&mut st.store, *id, title, *rating); Obs::Line("ok".to_string()) }
            Op::Clear => { st.store.clear(); Obs::Line("ok".to_string()) }
            Op::Limit(n) => { st.store.limit = *n; Obs::Line("ok".to_string()) }
            Op::Markers(l, r) => { st.store.highlight_with((l, r)); Obs::Line("ok".to_string()) }
            Op::Search(q) => Obs::Search(search_results(&st.store, q)),
            Op::Prepare(q, size) => {
                let qt = tokenize_query(q, &st.store.lang);
                let r = st.store.index.borrow_mut().prepare(&qt.to_ref(), *size);
                Obs::Prepare(r)
            }
            Op::RCreate(id, l) => { core::create_store(*id, make_lang(l)); st.live_ids.push(*id); Obs::Line("ok".to_string()) }
            Op::RDestroy(id) => { core::destroy_store(*id); st.live_ids.retain(|x| x != id); Obs::Line("ok".to_string()) }
            Op::RClear(id) => { core::using_store(*id, |s| s.clear()); Obs::Line("ok".to_string()) }
            Op::RMarkers(id, l, r) => { core::highlight_with(*id, (l, r)); Obs::Line("ok".to_string()) }
            Op::RLimit(id, n) => { core::set_limit(*id, *n); Obs::Line("ok".to_string()) }
            Op::RAdd(id, rid, rating, t) => { core::add_record(*id, *rid, t, *rating); Obs::Line("ok".to_string()) }
            Op::RSearch(id, q) => { core::run_search(*id, q); Obs::Line("ok".to_string()) }
            Op::RResults(id) => {
                // through the natively compiled WASM bridge functions
                let ids = crate::bridge::get_result_ids(*id);
                let titles = crate::bridge::get_result_titles(*id);
                let n = titles.split('\0').count();
                Obs::Line(format!("rresults ids={} titles={} split={}", enc_nums(&ids), enc_str(&titles), n))
            }
        }
    });
    match r { Ok(o) => o, Err(p) => Obs::Panic(p) }
}

/// run a whole case on the real code; stops at the first panic (state may be poisoned)
pub fn exec_case(case: &Case) -> Vec<Obs> {
    let mut st = RealState::new(&case.lang);
    let mut out = vec![];
    for op in &case.ops {
        let o = exec_op(&mut st, op);
        let stop = matches!(o, Obs::Panic(_));
        out.push(o);
        if stop { break; }
    }
    st.cleanup();
    out
}

// ---------- comparison ----------

fn field<'a>(line: &'a str, key: &str) -> Option<&'a str> {
    for tok in line.split(' ') {
        if tok.starts_with(key) && tok[key.len()..].starts_with('=') { return Some(&tok[key.len() + 1..]); }
    }
    None
}

#[derive(Debug, Clone)]
struct PoolItem { rank: usize, id: usize, title: String }

fn parse_pool(s: &str) -> Vec<PoolItem> {
    if s == "-" { return vec![]; }
    s.split(';').filter_map(|e| {
        let p: Vec<&str> = e.split(':').collect();
        if p.len() < 3 { return None; }
        Some(PoolItem { rank: p[0].parse().ok()?, id: p[1].parse().ok()?, title: dec_string(p[2]) })
    }).collect()
}

fn parse_res(s: &str) -> Vec<(usize, String)> {
    if s == "-" { return vec![]; }
    s.split(';').filter_map(|e| { let p: Vec<&str> = e.split(':').collect(); if p.len() < 2 { None } else { Some((p[0].parse().ok()?, dec_string(p[1]))) } }).collect()
}

/// is `got` a valid bounded top-k of the ranked pool (ties may be broken either way)?
fn topk_ok(got: &[(usize, String)], pool: &[PoolItem], limit: usize, strict_len: bool) -> Result<(), String> {
    let mut used = vec![false; pool.len()];
    let k = limit.min(pool.len());
    if strict_len && got.len() != k { return Err(format!("length {} but min(limit {}, pool {}) = {}", got.len(), limit, pool.len(), k)); }
    if got.len() > limit { return Err(format!("length {} exceeds limit {}", got.len(), limit)); }
    let mut last_rank = 0usize;
    for (p, g) in got.iter().enumerate() {
        let want_rank = if strict_len { Some(pool[p].rank) } else { None };
        let found = pool.iter().enumerate().position(|(i, it)| !used[i] && it.id == g.0 && it.title == g.1
            && want_rank.map(|r| r == it.rank).unwrap_or(it.rank >= last_rank));
        match found {
            Some(i) => { used[i] = true; last_rank = pool[i].rank; }
            None => return Err(format!("hit #{} (id {}, title {:?}) is not the model's rank-{:?} hit", p, g.0, g.1, want_rank)),
        }
    }
    Ok(())
}

pub struct CmpStats { pub ties: usize, pub captie: usize }

/// compare one real observation with the driver's line; `Err` describes the divergence
pub fn compare(op: &Op, real: &Obs, model: &str, stats: &mut CmpStats) -> Result<(), String> {
    match real {
        Obs::Panic(p) => Err(format!("implementation panicked ({}) but model says {}", p, model)),
        Obs::Line(r) => {
            if let Op::Jacc(_, _) = op {
                // model: "jacc i u"; real: "jaccf <f64>"
                let p: Vec<&str> = model.split(' ').collect();
                if p.len() != 3 || p[0] != "jacc" { return Err(format!("model line malformed: {}", model)); }
                let i: f64 = p[1].parse().unwrap_or(-1.0);
                let u: f64 = p[2].parse().unwrap_or(-1.0);
                let want = format!("jaccf {:?}", i / u);
                return if &want == r { Ok(()) } else { Err(format!("real {} vs model {} (= {})", r, model, want)) };
            }
            if r == model { Ok(()) } else { Err(format!("real `{}` vs model `{}`", r, model)) }
        }
        Obs::Search(got) => {
            if !model.starts_with("search ") { return Err(format!("model line is not a search line: {}", model)); }
            let limit: usize = field(model, "limit").and_then(|s| s.parse().ok()).ok_or("no limit field")?;
            let captie = field(model, "captie") == Some("1");
            let pool = parse_pool(field(model, "pool").unwrap_or("-"));
            let res = parse_res(field(model, "res").unwrap_or("-"));
            let mut ranks: Vec<usize> = pool.iter().map(|p| p.rank).collect();
            ranks.dedup();
            let tie = ranks.len() != pool.len();
            if tie { stats.ties += 1; }
            if captie { stats.captie += 1; }
            topk_ok(got, &pool, limit, !captie).map_err(|e| format!("real search result violates the model's ranked pool: {}", e))?;
            topk_ok(&res, &pool, limit, !captie).map_err(|e| format!("model's own result violates its pool: {}", e))?;
            if !tie && !captie && *got != res { return Err(format!("no ties, yet real {:?} != model {:?}", got, res)); }
            Ok(())
        }
        Obs::Prepare(got) => {
            if !model.starts_with("prepare ") { return Err(format!("model line is not a prepare line: {}", model)); }
            let words: usize = field(model, "words").and_then(|s| s.parse().ok()).ok_or("no words field")?;
            let cap: usize = field(model, "cap").and_then(|s| s.parse().ok()).ok_or("no cap field")?;
            let counts: Vec<(usize, usize)> = match field(model, "counts") { Some("-") | None => vec![], Some(s) =>
                s.split(';').filter_map(|e| { let mut p = e.split(':'); Some((p.next()?.parse().ok()?, p.next()?.parse().ok()?)) }).collect() };
            if words == 0 { return if got.is_empty() { Ok(()) } else { Err("empty query but candidates returned".to_string()) }; }
            let want_len = cap.min(counts.len());
            if got.len() != want_len { return Err(format!("prepare returned {} positions, model expects min(cap {}, positive {}) = {}", got.len(), cap, counts.len(), want_len)); }
            let mut seen = BTreeSet::new();
            let mut prev = usize::MAX;
            let mut minc = usize::MAX;
            for ix in got {
                if !seen.insert(*ix) { return Err(format!("duplicate position {}", ix)); }
                let c = counts.iter().find(|e| e.0 == *ix).map(|e| e.1).ok_or(format!("position {} has no shared gram in the model", ix))?;
                if c > prev { return Err(format!("counts increase at position {}", ix)); }
                prev = c; minc = minc.min(c);
            }
            for (ix, c) in &counts { if !seen.contains(ix) && *c > minc { return Err(format!("omitted position {} shares {} grams, more than a listed one ({})", ix, c, minc)); } }
            Ok(())
        }
    }
}

impl Op {
    /// inverse of `line()` (used by replay)
    pub fn parse(line: &str) -> Option<Op> {
        let p: Vec<&str> = line.split(' ').collect();
        let s = |i: usize| -> String { dec_string(p.get(i).cloned().unwrap_or("-")) };
        let c = |i: usize| -> Vec<char> { dec(p.get(i).cloned().unwrap_or("-")) };
        let n = |i: usize| -> usize { p.get(i).and_then(|x| x.parse().ok()).unwrap_or(0) };
        let nums = |i: usize| -> Vec<u32> { let t = p.get(i).cloned().unwrap_or("-"); if t == "-" { vec![] } else { t.split(',').filter_map(|x| x.parse().ok()).collect() } };
        Some(match *p.get(0)? {
            "tokq" => Op::TokQ(s(1)), "tokr" => Op::TokR(s(1)), "trig" => Op::Trig(c(1)), "jacc" => Op::Jacc(c(1), c(2)),
            "dist" => Op::Dist(c(1), nums(2), c(3), nums(4)),
            "wm" => Op::Wm { title: s(1), query: s(2), ri: n(3), qi: n(4), joinr: p.get(5) == Some(&"1"), joinq: p.get(6) == Some(&"1") },
            "tm" => Op::Tm { title: s(1), rating: n(2), query: s(3) },
            "splitty" => Op::SplitTy(n(1) as u64, n(2), n(3)),
            "new" => Op::New, "add" => Op::Add(n(1), n(2), s(3)), "clear" => Op::Clear, "limit" => Op::Limit(n(1)),
            "markers" => Op::Markers(s(1), s(2)), "search" => Op::Search(s(1)), "prepare" => Op::Prepare(s(1), n(2)),
            "rcreate" => Op::RCreate(n(1), p.get(2)?.to_string()), "rdestroy" => Op::RDestroy(n(1)), "rclear" => Op::RClear(n(1)),
            "rmarkers" => Op::RMarkers(n(1), s(2), s(3)), "rlimit" => Op::RLimit(n(1), n(2)),
            "radd" => Op::RAdd(n(1), n(2), n(3), s(4)), "rsearch" => Op::RSearch(n(1), s(2)), "rresults" => Op::RResults(n(1)),
            _ => return None,
        })
    }
}

pub fn case_from_lines(lines: &[String]) -> Case {
    let mut c = Case { name: "replay".to_string(), lang: "none".to_string(), stream: "replay", ops: vec![] };
    for l in lines {
        let l = l.trim();
        if l.is_empty() || l.starts_with('#') || l.starts_with("stem ") { continue; }
        if let Some(n) = l.strip_prefix("case ") { c.name = n.to_string(); continue; }
        if let Some(n) = l.strip_prefix("lang ") { c.lang = n.to_string(); continue; }
        if let Some(op) = Op::parse(l) { c.ops.push(op); }
    }
    c
}
