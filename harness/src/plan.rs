//! Which correspondence streams and which probe budget serve each property, per tier; the JSON report.
use crate::gen::*;
use crate::probes::*;
use crate::proto::*;
use crate::real::LANGS;
use crate::util::*;
use crate::{correspondence, emit_divergences, Args, CorrReport};
use std::fmt::Write as _;

fn scale(tier: &str, quick: usize, thorough: usize) -> usize { if tier == "thorough" { thorough } else { quick } }

pub fn cases_for(prop: &str, tier: &str, r: &mut Rng) -> Vec<Case> {
    let t = tier;
    let mut cs: Vec<Case> = vec![];
    let langs: Vec<&str> = LANGS.to_vec();
    let mut per_lang = |f: &mut dyn FnMut(&str, &mut Rng) -> Vec<Case>, r: &mut Rng, cs: &mut Vec<Case>| { for l in &langs { cs.extend(f(l, r)); } };
    match prop {
        "C01" => {
            per_lang(&mut |l, r| store_cases(l, r, scale(t, 6, 120)), r, &mut cs);
            per_lang(&mut |l, r| match_cases(l, r, scale(t, 15, 300)), r, &mut cs);
            per_lang(&mut |l, r| tok_random(l, r, scale(t, 60, 2000), 100), r, &mut cs);
            cs.extend(dist_cases(r, 2, scale(t, 60, 1500)));
            per_lang(&mut |l, r| blank_title_cases(l, r, scale(t, 2, 40)), r, &mut cs);
        }
        "C02" => {
            per_lang(&mut |l, r| store_cases(l, r, scale(t, 8, 150)), r, &mut cs);
            per_lang(&mut |l, r| tok_random(l, r, scale(t, 80, 3000), 100), r, &mut cs);
            cs.extend(reg_cases(r, scale(t, 10, 200)));
        }
        "C03" | "C04" | "C05" | "C13" | "C14" | "C09" | "C08" => {
            per_lang(&mut |l, r| match_cases(l, r, scale(t, 25, 600)), r, &mut cs);
            per_lang(&mut |l, r| store_cases(l, r, scale(t, 5, 100)), r, &mut cs);
            // the same searches as users reach them: through the top-level API and its result buffers
            cs.extend(reg_cases(r, scale(t, 6, 100)));
        }
        "C06" | "C07" | "C12" | "C10" => {
            per_lang(&mut |l, r| store_cases(l, r, scale(t, 12, 300)), r, &mut cs);
            cs.extend(reg_cases(r, scale(t, 6, 100)));
        }
        "C11" | "C15" => {
            per_lang(&mut |l, r| tok_exhaustive(l, scale(t, 3, 4), 600), r, &mut cs);
            per_lang(&mut |l, r| tok_random(l, r, scale(t, 150, 6000), 150), r, &mut cs);
        }
        "C16" => {
            cs.extend(dist_cases(r, scale(t, 3, 4), scale(t, 150, 4000)));
            cs.extend(splitty_cases(scale(t, 60, 200) as u64, scale(t, 24, 60)));
            per_lang(&mut |l, r| match_cases(l, r, scale(t, 6, 100)), r, &mut cs);
        }
        "C17" => { cs.extend(jacc_cases(r, scale(t, 3, 4), scale(t, 600, 20000))); }
        "C18" => {
            per_lang(&mut |l, r| store_cases(l, r, scale(t, 10, 250)), r, &mut cs);
            cs.extend(trig_cases(r, scale(t, 200, 5000)));
            per_lang(&mut |l, r| blank_title_cases(l, r, scale(t, 3, 40)), r, &mut cs);
        }
        "C19" => {
            cs.extend(dist_cases(r, 2, scale(t, 250, 6000)));
            cs.extend(jacc_cases(r, 2, scale(t, 400, 10000)));
            per_lang(&mut |l, r| store_cases(l, r, scale(t, 4, 80)), r, &mut cs);
            per_lang(&mut |l, r| blank_title_cases(l, r, scale(t, 3, 40)), r, &mut cs);
        }
        "C20" => { cs.extend(reg_cases(r, scale(t, 40, 1500))); }
        _ => {}
    }
    cs
}

pub fn probe_budget(prop: &str, tier: &str) -> usize {
    let q = match prop { "C01" => 1500, "C03" | "C04" => 2500, "C06" | "C07" => 400, "C10" => 4000, "C12" => 1500, "C16" | "C17" | "C19" => 3000, "C15" => 3000, "C20" => 1500, _ => 1200 };
    if tier == "thorough" { q * 25 } else { q }
}

fn corr_json(rep: &CorrReport) -> String {
    let mut s = String::from("{");
    let _ = write!(s, "\"cases\":{},\"ops\":{},\"ties\":{},\"captie\":{},\"panics\":{},\"divergences\":{},\"digest\":\"{:016x}\",", rep.cases, rep.ops, rep.ties, rep.captie, rep.panics.len(), rep.divergences.len(), rep.digest);
    let _ = write!(s, "\"per_stream\":{{{}}},", rep.per_stream.iter().map(|(k, v)| format!("{}:{{\"cases\":{},\"ops\":{}}}", json_str(k), v.0, v.1)).collect::<Vec<_>>().join(","));
    let _ = write!(s, "\"distribution\":{{{}}},", rep.dist.iter().map(|(k, v)| format!("{}:{}", json_str(k), v)).collect::<Vec<_>>().join(","));
    let _ = write!(s, "\"first_divergence\":{},", rep.panics.iter().chain(rep.divergences.iter()).next().map(|d| json_str(&format!("{} [{}] op#{} {} :: {}", d.case, d.lang, d.op_index, d.op_line, d.detail))).unwrap_or("null".into()));
    let _ = write!(s, "\"samples\":[{}]}}", rep.samples.iter().map(|x| json_str(x)).collect::<Vec<_>>().join(","));
    s
}

/// "suspects":[…] of the unicode-stage report that lies next to the Unicode dump
fn suspect_scalars(unicode_path: &str) -> Vec<u32> {
    let dir = std::path::Path::new(unicode_path).parent().map(|p| p.to_path_buf()).unwrap_or_default();
    let text = match std::fs::read_to_string(dir.join("unicode_report.json")) { Ok(t) => t, Err(_) => return vec![] };
    match text.find("\"suspects\":[") {
        Some(i) => { let rest = &text[i + 12..]; let end = rest.find(']').unwrap_or(0); rest[..end].split(',').filter_map(|x| x.trim().parse().ok()).collect() }
        None => vec![],
    }
}

pub fn run(args: &Args) -> i32 {
    let mut rng = Rng::new(args.seed);
    let mut rg = rng.fork(1);
    let mut cases = cases_for(&args.prop, &args.tier, &mut rg);
    // scalars on which an oracle side-condition failed in this run's `--mode unicode` stage (e.g. char_class.rs no
    // longer means what the model assumes): tokenize texts around them first, so that a concrete replay is found
    let suspects = suspect_scalars(&args.unicode);
    if !suspects.is_empty() {
        let mut extra = vec![];
        for code in LANGS.iter() {
            let mut ops = vec![];
            for cp in &suspects {
                if let Some(c) = char::from_u32(*cp) {
                    for s in [format!("ab{}cd", c), format!("{}ab", c), format!("ab{}", c), format!("ab {} cd", c), c.to_string()] { ops.push(Op::TokQ(s.clone())); ops.push(Op::TokR(s)); }
                }
            }
            extra.push(Case { name: format!("tok-suspects-{}", code), lang: code.to_string(), stream: "AC-tok-suspect-scalars", ops });
        }
        extra.extend(cases.drain(..));
        cases = extra;
    }
    let rep = match correspondence(args, &cases) { Ok(r) => r, Err(e) => { eprintln!("correspondence run failed: {}", e); let _ = std::fs::write(&args.out, format!("{{\"error\":{}}}", json_str(&e))); return 2; } };
    let mut replays: Vec<String> = vec![];
    let _ = std::fs::create_dir_all(format!("{}/replays", args.workdir));
    emit_divergences(args, &rep, &mut replays);
    let mut rp = rng.fork(2);
    let probe = run_probe(&args.prop, &mut rp, probe_budget(&args.prop, &args.tier));
    let mut probe_replays: Vec<(String, String)> = vec![];
    for (k, f) in probe.failures.iter().enumerate() {
        let path = format!("{}/replays/{}_probe_{}.replay", args.workdir, args.prop, k);
        let mut s = format!("# property {} — implementation-side probe failure\n# {}\n# replay: /verif/check {} --replay {}\n", args.prop, f.what.replace('\n', " "), args.prop, path);
        for l in f.case.lines() { s.push_str(&l); s.push('\n'); }
        let _ = std::fs::write(&path, s);
        probe_replays.push((path, f.what.clone()));
    }
    let mut j = String::from("{");
    let _ = write!(j, "\"prop\":{},\"tier\":{},\"seed\":{},", json_str(&args.prop), json_str(&args.tier), args.seed);
    let _ = write!(j, "\"corr\":{},", corr_json(&rep));
    let _ = write!(j, "\"probe\":{{\"evaluations\":{},\"distinct_nontrivial\":{},\"failures\":{},\"notes\":{{{}}},\"samples\":[{}]}},", probe.evaluations, probe.distinct.len(), probe.failures.len(),
        probe.notes.iter().map(|(k, v)| format!("{}:{}", json_str(k), v)).collect::<Vec<_>>().join(","), probe.samples.iter().map(|x| json_str(x)).collect::<Vec<_>>().join(","));
    let _ = write!(j, "\"corr_replays\":[{}],", replays.iter().map(|x| json_str(x)).collect::<Vec<_>>().join(","));
    let _ = write!(j, "\"probe_replays\":[{}]}}", probe_replays.iter().map(|(p, w)| format!("{{\"path\":{},\"what\":{}}}", json_str(p), json_str(w))).collect::<Vec<_>>().join(","));
    let _ = std::fs::write(&args.out, &j);
    if rep.panics.is_empty() && rep.divergences.is_empty() && probe.failures.is_empty() { 0 } else { 1 }
}

/// re-run the protocol lines of a replay file on the real code and on the model, print both
pub fn replay(args: &Args) -> i32 {
    let path = match &args.replay { Some(p) => p.clone(), None => { eprintln!("--replay <file> required"); return 2; } };
    let text = match std::fs::read_to_string(&path) { Ok(t) => t, Err(e) => { eprintln!("cannot read {}: {}", path, e); return 2; } };
    for l in text.lines().filter(|l| l.starts_with('#')) { println!("{}", l); }
    let lines: Vec<String> = text.lines().map(|s| s.to_string()).collect();
    let case = case_from_lines(&lines);
    let real = exec_case(&case);
    for (op, o) in case.ops.iter().zip(real.iter()) { println!("impl  {} => {}", op.line(), o.digest_text()); }
    match correspondence(args, &[case]) {
        Ok(rep) => {
            for d in rep.panics.iter().chain(rep.divergences.iter()) { println!("DIVERGENCE op#{} {} :: {}", d.op_index, d.op_line, d.detail); }
            if rep.panics.is_empty() && rep.divergences.is_empty() { println!("model and implementation agree on this case"); 0 } else { 1 }
        }
        Err(e) => { eprintln!("{}", e); 2 }
    }
}
