//! lucid-harness: correspondence check (real code vs Lean model driver) and implementation-side probes.
#[path = "/repo/rust/wasm/src/lib.rs"]
#[allow(dead_code)]
pub mod bridge;
mod canon_table;
mod util;
mod real;
mod proto;
mod gen;
mod unicode;
mod probes;
mod plan;

use proto::*;
use util::*;
use std::collections::BTreeMap;
use std::io::Write;
use std::process::{Command, Stdio};

pub struct Args {
    pub mode: String,
    pub prop: String,
    pub tier: String,
    pub seed: u64,
    pub driver: String,
    pub unicode: String,
    pub out: String,
    pub replay: Option<String>,
    pub workdir: String,
    pub consts: String,
    pub punct: String,
}

fn parse_args() -> Args {
    let mut a = Args { mode: "run".into(), prop: "C01".into(), tier: "quick".into(), seed: 1, driver: String::new(), unicode: String::new(), out: String::new(), replay: None, workdir: ".".into(), consts: String::new(), punct: String::new() };
    let v: Vec<String> = std::env::args().collect();
    let mut i = 1;
    while i < v.len() {
        let val = v.get(i + 1).cloned().unwrap_or_default();
        match v[i].as_str() {
            "--mode" => a.mode = val, "--prop" => a.prop = val, "--tier" => a.tier = val,
            "--seed" => a.seed = val.parse().unwrap_or(1), "--driver" => a.driver = val, "--unicode" => a.unicode = val,
            "--out" => a.out = val, "--replay" => a.replay = Some(val), "--workdir" => a.workdir = val, "--consts" => a.consts = val, "--punct" => a.punct = val,
            _ => { i += 1; continue; }
        }
        i += 2;
    }
    a
}

pub struct Divergence { pub case: String, pub stream: String, pub lang: String, pub op_index: usize, pub op_line: String, pub detail: String, pub lines: Vec<String> }

pub struct CorrReport {
    pub cases: usize,
    pub ops: usize,
    pub per_stream: BTreeMap<String, (usize, usize)>,
    pub ties: usize,
    pub captie: usize,
    pub panics: Vec<Divergence>,
    pub divergences: Vec<Divergence>,
    pub digest: u64,
    pub samples: Vec<String>,
    pub dist: BTreeMap<String, usize>,
}

/// pipe all cases through the model driver, run them on the real code, compare line by line
pub fn correspondence(args: &Args, cases: &[Case]) -> Result<CorrReport, String> {
    let mut rep = CorrReport { cases: 0, ops: 0, per_stream: BTreeMap::new(), ties: 0, captie: 0, panics: vec![], divergences: vec![], digest: 0xcbf29ce484222325, samples: vec![], dist: BTreeMap::new() };
    if cases.is_empty() { return Ok(rep); }
    // driver input
    let _ = std::fs::create_dir_all(format!("{}/build", args.workdir));
    let input_path = format!("{}/build/driver_in_{}_{}.txt", args.workdir, args.prop, std::process::id());
    let mut all_lines: Vec<Vec<String>> = vec![];
    {
        let mut f = std::io::BufWriter::new(std::fs::File::create(&input_path).map_err(|e| e.to_string())?);
        for c in cases { let ls = c.lines(); for l in &ls { writeln!(f, "{}", l).map_err(|e| e.to_string())?; } all_lines.push(ls); }
    }
    let out = Command::new(&args.driver).arg(&args.unicode).stdin(Stdio::from(std::fs::File::open(&input_path).map_err(|e| e.to_string())?))
        .stderr(Stdio::inherit()).output().map_err(|e| format!("cannot run driver {}: {}", args.driver, e))?;
    let _ = std::fs::remove_file(&input_path);
    if !out.status.success() { return Err(format!("driver exited with {:?}", out.status)); }
    let text = String::from_utf8_lossy(&out.stdout);
    let mut model_lines = text.lines();
    let mut stats = CmpStats { ties: 0, captie: 0 };
    for (ci, c) in cases.iter().enumerate() {
        rep.cases += 1;
        let hdr = model_lines.next().unwrap_or("");
        if hdr != format!("case {}", c.name) { return Err(format!("driver output out of step at case {}: got `{}`", c.name, hdr)); }
        // breadcrumb: if the implementation aborts the process (std precondition check, allocation failure) the
        // check script picks this file up as the replay
        let crumb = format!("{}/build/current_case_{}.txt", args.workdir, args.prop);
        let _ = std::fs::write(&crumb, format!("# property {} — the harness process died while executing this case on the real code\n{}\n", args.prop, all_lines[ci].join("\n")));
        let real = exec_case(c);
        let e = rep.per_stream.entry(c.stream.to_string()).or_insert((0, 0));
        e.0 += 1; e.1 += c.ops.len();
        if rep.samples.len() < 6 && ci % (cases.len() / 6 + 1) == 0 { if let Some(op) = c.ops.get(c.ops.len() / 2) { rep.samples.push(format!("{} [{}] {}", c.name, c.lang, op.line())); } }
        let mut failed = false;
        for (oi, op) in c.ops.iter().enumerate() {
            let m = model_lines.next().unwrap_or("<driver output ended>");
            rep.ops += 1;
            if failed { continue; }
            let r = match real.get(oi) { Some(r) => r, None => continue };
            fnv1a(&mut rep.digest, &r.digest_text());
            classify(&mut rep.dist, op, r, m);
            if let Err(detail) = compare(op, r, m, &mut stats) {
                let d = Divergence { case: c.name.clone(), stream: c.stream.to_string(), lang: c.lang.clone(), op_index: oi, op_line: op.line(), detail, lines: all_lines[ci].clone() };
                if let Obs::Panic(_) = r { rep.panics.push(d); } else { rep.divergences.push(d); }
                failed = true;
            }
        }
    }
    let _ = std::fs::remove_file(format!("{}/build/current_case_{}.txt", args.workdir, args.prop));
    rep.ties = stats.ties; rep.captie = stats.captie;
    Ok(rep)
}

/// measured input distribution (which branches the generated cases reach)
fn classify(dist: &mut BTreeMap<String, usize>, op: &Op, real: &Obs, model: &str) {
    let mut bump = |k: &str| { *dist.entry(k.to_string()).or_insert(0) += 1; };
    match (op, real) {
        (Op::Search(q), Obs::Search(r)) => {
            bump(if q.chars().any(|c| c.is_alphanumeric()) { "search.nonempty_query" } else { "search.empty_query" });
            bump(if r.is_empty() { "search.no_hits" } else { "search.with_hits" });
            if model.contains("captie=1") { bump("search.cap_tie"); }
        }
        (Op::Tm { .. }, Obs::Line(l)) => {
            if l.contains(" r=- ") { bump("tm.no_match"); } else { bump("tm.match"); }
            if l.contains("pass=0") { bump("tm.filtered_out"); }
            let r = l.split(' ').find(|t| t.starts_with("r=")).unwrap_or("");
            if r.split(';').any(|m| m.split(':').nth(5).map(|t| t != "0").unwrap_or(false)) { bump("tm.with_typos"); }
            if r.split(';').count() > 1 { bump("tm.multi_word_match"); }
        }
        (Op::Wm { joinr, joinq, .. }, Obs::Line(l)) => {
            if *joinr { bump("wm.joined_record"); }
            if *joinq { bump("wm.joined_query"); }
            if l.contains("len=0") { bump("wm.length_gate_rejects"); } else if l.contains("jac=0") { bump("wm.jaccard_gate_rejects"); }
            else if l.ends_with("none") { bump("wm.distance_rejects"); } else if l.contains("r=") { bump("wm.match"); }
        }
        (Op::Dist(a, _, b, _), Obs::Line(l)) => {
            if a.len().max(b.len()) > 20 { bump("dist.beyond_initial_capacity"); } else { bump("dist.within_capacity"); }
            if !l.contains("size=22 ") { bump("dist.grown_matrix"); }
        }
        (Op::Prepare(..), Obs::Prepare(r)) => { bump(if r.is_empty() { "prepare.empty" } else { "prepare.nonempty" }); }
        (Op::TokQ(_), Obs::Line(l)) | (Op::TokR(_), Obs::Line(l)) => {
            let nw = if l.starts_with("tok -|") { 0 } else { l.split('|').next().unwrap_or("").split(';').count() };
            bump(match nw { 0 => "tok.words=0", 1 => "tok.words=1", 2 => "tok.words=2", _ => "tok.words>=3" });
            if l.contains("|0,") || l.contains(",0,") || l.contains(",0|") { bump("tok.nul_padding_or_nul"); }
        }
        (_, Obs::Panic(_)) => bump("panic"),
        _ => {}
    }
}

fn write_replay(path: &str, prop: &str, kind: &str, d: &Divergence) {
    let mut s = String::new();
    s.push_str(&format!("# property {} — {}\n# case {} stream {} lang {} op #{}: {}\n# {}\n# replay: /verif/check {} --replay {}\n", prop, kind, d.case, d.stream, d.lang, d.op_index, d.op_line, d.detail.replace('\n', " "), prop, path));
    for l in &d.lines { s.push_str(l); s.push('\n'); }
    let _ = std::fs::write(path, s);
}

fn main() {
    install_panic_hook();
    let args = parse_args();
    let code = match args.mode.as_str() {
        "unicode" => unicode::dump_and_check(&args),
        "run" => plan::run(&args),
        "replay" => plan::replay(&args),
        _ => { eprintln!("unknown mode"); 2 }
    };
    std::process::exit(code);
}

/// delta-debugging of a diverging case: drop everything after the first diverging operation, then drop earlier
/// operations one at a time as long as some divergence remains
pub fn shrink(args: &Args, d: &Divergence) -> Option<(Case, Divergence)> {
    let lines: Vec<String> = d.lines.clone();
    let mut case = case_from_lines(&lines);
    case.name = d.case.clone(); case.lang = d.lang.clone();
    if d.op_index + 1 < case.ops.len() { case.ops.truncate(d.op_index + 1); }
    let still_fails = |c: &Case| -> Option<Divergence> {
        match correspondence(args, std::slice::from_ref(c)) { Ok(mut r) => { let mut v: Vec<Divergence> = r.panics.drain(..).collect(); v.extend(r.divergences.drain(..)); v.into_iter().next() } Err(_) => None }
    };
    let mut best = still_fails(&case)?;
    let is_panic = |d: &Divergence| d.detail.starts_with("implementation panicked");
    let kind = is_panic(&best);
    let mut i = case.ops.len();
    let mut budget = 70;
    while i > 0 && budget > 0 {
        i -= 1; budget -= 1;
        if case.ops.len() <= 1 { break; }
        let mut cand = case.clone();
        cand.ops.remove(i);
        // keep the sequence a valid use of the top-level API (ids exist when used, no double create), and keep the
        // kind of failure: a smaller sequence that fails for another reason is not a smaller replay of this one
        if !valid_registry_use(&cand) { continue; }
        if let Some(dv) = still_fails(&cand) { if is_panic(&dv) == kind { case = cand; best = dv; } }
    }
    Some((case, best))
}

fn valid_registry_use(c: &Case) -> bool {
    use crate::proto::Op;
    let mut live: Vec<usize> = vec![];
    for op in &c.ops {
        match op {
            Op::RCreate(id, _) => { if live.contains(id) { return false; } live.push(*id); }
            Op::RDestroy(id) => { if !live.contains(id) { return false; } live.retain(|x| x != id); }
            Op::RMarkers(id, ..) | Op::RLimit(id, _) | Op::RAdd(id, ..) | Op::RSearch(id, _) | Op::RResults(id) | Op::RClear(id) => { if !live.contains(id) { return false; } }
            _ => {}
        }
    }
    true
}

pub fn emit_divergences(args: &Args, rep: &CorrReport, replays: &mut Vec<String>) {
    for (k, d) in rep.panics.iter().chain(rep.divergences.iter()).enumerate() {
        if k >= 5 { break; }
        let path = format!("{}/replays/{}_{}_{}.replay", args.workdir, args.prop, if k < rep.panics.len() { "panic" } else { "corr" }, k);
        let kind = if k < rep.panics.len() { "implementation panic" } else { "model/implementation divergence" };
        // shrink the first two (each attempt is one driver invocation)
        match if k < 2 { shrink(args, d) } else { None } {
            Some((c, dv)) => { let small = Divergence { lines: c.lines(), case: c.name.clone(), stream: d.stream.clone(), lang: c.lang.clone(), op_index: dv.op_index, op_line: dv.op_line.clone(), detail: format!("{} [shrunk from {} to {} operations]", dv.detail, d.lines.iter().filter(|l| !l.starts_with("stem ") && !l.starts_with("case ") && !l.starts_with("lang ")).count(), c.ops.len()) }; write_replay(&path, &args.prop, kind, &small); }
            None => write_replay(&path, &args.prop, kind, d),
        }
        replays.push(path);
    }
}
