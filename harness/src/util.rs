//! PRNG, text encoding for the line protocol, tiny JSON writer, panic capture.
use std::cell::RefCell;
use std::fmt::Write as _;

/// xorshift64* — every random choice of a run derives from one state seeded by VERIF_SEED.
#[derive(Clone)]
pub struct Rng(pub u64);

impl Rng {
    pub fn new(seed: u64) -> Rng {
        let mut r = Rng(seed ^ 0x9E37_79B9_7F4A_7C15);
        if r.0 == 0 { r.0 = 0x1234_5678_9ABC_DEF1; }
        for _ in 0..8 { r.next(); }
        r
    }
    pub fn next(&mut self) -> u64 {
        let mut x = self.0;
        x ^= x >> 12; x ^= x << 25; x ^= x >> 27;
        self.0 = x;
        x.wrapping_mul(0x2545_F491_4F6C_DD1D)
    }
    pub fn below(&mut self, n: usize) -> usize { if n == 0 { 0 } else { (self.next() % n as u64) as usize } }
    pub fn range(&mut self, lo: usize, hi: usize) -> usize { lo + self.below(hi - lo + 1) }
    pub fn chance(&mut self, num: usize, den: usize) -> bool { self.below(den) < num }
    pub fn pick<'a, T>(&mut self, xs: &'a [T]) -> &'a T { &xs[self.below(xs.len())] }
    pub fn pick_str<'a>(&mut self, xs: &[&'a str]) -> &'a str { xs[self.below(xs.len())] }
    pub fn fork(&mut self, tag: u64) -> Rng { Rng::new(self.next() ^ tag.wrapping_mul(0xD6E8_FEB8_6659_FD93)) }
    pub fn shuffle<T>(&mut self, xs: &mut Vec<T>) {
        for i in (1..xs.len()).rev() { let j = self.below(i + 1); xs.swap(i, j); }
    }
}

pub fn enc(cs: &[char]) -> String {
    if cs.is_empty() { return "-".to_string(); }
    let mut s = String::new();
    for (i, c) in cs.iter().enumerate() {
        if i > 0 { s.push(','); }
        let _ = write!(s, "{}", *c as u32);
    }
    s
}

pub fn enc_str(s: &str) -> String { enc(&s.chars().collect::<Vec<_>>()) }

pub fn enc_nums<T: std::fmt::Display>(xs: &[T]) -> String {
    if xs.is_empty() { return "-".to_string(); }
    xs.iter().map(|x| x.to_string()).collect::<Vec<_>>().join(",")
}

pub fn dec(s: &str) -> Vec<char> {
    if s == "-" || s.is_empty() { return vec![]; }
    s.split(',').map(|t| std::char::from_u32(t.parse::<u32>().unwrap_or(0xFFFD)).unwrap_or('\u{FFFD}')).collect()
}

pub fn dec_string(s: &str) -> String { dec(s).into_iter().collect() }

pub fn json_str(s: &str) -> String {
    let mut o = String::from("\"");
    for c in s.chars() {
        match c {
            '"' => o.push_str("\\\""),
            '\\' => o.push_str("\\\\"),
            '\n' => o.push_str("\\n"),
            '\r' => o.push_str("\\r"),
            '\t' => o.push_str("\\t"),
            c if (c as u32) < 0x20 => { let _ = write!(o, "\\u{:04x}", c as u32); }
            c => o.push(c),
        }
    }
    o.push('"');
    o
}

thread_local! {
    pub static LAST_PANIC: RefCell<Option<String>> = RefCell::new(None);
}

pub fn install_panic_hook() {
    std::panic::set_hook(Box::new(|info| {
        let loc = info.location().map(|l| {
            let f = l.file();
            let f = match f.find("rust/core/src/") { Some(i) => &f[i + "rust/core/src/".len()..], None => f };
            format!("{}:{}", f, l.line())
        }).unwrap_or_else(|| "?".to_string());
        let msg = if let Some(s) = info.payload().downcast_ref::<&str>() { s.to_string() }
                  else if let Some(s) = info.payload().downcast_ref::<String>() { s.clone() } else { "?".to_string() };
        LAST_PANIC.with(|p| *p.borrow_mut() = Some(format!("{} {}", loc, msg.replace('\n', " "))));
    }));
}

/// run `f`, turning a panic into `Err("file:line message")`
pub fn guarded<T, F: FnOnce() -> T>(f: F) -> Result<T, String> {
    LAST_PANIC.with(|p| *p.borrow_mut() = None);
    match std::panic::catch_unwind(std::panic::AssertUnwindSafe(f)) {
        Ok(v) => Ok(v),
        Err(_) => Err(LAST_PANIC.with(|p| p.borrow_mut().take()).unwrap_or_else(|| "? unknown panic".to_string())),
    }
}

pub fn fnv1a(h: &mut u64, s: &str) {
    for b in s.as_bytes() { *h ^= *b as u64; *h = h.wrapping_mul(0x100000001b3); }
    *h ^= 0xff; *h = h.wrapping_mul(0x100000001b3);
}
