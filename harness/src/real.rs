//! Execution of protocol operations on the real code (in-process), producing observation lines in the
//! driver's format.
use crate::util::*;
use lucid_suggest_core as core;
use core::lang::{CharClass, PartOfSpeech};
use core::verif::*;
use core::{Lang, Record, Store, Text, TextOwn, Word, WordShape, tokenize_query};
use core::tokenization::tokenize_record;

pub const LANGS: [&str; 7] = ["none", "de", "en", "es", "fr", "pt", "ru"];

pub fn make_lang(code: &str) -> Lang {
    match code {
        "de" => core::lang_german(),
        "en" => core::lang_english(),
        "es" => core::lang_spanish(),
        "fr" => core::lang_french(),
        "pt" => core::lang_portuguese(),
        "ru" => core::lang_russian(),
        _ => Lang::new(),
    }
}

pub fn class_code(c: &CharClass) -> u32 {
    match c {
        CharClass::Any => 0, CharClass::Control => 1, CharClass::Whitespace => 2, CharClass::Punctuation => 3,
        CharClass::NotAlpha => 4, CharClass::NotAlphaNum => 5, CharClass::Consonant => 6, CharClass::Vowel => 7,
    }
}

pub fn code_class(c: u32) -> CharClass {
    match c {
        1 => CharClass::Control, 2 => CharClass::Whitespace, 3 => CharClass::Punctuation, 4 => CharClass::NotAlpha,
        5 => CharClass::NotAlphaNum, 6 => CharClass::Consonant, 7 => CharClass::Vowel, _ => CharClass::Any,
    }
}

pub fn show_bool(b: bool) -> &'static str { if b { "1" } else { "0" } }

pub fn show_word(w: &WordShape) -> String {
    let pos = match w.pos { None => "-".to_string(), Some(p) => format!("{:?}", p) };
    format!("{}:{}:{}:{}:{}:{}", w.offset, w.slice.0, w.slice.1, w.stem, pos, show_bool(w.fin))
}

pub fn show_text(t: &TextOwn) -> String {
    let ws = if t.words.is_empty() { "-".to_string() } else { t.words.iter().map(show_word).collect::<Vec<_>>().join(";") };
    let cls: Vec<u32> = t.classes.iter().map(class_code).collect();
    format!("{}|{}|{}|{}", ws, enc(&t.source), enc(&t.chars), enc_nums(&cls))
}

/// typos as f64 → tenths; anything that is not an exact number of tenths is shown raw (and will differ)
pub fn tenths(x: f64) -> String {
    let t = (x * 10.0).round();
    if (t / 10.0 - x).abs() < 1e-12 && t >= 0.0 { format!("{}", t as u64) } else { format!("raw{}", x) }
}

pub fn show_match(m: &WordMatch) -> String {
    format!("{}:{}:{}:{}:{}:{}:{}:{}", m.offset, m.slice.0, m.slice.1, m.subslice.0, m.subslice.1, tenths(m.typos), show_bool(m.func), show_bool(m.fin))
}

pub fn show_matches(ms: &[WordMatch]) -> String {
    if ms.is_empty() { "-".to_string() } else { ms.iter().map(show_match).collect::<Vec<_>>().join(";") }
}

/// words of a tokenised text as (chars, stem) for the stem-oracle table
pub fn stems_of(t: &TextOwn, lang: &Lang) -> Vec<(Vec<char>, usize)> {
    t.words.iter().filter(|w| w.slice.0 <= w.slice.1 && w.slice.1 <= t.chars.len())
        .map(|w| { let cs = t.chars[w.slice.0..w.slice.1].to_vec(); let s = lang.stem(&cs); (cs, s) }).collect()
}

pub struct RealState {
    pub lang_code: String,
    pub lang: Lang,
    pub store: Store,
    pub damlev: DamerauLevenshtein,
    /// a second engine fed the same pairs with the first word marked unfinished (the distance must not depend on it)
    pub damlev_unfinished: DamerauLevenshtein,
    pub jaccard: Jaccard<char>,
    pub live_ids: Vec<usize>,
}

impl RealState {
    pub fn new(code: &str) -> RealState {
        let mut store = Store::new();
        store.lang = make_lang(code);
        RealState { lang_code: code.to_string(), lang: make_lang(code), store, damlev: DamerauLevenshtein::new(), damlev_unfinished: DamerauLevenshtein::new(), jaccard: Jaccard::new(), live_ids: vec![] }
    }
    pub fn cleanup(&mut self) {
        for id in self.live_ids.drain(..) { let _ = guarded(|| core::destroy_store(id)); }
    }
}

pub fn text_from_parts(chars: &[char], classes: &[u32]) -> TextOwn {
    let mut t = TextOwn::from_vec(chars.to_vec());
    t.classes = classes.iter().map(|c| code_class(*c)).collect();
    t
}

pub fn search_results(store: &Store, q: &str) -> Vec<(usize, String)> {
    let query = tokenize_query(q, &store.lang);
    let query = query.to_ref();
    store.search(&query).into_iter().map(|r| (r.id, r.title)).collect()
}

pub fn new_store(code: &str, limit: usize) -> Store {
    let mut s = Store::new();
    s.lang = make_lang(code);
    s.limit = limit;
    s
}

pub fn add_to(store: &mut Store, id: usize, title: &str, rating: usize) {
    let r = Record::new(id, title, rating, &store.lang);
    store.add(r);
}
