//! Oracle side-conditions checked against the real thing on every run:
//! * dump of `std`'s character predicates for all scalars (the driver's Unicode oracle);
//! * `UnicodeFacts` (hypotheses of the tokenizer theorems) checked exhaustively over all scalars;
//! * agreement of the f64 threshold comparisons with the model's exact cross-multiplied ones.
use crate::util::*;
use crate::Args;
use lucid_suggest_core as core;
use core::lang::{CharClass, CharPattern};
use std::fmt::Write as _;

fn ranges<F: Fn(char) -> bool>(f: F) -> String {
    let mut out = String::new();
    let mut start: Option<u32> = None;
    let mut prev = 0u32;
    let mut first = true;
    let mut flush = |out: &mut String, a: u32, b: u32, first: &mut bool| { if !*first { out.push(','); } *first = false; let _ = write!(out, "{}-{}", a, b); };
    for cp in 0..=0x10FFFFu32 {
        let ok = std::char::from_u32(cp).map(|c| f(c)).unwrap_or(false);
        if ok { if start.is_none() { start = Some(cp); } prev = cp; }
        else if let Some(s) = start.take() { flush(&mut out, s, prev, &mut first); }
    }
    if let Some(s) = start { flush(&mut out, s, prev, &mut first); }
    if out.is_empty() { "-".to_string() } else { out }
}

pub fn lower1(c: char) -> char { c.to_lowercase().next().unwrap_or(c) }

pub fn dump_and_check(args: &Args) -> i32 {
    let lang = core::Lang::new();
    let punct = |c: char| CharClass::Punctuation.matches(c, &lang) == Some(true);
    // 1. dump
    let mut tbl = String::new();
    tbl.push_str(&format!("alpha {}\n", ranges(|c| c.is_alphabetic())));
    tbl.push_str(&format!("numeric {}\n", ranges(|c| c.is_numeric())));
    tbl.push_str(&format!("white {}\n", ranges(|c| c.is_whitespace())));
    tbl.push_str(&format!("control {}\n", ranges(|c| c.is_control())));
    tbl.push_str(&format!("upper {}\n", ranges(|c| c.is_uppercase())));
    let mut lows = vec![];
    for cp in 0..=0x10FFFFu32 { if let Some(c) = std::char::from_u32(cp) { let l = lower1(c); if l != c { lows.push(format!("{}:{}", cp, l as u32)); } } }
    tbl.push_str(&format!("lower {}\n", if lows.is_empty() { "-".to_string() } else { lows.join(",") }));
    if std::fs::write(&args.unicode, &tbl).is_err() { eprintln!("cannot write {}", args.unicode); return 2; }

    // 2. UnicodeFacts, exhaustively
    let mut bad: Vec<String> = vec![];
    let mut scalars = 0usize;
    let mut unlowerable: Vec<u32> = vec![];
    let mut titlecase_like = 0usize;
    let sep = |c: char| c.is_whitespace() || c.is_control() || punct(c);
    for cp in 0..=0x10FFFFu32 {
        let c = match std::char::from_u32(cp) { Some(c) => c, None => continue };
        scalars += 1;
        let l = lower1(c);
        if sep(c) && c.is_alphanumeric() { bad.push(format!("sep_not_alnum U+{:04X}", cp)); }
        if c.is_alphanumeric() != l.is_alphanumeric() { bad.push(format!("lower_preserves_alnum U+{:04X}", cp)); }
        if c.is_alphabetic() != l.is_alphabetic() { bad.push(format!("lower_preserves_alpha U+{:04X}", cp)); }
        if !sep(c) && sep(l) { bad.push(format!("lower_no_new_sep U+{:04X}", cp)); }
        if lower1(l) != l { bad.push(format!("lower_idempotent U+{:04X}", cp)); }
        if l.is_uppercase() && l != c { bad.push(format!("lower_result_upper U+{:04X}", cp)); }
        if c.is_uppercase() && l == c { unlowerable.push(cp); }
        if !c.is_uppercase() && l != c && !c.is_alphabetic() { bad.push(format!("lower_changes_nonalpha U+{:04X}", cp)); }
        // extra oracle facts used by the C11 re-casing theorems
        if sep(l) != sep(c) { bad.push(format!("sep_lower U+{:04X}", cp)); }
        if !c.is_uppercase() && l != c { titlecase_like += 1; }
    }
    // CaseClosed: folding a character and folding its lower-case form agree up to case, for every language's reduce table
    let mut case_closed_checked = 0usize;
    for code in crate::real::LANGS.iter() {
        let lg = crate::real::make_lang(code);
        for cp in 0..=0x10FFFFu32 {
            let c = match std::char::from_u32(cp) { Some(c) => c, None => continue };
            let l = lower1(c);
            if l == c { continue; }
            case_closed_checked += 1;
            let r1: Vec<char> = lg.unicode_reduce(&[c]).map(|x| x.1).unwrap_or(vec![c]).into_iter().map(lower1).collect();
            let r2: Vec<char> = lg.unicode_reduce(&[l]).map(|x| x.1).unwrap_or(vec![l]).into_iter().map(lower1).collect();
            if r1 != r2 { bad.push(format!("case_closed[{}] U+{:04X}", code, cp)); }
            // LowerKeyFree: lower-casing a character that the reduce table leaves alone never yields a table key
            if lg.unicode_reduce(&[c]).is_none() && lg.unicode_reduce(&[l]).is_some() { bad.push(format!("lower_key_free[{}] U+{:04X}", code, cp)); }
        }
    }
    if !'\0'.is_control() { bad.push("nul_is_control".to_string()); }

    // 2b. StemBounded (hypothesis about the third-party Snowball stemmers): exhaustive short words per language
    let mut stem_checked = 0usize;
    let mut stem_bad: Vec<String> = vec![];
    let maxlen = if args.tier == "thorough" { 4 } else { 3 };
    for code in crate::real::LANGS.iter().filter(|c| **c != "none") {
        let lg = crate::real::make_lang(code);
        let alpha: Vec<char> = crate::gen::vocab(code).letters.into_iter().filter(|c| lg.unicode_reduce(&[*c]).is_none()).collect();
        let mut frontier: Vec<Vec<char>> = vec![vec![]];
        for _ in 0..maxlen {
            let mut next = Vec::with_capacity(frontier.len() * alpha.len());
            for w in &frontier { for c in &alpha { let mut t = w.clone(); t.push(*c); next.push(t); } }
            for w in &next {
                stem_checked += 1;
                let st = lg.stem(w);
                if !(1 <= st && st <= w.len()) && stem_bad.len() < 10 { stem_bad.push(format!("{}: stem({:?}) = {}", code, w.iter().collect::<String>(), st)); }
            }
            frontier = next;
        }
    }
    // 2c. char_class.rs against the meaning the model gives each class (std predicates, the punctuation list read by
    //     the translator, the language's own consonant / vowel table), for every scalar and every language
    let mut cc_bad: Vec<String> = vec![];
    let mut suspects: Vec<u32> = vec![];
    let mut cc_checked = 0usize;
    let punct_list: Option<Vec<u32>> = if args.punct.is_empty() { None } else { Some(args.punct.split(',').filter_map(|x| x.parse().ok()).collect()) };
    for code in crate::real::LANGS.iter() {
        let lg = crate::real::make_lang(code);
        for cp in 0..=0x10FFFFu32 {
            let c = match std::char::from_u32(cp) { Some(c) => c, None => continue };
            let tbl = lg.get_char_class(c);
            let mut want: Vec<(CharClass, Option<bool>)> = vec![
                (CharClass::Any, Some(true)), (CharClass::Control, Some(c.is_control())), (CharClass::Whitespace, Some(c.is_whitespace())),
                (CharClass::NotAlpha, Some(!c.is_alphabetic())), (CharClass::NotAlphaNum, Some(!c.is_alphanumeric())),
                (CharClass::Consonant, tbl.map(|k| k == CharClass::Consonant)), (CharClass::Vowel, tbl.map(|k| k == CharClass::Vowel))];
            if let Some(pl) = &punct_list { want.push((CharClass::Punctuation, Some(pl.contains(&cp)))); }
            for (k, w) in want {
                cc_checked += 1;
                let got = k.matches(c, &lg);
                if got != w {
                    if cc_bad.len() < 20 { cc_bad.push(format!("{:?}.matches(U+{:04X}) [{}] = {:?}, model meaning {:?}", k, cp, code, got, w)); }
                    if suspects.len() < 40 && !suspects.contains(&cp) { suspects.push(cp); }
                }
            }
        }
    }
    // 3. float facts
    let consts = parse_consts(&args.consts);
    let mut float_bad: Vec<String> = vec![];
    let mut float_evals = 0usize;
    let n = if args.tier == "thorough" { 4096 } else { 1024 };
    if let Some(k) = &consts {
        for l in 1..=n {
            for s in 0..=l {
                float_evals += 2;
                let f = 1.0 - (s as f64 / l as f64) < k.len_f;
                let e = k.len_den * ((l - s) as u128) < k.len_num * (l as u128);
                if f != e { float_bad.push(format!("length short={} long={} f64={} exact={}", s, l, f, e)); }
                let f = 1.0 - (s as f64 / l as f64) < k.jac_f;
                let e = k.jac_den * ((l - s) as u128) < k.jac_num * (l as u128);
                if f != e { float_bad.push(format!("jaccard i={} u={} f64={} exact={}", s, l, f, e)); }
            }
        }
        // distance: dist = t/10 for t multiple of 5 tenths, m = max(qslice, rslice, 1)
        for m in 1..=n {
            let mut t = 0u128;
            while t <= 10 * m as u128 + 10 {
                float_evals += 1;
                let dist = t as f64 / 10.0;
                let f = dist / (m as f64) > k.dam_f;
                let e = k.dam_den * t > k.dam_num * 10 * (m as u128);
                if f != e { float_bad.push(format!("damlev tenths={} max={} f64={} exact={}", t, m, f, e)); }
                t += 5;
            }
        }
    }
    float_bad.truncate(20);
    let ok = bad.is_empty() && float_bad.is_empty() && consts.is_some() && stem_bad.is_empty() && cc_bad.is_empty();
    let mut j = String::from("{");
    let _ = write!(j, "\"ok\":{},\"scalars\":{},\"unicode_fact_violations\":{},\"unicode_bad\":[{}],", ok, scalars, bad.len(),
        bad.iter().take(20).map(|s| json_str(s)).collect::<Vec<_>>().join(","));
    let _ = write!(j, "\"stem_words_checked\":{},\"stem_max_len\":{},\"stem_bad\":[{}],", stem_checked, maxlen, stem_bad.iter().map(|s| json_str(s)).collect::<Vec<_>>().join(","));
    let _ = write!(j, "\"titlecase_like\":{},\"case_closed_checked\":{},", titlecase_like, case_closed_checked);
    let _ = write!(j, "\"char_class_checked\":{},\"char_class_bad\":[{}],\"suspects\":[{}],", cc_checked, cc_bad.iter().map(|s| json_str(s)).collect::<Vec<_>>().join(","), suspects.iter().map(|x| x.to_string()).collect::<Vec<_>>().join(","));
    let _ = write!(j, "\"unlowerable_uppercase\":{},\"unlowerable_digest\":\"{:016x}\",", unlowerable.len(), { let mut h = 0xcbf29ce484222325u64; for c in &unlowerable { fnv1a(&mut h, &c.to_string()); } h });
    let _ = write!(j, "\"float_evaluations\":{},\"float_max_len\":{},\"float_bad\":[{}]}}", float_evals, n, float_bad.iter().map(|s| json_str(s)).collect::<Vec<_>>().join(","));
    let _ = std::fs::write(&args.out, &j);
    println!("{}", j);
    if ok { 0 } else { 1 }
}

pub struct FConsts { pub len_f: f64, pub len_num: u128, pub len_den: u128, pub jac_f: f64, pub jac_num: u128, pub jac_den: u128, pub dam_f: f64, pub dam_num: u128, pub dam_den: u128 }

/// "len=13/50,jac=51/100,dam=21/100" (fractions exactly as the generator read them from the source)
pub fn parse_consts(s: &str) -> Option<FConsts> {
    let mut m = std::collections::BTreeMap::new();
    for part in s.split(',') {
        let mut kv = part.split('=');
        let k = kv.next()?; let v = kv.next()?;
        let mut nd = v.split('/');
        let n: u128 = nd.next()?.parse().ok()?; let d: u128 = nd.next()?.parse().ok()?;
        m.insert(k.to_string(), (n, d));
    }
    let g = |k: &str| m.get(k).cloned();
    let (ln, ld) = g("len")?; let (jn, jd) = g("jac")?; let (dn, dd) = g("dam")?;
    // the decimal literal of the source, re-read as f64 the way rustc reads it
    let lit = |n: u128, d: u128| -> f64 { let mut den = d; let mut num = n; let mut k = 0; while den != 1 && k < 30 { if den % 10 == 0 { den /= 10; } else if den % 2 == 0 { den /= 2; num *= 5; } else if den % 5 == 0 { den /= 5; num *= 2; } else { break; } k += 1; }
        // num / 10^k as decimal string
        let s = format!("{:0>width$}", num, width = k + 1); let (a, b) = s.split_at(s.len() - k); format!("{}.{}", a, if b.is_empty() { "0" } else { b }).parse().unwrap_or(f64::NAN) };
    Some(FConsts { len_f: lit(ln, ld), len_num: ln, len_den: ld, jac_f: lit(jn, jd), jac_num: jn, jac_den: jd, dam_f: lit(dn, dd), dam_num: dn, dam_den: dd })
}
