//! Implementation-side probes: each property's statement evaluated directly on the real code for
//! generated inputs. They are not the decision procedure (the theorems are); they find the concrete
//! replay when a proof obligation or the correspondence breaks, and they run on every check.
use crate::gen::*;
use crate::proto::*;
use crate::real::*;
use crate::util::*;
use lucid_suggest_core as core;
use core::verif::*;
use core::{Store, TextOwn, Word, tokenize_query};
use core::tokenization::tokenize_record;
use core::lang::{CharClass, CharPattern};
use std::collections::{BTreeMap, BTreeSet};

pub struct Failure { pub what: String, pub case: Case }

pub struct ProbeReport {
    pub evaluations: usize,
    pub distinct: BTreeSet<u64>,
    pub failures: Vec<Failure>,
    pub samples: Vec<String>,
    pub notes: BTreeMap<String, usize>,
}

impl ProbeReport {
    pub fn new() -> Self { ProbeReport { evaluations: 0, distinct: BTreeSet::new(), failures: vec![], samples: vec![], notes: BTreeMap::new() } }
    pub fn eval(&mut self, key: &str, nontrivial: bool) {
        self.evaluations += 1;
        if nontrivial { let mut h = 0xcbf29ce484222325u64; fnv1a(&mut h, key); self.distinct.insert(h); }
        if self.samples.len() < 5 && self.evaluations % 97 == 1 { self.samples.push(key.to_string()); }
    }
    pub fn note(&mut self, k: &str) { *self.notes.entry(k.to_string()).or_insert(0) += 1; }
    pub fn fail(&mut self, what: String, case: Case) { if self.failures.len() < 8 { self.failures.push(Failure { what, case }); } }
}

#[derive(Clone, Debug)]
pub struct Scn { pub lang: String, pub recs: Vec<(usize, String, usize)>, pub limit: usize }

impl Scn {
    pub fn build(&self) -> Store {
        let mut s = new_store(&self.lang, self.limit);
        for (id, t, r) in &self.recs { add_to(&mut s, *id, t, *r); }
        s
    }
    pub fn case(&self, name: &str, extra: Vec<Op>) -> Case {
        let mut ops = vec![Op::New, Op::Limit(self.limit)];
        for (id, t, r) in &self.recs { ops.push(Op::Add(*id, *r, t.clone())); }
        ops.extend(extra);
        Case { name: name.to_string(), lang: self.lang.clone(), stream: "probe", ops }
    }
}

pub fn rand_scn(v: &Vocab, r: &mut Rng, max_n: usize, distinct: bool, within_limit: bool) -> Scn {
    let n = r.range(1, max_n);
    let mut used = vec![];
    let mut recs = vec![];
    for i in 0..n {
        let rating = if distinct { loop { let x = r.below(1 << 20); if !used.contains(&x) { used.push(x); break x; } } } else { r.below(5) };
        recs.push((i + 1, v.title(r), rating));
    }
    let limit = if within_limit { n + r.below(3) } else { *r.pick(&[0usize, 1, 2, 3, n, n + 1, 10]) };
    Scn { lang: v.lang.clone(), recs, limit }
}

fn wchars(t: &TextOwn, i: usize) -> Vec<char> { let w = &t.words[i]; t.chars[w.slice.0..w.slice.1].to_vec() }

fn grams_of(t: &TextOwn) -> BTreeSet<[char; 3]> {
    let mut g = BTreeSet::new();
    for i in 0..t.words.len() {
        let cs = wchars(t, i);
        if cs.len() >= 1 { g.insert([cs[0], '\0', '\0']); }
        if cs.len() >= 2 { g.insert([cs[0], cs[1], '\0']); }
        for k in 0..cs.len().saturating_sub(2) { g.insert([cs[k], cs[k + 1], cs[k + 2]]); }
    }
    g
}

const ML: char = '\u{E000}';
const MR: char = '\u{E001}';

/// strip sentinel markers: plain text + spans (start, len) in characters of the plain text; None if unbalanced
fn parse_marked(s: &str) -> Option<(Vec<char>, Vec<(usize, usize)>)> {
    let mut plain = vec![]; let mut spans = vec![]; let mut open: Option<usize> = None;
    for c in s.chars() {
        if c == ML { if open.is_some() { return None; } open = Some(plain.len()); }
        else if c == MR { let st = open.take()?; spans.push((st, plain.len() - st)); }
        else { plain.push(c); }
    }
    if open.is_some() { return None; }
    Some((plain, spans))
}

fn search_marked(store: &mut Store, q: &str) -> Vec<(usize, String)> {
    store.highlight_with((&ML.to_string(), &MR.to_string()));
    search_results(store, q)
}

fn has_sentinel(s: &str) -> bool { s.contains(ML) || s.contains(MR) }

/// source text without NUL padding, and for every position of `chars` the index into that stripped text
fn stripped_index(t: &TextOwn) -> (Vec<char>, Vec<usize>) {
    let mut out = vec![]; let mut idx = vec![];
    for c in &t.source { idx.push(out.len()); if *c != '\0' { out.push(*c); } }
    idx.push(out.len());
    (out, idx)
}

fn one_word_query(lang: &core::Lang, q: &str, want: &[char], unfinished: bool) -> bool {
    let t = tokenize_query(q, lang);
    t.words.len() == 1 && wchars(&t, 0) == want && (t.words[0].fin != unfinished)
}

pub fn run_probe(prop: &str, r: &mut Rng, budget: usize) -> ProbeReport {
    let mut p = ProbeReport::new();
    let res = guarded(|| match prop {
        "C01" => p01(&mut p, r, budget), "C02" => p02(&mut p, r, budget), "C03" => p03(&mut p, r, budget),
        "C04" => p04(&mut p, r, budget), "C05" => p05(&mut p, r, budget), "C06" => p06(&mut p, r, budget),
        "C07" => p07(&mut p, r, budget), "C08" => p08(&mut p, r, budget), "C09" => p09(&mut p, r, budget),
        "C10" => p10(&mut p, r, budget), "C11" => p11(&mut p, r, budget), "C12" => p12(&mut p, r, budget),
        "C13" => p13(&mut p, r, budget), "C14" => p14(&mut p, r, budget), "C15" => p15(&mut p, r, budget),
        "C16" => p16(&mut p, r, budget), "C17" => p17(&mut p, r, budget), "C18" => p18(&mut p, r, budget),
        "C19" => p19(&mut p, r, budget), "C20" => p20(&mut p, r, budget),
        _ => {}
    });
    if let Err(e) = res {
        p.fail(format!("probe aborted by an implementation panic outside a guarded call: {}", e), Case { name: "panic".into(), lang: "none".into(), stream: "probe", ops: vec![] });
    }
    p
}

// ---------------- small-scope exhaustive enumerations shared by several probes ----------------

/// all words of length 1..=maxlen over `alpha`
pub fn words_over(alpha: &[char], maxlen: usize) -> Vec<String> {
    let mut all: Vec<String> = vec![];
    let mut frontier: Vec<String> = vec![String::new()];
    for _ in 0..maxlen {
        let mut next = vec![];
        for s in &frontier { for c in alpha { let mut t = s.clone(); t.push(*c); next.push(t); } }
        all.extend(next.iter().cloned());
        frontier = next;
    }
    all
}

/// every hit of a search on a store, checked against the hit-level clauses of C02 / C05 / C09
/// (sentinel markers): balanced word-aligned non-empty spans, at most one per word, title = composed source,
/// span length bounded by the query stretch + 1
pub fn hit_invariants(lang: &core::Lang, scn: &Scn, q: &str, hits: &[(usize, String)]) -> Result<(), String> {
    let tq = tokenize_query(q, lang);
    let stretch = if tq.words.is_empty() { 0 } else { tq.words.last().unwrap().slice.1 - tq.words[0].slice.0 };
    for (id, title) in hits {
        if title.contains('\0') { return Err(format!("title of hit {} contains NUL", id)); }
        let (plain, spans) = parse_marked(title).ok_or(format!("markers unbalanced in {:?}", title))?;
        if tq.words.is_empty() != spans.is_empty() { return Err(format!("query words {} but {} spans in {:?}", tq.words.len(), spans.len(), title)); }
        let rec = scn.recs.iter().filter(|e| e.0 == *id).find(|e| stripped_index(&tokenize_record(&e.1, lang)).0 == plain)
            .ok_or(format!("hit ({}, {:?}) is not the composed title of a stored record", id, plain.iter().collect::<String>()))?;
        let t = tokenize_record(&rec.1, lang);
        let (_, idx) = stripped_index(&t);
        let mut used = BTreeSet::new();
        for (s, l) in &spans {
            if *l == 0 { return Err(format!("empty span in {:?}", title)); }
            let wi = t.words.iter().position(|w| idx[w.slice.0] == *s).ok_or(format!("span at {} does not start a word in {:?}", s, title))?;
            if !used.insert(wi) { return Err(format!("word {} highlighted twice in {:?}", wi, title)); }
            if s + l > idx[t.words[wi].slice.1] { return Err(format!("span at {} runs past its word in {:?}", s, title)); }
            let norm_len = (t.words[wi].slice.0..t.chars.len()).take_while(|k| idx[*k] < s + l).count();
            if norm_len > stretch + 1 { return Err(format!("span of {} normalised characters exceeds the typed stretch {} + 1 in {:?} for query {:?}", norm_len, stretch, title, q)); }
        }
    }
    Ok(())
}

/// C03 / C09 / C14 small scope: one- and two-word titles over a tiny alphabet with gaps of width 1..3, queried with
/// every prefix, every split spelling and the run-together spelling (+ a cheap tail); every hit list is also
/// checked for the hit-level invariants
pub fn small_scope_titles(p: &mut ProbeReport, code: &str, which: &str, maxlen: usize) {
    let lang = make_lang(code);
    let special = adversarial_alphabet(code)[9];
    let alpha = ['a', 'b', special];
    let words = words_over(&alpha, maxlen);
    let gaps = [" ", "-", "  ", " - ", "'"];
    let mut titles: Vec<String> = words.clone();
    for w1 in words.iter().filter(|w| w.chars().count() <= 2) { for w2 in words.iter().filter(|w| w.chars().count() <= 2) { for g in &gaps { titles.push(format!("{}{}{}", w1, g, w2)); } } }
    for title in titles {
        let scn = Scn { lang: code.to_string(), recs: vec![(1, title.clone(), 1)], limit: 1 };
        let mut st = scn.build();
        let t = tokenize_record(&title, &lang);
        let mut queries: Vec<(String, bool)> = vec![];   // (query, record must be found)
        for wi in 0..t.words.len() {
            let cs = wchars(&t, wi);
            for k in 1..=cs.len() {
                if !cs[k - 1].is_alphanumeric() { continue; }
                let q: String = cs[..k].iter().collect();
                let ok = one_word_query(&lang, &q, &cs[..k], true);
                if which == "C03" || which == "C09" { queries.push((q, ok)); }
            }
            if which != "C03" && cs.len() >= 3 {
                for sp in 1..cs.len() {
                    let q = format!("{} {}", cs[..sp].iter().collect::<String>(), cs[sp..].iter().collect::<String>());
                    let tq = tokenize_query(&q, &lang);
                    let ok = tq.words.len() == 2 && wchars(&tq, 0) == cs[..sp].to_vec() && wchars(&tq, 1) == cs[sp..].to_vec();
                    queries.push((q, ok && which == "C14"));
                }
            }
            if which != "C03" && wi + 1 < t.words.len() {
                let mut joined = cs.clone(); joined.extend(wchars(&t, wi + 1));
                let q: String = joined.iter().collect();
                let tq = tokenize_query(&q, &lang);
                let one_sep = t.words[wi + 1].slice.0 == t.words[wi].slice.1 + 1;
                let ok = one_sep && joined.len() >= 3 && tq.words.len() == 1 && wchars(&tq, 0) == joined && tq.words[0].stem == joined.len();
                queries.push((q.clone(), ok && which == "C14"));
                for tail in &["1", "11", "a", "bb"] { queries.push((format!("{}{}", cs.iter().collect::<String>(), tail), false)); }
            }
        }
        for (q, must_find) in queries {
            p.eval(&format!("x|{}|{}|{}", code, title, q), must_find);
            let res = guarded(|| search_marked(&mut st, &q));
            let hits = match res { Ok(h) => h, Err(e) => { p.fail(format!("search {:?} on title {:?} panicked: {}", q, title, e), scn.case("small-scope", vec![Op::Search(q.clone())])); return; } };
            if must_find && !hits.iter().any(|h| h.0 == 1) {
                p.fail(format!("[{}] query {:?} does not find the title {:?}", which, q, title), scn.case("small-scope", vec![Op::Search(q.clone())]));
            }
            if let Err(e) = hit_invariants(&lang, &scn, &q, &hits) {
                p.fail(format!("[{}] title {:?} query {:?}: {}", which, title, q, e), scn.case("small-scope", vec![Op::Markers(ML.to_string(), MR.to_string()), Op::Search(q.clone())]));
            }
            if p.failures.len() >= 6 { return; }
        }
    }
}

/// the reference answer of C10/C20: a newly constructed store with the same language, records, limit and markers,
/// built and searched in a FRESH THREAD, so that it shares no thread-local scratch state (distance matrix, cost
/// vectors, Jaccard buffers, match vectors) with the store under test
pub fn fresh_thread_search(lang: &str, recs: &[(usize, String, usize)], limit: usize, markers: &(String, String), q: &str) -> Vec<(usize, String)> {
    let (lang, recs, markers, q) = (lang.to_string(), recs.to_vec(), markers.clone(), q.to_string());
    std::thread::spawn(move || {
        let mut st = Scn { lang, recs, limit }.build();
        st.highlight_with((&markers.0, &markers.1));
        search_results(&st, &q)
    }).join().unwrap_or_default()
}

// ---------------- C01: never panic ----------------
fn p01(p: &mut ProbeReport, r: &mut Rng, budget: usize) {
    // witnesses of the fixed defect D1 first (regression corpus), then adversarial stores
    for (t, q) in &[("t-shirt", "tshirt"), ("usb-c", "usbc"), ("lumière-sit", "s it"), ("a-b", "ab"), ("x y", "xy")] {
        let scn = Scn { lang: "none".into(), recs: vec![(1, t.to_string(), 1)], limit: 10 };
        let st = scn.build();
        p.eval(&format!("{}|{}", t, q), true);
        if let Err(e) = guarded(|| search_results(&st, q)) { p.fail(format!("search panicked: {}", e), scn.case("c01-corpus", vec![Op::Search(q.to_string())])); }
    }
    // the top-level API with limits walking up and down around the result buffer's capacity: every sequence of three
    // limits over a small set, with and without a search that fills the buffer in between
    {
        let limits = [0usize, 5, 10, 11, 40, 55, 60, 95, 100];
        let id = 730_000usize;
        let mut n = 0usize;
        'walk: for a in limits { for b in limits { for c in limits { for fill in [false, true] {
            n += 1;
            let mut ops = vec![Op::RCreate(id, "none".into())];
            for i in 0..30 { ops.push(Op::RAdd(id, i + 1, i, format!("lamp {}", i))); }
            for l in [a, b, c] { ops.push(Op::RLimit(id, l)); if fill { ops.push(Op::RSearch(id, "lamp".into())); } }
            ops.push(Op::RSearch(id, "lam".into()));
            let res = guarded(|| {
                core::create_store(id, make_lang("none"));
                for i in 0..30 { core::add_record(id, i + 1, &format!("lamp {}", i), i); }
                for l in [a, b, c] { core::set_limit(id, l); if fill { core::run_search(id, "lamp"); } }
                core::run_search(id, "lam");
                core::using_results(id, |rs| rs.len())
            });
            let _ = guarded(|| core::destroy_store(id));
            p.eval(&format!("limit-walk|{}|{}|{}|{}", a, b, c, fill), true);
            match res {
                Err(e) => { p.fail(format!("top-level API panicked while the limit walked {} -> {} -> {}: {}", a, b, c, e), Case { name: "c01-limit-walk".into(), lang: "none".into(), stream: "probe", ops }); break 'walk; }
                Ok(k) if k != c.min(30) => { p.fail(format!("limit walked {} -> {} -> {}: {} hits instead of {}", a, b, c, k, c.min(30)), Case { name: "c01-limit-walk".into(), lang: "none".into(), stream: "probe", ops }); break 'walk; }
                _ => {}
            }
        } } } }
        p.notes.insert("limit_walks".into(), n);
    }
    let budget = budget + p.evaluations;
    let mut i = 0;
    while p.evaluations < budget {
        let code = LANGS[i % LANGS.len()]; i += 1;
        let v = vocab(code);
        let mut ops: Vec<Op> = vec![Op::New];
        let mut st = new_store(code, 10);
        let alpha = adversarial_alphabet(code);
        for step in 0..r.range(3, 14) {
            let s: String = match r.below(5) {
                0 => { let k = r.range(0, 6); (0..k).map(|_| *r.pick(&alpha)).collect() }
                1 => { let k = r.range(0, 10); random_unicode(r, k) }
                2 => { let a = v.word(r); let b = v.word(r); format!("{}{}{}", a, r.pick(&["-", " ", "'", ""]), b) }
                _ => v.title(r),
            };
            let op = match r.below(10) {
                0 | 1 | 2 => Op::Add(step, r.below(1 << 31), s),
                3 => Op::Limit(*r.pick(&[0usize, 1, 2, 10, 65536])),
                4 => Op::Markers(s.chars().take(3).collect(), "]".into()),
                _ => { let q = if r.chance(1, 2) { s } else { let base = ops.iter().rev().find_map(|o| if let Op::Add(_, _, t) = o { Some(t.clone()) } else { None }).unwrap_or(s); query_for(&v, r, &base) }; Op::Search(q) }
            };
            ops.push(op.clone());
            p.eval(&op.line(), true);
            let res = guarded(|| match &op {
                Op::Add(id, rt, t) => add_to(&mut st, *id, t, *rt),
                Op::Limit(n) => st.limit = *n,
                Op::Markers(l, rr) => st.highlight_with((l, rr)),
                Op::Search(q) => { search_results(&st, q); }
                _ => {}
            });
            if let Err(e) = res { p.fail(format!("{} panicked: {}", op.line(), e), Case { name: "c01".into(), lang: code.into(), stream: "probe", ops: ops.clone() }); break; }
        }
    }
}

// ---------------- C02: titles are the stored titles, only decorated ----------------
/// C02 through the top-level API: per id the records added since its creation (or since the store was cleared); after
/// every search each hit's id must be one of them and its title, sentinel markers deleted, that record's composed
/// title. Each generated sequence ends, for every live id, with destroy + create under the same id + its last query
/// again (an empty store), then one add and the query once more.
fn reg_hits_were_added(p: &mut ProbeReport, r: &mut Rng, rounds: usize) {
    for round in 0..rounds {
        let mut case = reg_cases(r, 1).remove(0);
        // tail: what is live at the end, and the last query per id
        let mut live: Vec<(usize, String)> = vec![];
        let mut lastq: BTreeMap<usize, String> = BTreeMap::new();
        for op in &case.ops { match op { Op::RCreate(id, l) => live.push((*id, l.clone())), Op::RDestroy(id) => live.retain(|e| e.0 != *id), Op::RSearch(id, q) => { lastq.insert(*id, q.clone()); } _ => {} } }
        for (k, (id, l)) in live.iter().enumerate() {
            let q = lastq.get(id).cloned().unwrap_or_else(|| "a".to_string());
            let _ = k;
            case.ops.push(Op::RDestroy(*id)); case.ops.push(Op::RCreate(*id, l.clone())); case.ops.push(Op::RSearch(*id, q.clone()));
            case.ops.push(Op::RAdd(*id, 77, 1, q.clone())); case.ops.push(Op::RSearch(*id, q));
        }
        let mut added: BTreeMap<usize, (String, Vec<(usize, String)>)> = BTreeMap::new();
        let mut live_now: Vec<usize> = vec![];
        let mut failure: Option<(String, usize)> = None;
        let res = guarded(|| {
            for (k, op) in case.ops.iter().enumerate() {
                match op {
                    Op::RCreate(id, l) => { core::create_store(*id, make_lang(l)); core::highlight_with(*id, (&ML.to_string(), &MR.to_string())); added.insert(*id, (l.clone(), vec![])); live_now.push(*id); }
                    Op::RDestroy(id) => { core::destroy_store(*id); added.remove(id); live_now.retain(|x| x != id); }
                    Op::RClear(id) => { core::using_store(*id, |s| s.clear()); added.get_mut(id).unwrap().1.clear(); }
                    Op::RMarkers(..) => {}     // the sentinels stay configured
                    Op::RLimit(id, n) => core::set_limit(*id, *n),
                    Op::RAdd(id, rid, rating, t) => { if has_sentinel(t) { continue; } core::add_record(*id, *rid, t, *rating); added.get_mut(id).unwrap().1.push((*rid, t.clone())); }
                    Op::RSearch(id, q) => {
                        core::run_search(*id, q);
                        let got: Vec<(usize, String)> = core::using_results(*id, |rs| rs.iter().map(|x| (x.id, x.title.clone())).collect());
                        let (l, recs) = &added[id];
                        let v = vocab(l);
                        for (hid, title) in &got {
                            let plain: Option<String> = parse_marked(title).map(|x| x.0.into_iter().collect());
                            let ok = recs.iter().filter(|e| e.0 == *hid).any(|e| { let src: Vec<char> = e.1.chars().collect(); let want: String = ref_compose(&v.accents, &src).into_iter().filter(|c| *c != '\0').collect(); Some(want) == plain });
                            if !ok && failure.is_none() { failure = Some((format!("store {}: search {:?} returns hit ({}, {:?}) but the records added to this store since it was created / cleared are {:?}", id, q, hid, title, recs), k)); }
                        }
                    }
                    _ => {}
                }
                if failure.is_some() { break; }
            }
        });
        for id in live_now.drain(..) { let _ = guarded(|| core::destroy_store(id)); }
        p.eval(&format!("reg-added|{}", round), true);
        if let Err(e) = res { p.fail(format!("top-level API panicked: {}", e), case.clone()); return; }
        if let Some((what, k)) = failure { p.fail(what, Case { ops: case.ops[..=k].to_vec(), ..case.clone() }); return; }
    }
}

fn p02(p: &mut ProbeReport, r: &mut Rng, budget: usize) {
    reg_hits_were_added(p, r, if budget > 5000 { 600 } else { 60 });
    // every inventory letter of every language, stored decomposed as the ONLY combining mark of the title, alone and
    // next to an unrelated precomposed letter: the returned title (markers deleted) is the composed title
    for code in LANGS.iter().skip(1) {
        let v = vocab(code);
        for &c in &v.accents {
            let (b, m) = match decompose_char(c) { Some(x) => x, None => continue };
            let w = v.word(r);
            for title in [format!("{}{}{} {}", b, m, w, w), format!("{} {}{}{}", w, w, b, m), format!("{}{}", b, m)] {
                let src: Vec<char> = title.chars().collect();
                let want: String = ref_compose(&v.accents, &src).into_iter().filter(|x| *x != '\0').collect();
                let scn = Scn { lang: code.to_string(), recs: vec![(1, title.clone(), 1)], limit: 10 };
                let mut st = scn.build();
                for q in [String::new(), w.clone()] {
                    p.eval(&format!("{}|lone-mark|{}|{}", code, title, q), true);
                    for (id, t) in search_marked(&mut st, &q) {
                        let plain: Option<String> = parse_marked(&t).map(|x| x.0.into_iter().collect());
                        if id != 1 || plain.as_deref() != Some(want.as_str()) {
                            p.fail(format!("title {:?} is returned as {:?}; with the markers deleted the composed title {:?} is required", title, t, want), scn.case("c02-lone-mark", vec![Op::Markers(ML.to_string(), MR.to_string()), Op::Search(q.clone())]));
                        }
                    }
                }
            }
        }
    }
    let budget = budget + p.evaluations;
    let mut i = 0;
    while p.evaluations < budget {
        let code = LANGS[i % LANGS.len()]; i += 1;
        let v = vocab(code);
        let scn = rand_scn(&v, r, 6, false, false);
        if scn.recs.iter().any(|e| has_sentinel(&e.1)) { continue; }
        let mut st = scn.build();
        let t = r.pick(&scn.recs).1.clone();
        let q = if r.chance(1, 5) { String::new() } else { query_for(&v, r, &t) };
        let hits = search_marked(&mut st, &q);
        let markers2 = r.pick(&[("", ""), ("<b>", "</b>"), ("a", "a"), ("\0", "\0"), ("[[", "]")]).clone();
        st.highlight_with(markers2);
        let hits2 = search_results(&st, &q);
        let lang = make_lang(code);
        for (k, (id, title)) in hits.iter().enumerate() {
            p.eval(&format!("{}|{}|{}", code, q, title), title.contains(ML));
            let mk = |what: String| (what, scn.case("c02", vec![Op::Markers(ML.to_string(), MR.to_string()), Op::Search(q.clone())]));
            if title.contains('\0') { let (w, c) = mk(format!("returned title contains NUL: {:?}", title)); p.fail(w, c); continue; }
            let plain = match parse_marked(title) { Some(x) => x.0, None => { let (w, c) = mk(format!("unbalanced markers in {:?}", title)); p.fail(w, c); continue; } };
            // some record with this id must have this composed title
            let ok = scn.recs.iter().filter(|e| e.0 == *id).any(|e| {
                let src: Vec<char> = e.1.chars().collect();
                let composed = ref_compose(&v.accents, &src);
                let want: Vec<char> = composed.into_iter().filter(|c| *c != '\0').collect();
                want == plain
            });
            if !ok { let (w, c) = mk(format!("hit id {} title {:?} is not the composed title of any record with that id", id, plain.iter().collect::<String>())); p.fail(w, c); }
            // changing the markers changes nothing but the markers
            if let Some((id2, t2)) = hits2.get(k) {
                let spans = parse_marked(title).map(|x| x.1).unwrap_or_default();
                let mut expect = String::new();
                let mut pos = 0;
                for (s, l) in &spans { expect.extend(plain[pos..*s].iter()); expect.push_str(markers2.0); expect.extend(plain[*s..*s + *l].iter()); expect.push_str(markers2.1); pos = s + l; }
                expect.extend(plain[pos..].iter());
                let expect: String = expect.chars().filter(|c| *c != '\0').collect();
                if id2 != id || *t2 != expect { let (w, c) = mk(format!("markers {:?}: expected ({}, {:?}) got ({}, {:?})", markers2, id, expect, id2, t2)); p.fail(w, c); }
            } else { let (w, c) = mk("changing the markers changed the number of hits".to_string()); p.fail(w, c); }
        }
        if hits.is_empty() { p.eval(&format!("{}|{}|nohit", code, q), false); }
    }
}

// ---------------- C03: any prefix of any title word finds the record ----------------
fn p03(p: &mut ProbeReport, r: &mut Rng, budget: usize) {
    for code in LANGS.iter() { small_scope_titles(p, code, "C03", if budget > 20000 { 3 } else { 2 }); }
    // a tiny vocabulary: eight records whose titles are the same short word (fewer distinct grams in the whole index
    // than records), limit 10: every prefix finds every one of them
    for code in LANGS.iter() {
        let v = vocab(code);
        let w: String = (0..r.range(2, 3)).map(|_| *r.pick(&v.letters)).collect();
        let up: String = w.to_uppercase();
        let recs: Vec<(usize, String, usize)> = (0..8).map(|i| (i + 1, match i % 4 { 0 => w.clone(), 1 => up.clone(), 2 => format!("{}!", w), _ => format!("{}.", w) }, 10 + i)).collect();
        let lang = make_lang(code);
        let tw = tokenize_record(&w, &lang);
        if tw.words.len() != 1 { continue; }
        let cs = wchars(&tw, 0);
        let scn = Scn { lang: code.to_string(), recs: recs.clone(), limit: 10 };
        let st = scn.build();
        for k in 1..=cs.len() {
            let q: String = cs[..k].iter().collect();
            if !one_word_query(&lang, &q, &cs[..k], true) { continue; }
            let hits = ids(&search_results(&st, &q));
            p.eval(&format!("{}|tiny-vocab|{}|{}", code, w, q), true);
            if let Some(missing) = recs.iter().find(|e| tokenize_record(&e.1, &lang).words.len() == 1 && !hits.contains(&e.0)) {
                p.fail(format!("eight records titled like {:?}, limit 10: prefix {:?} does not find record {} {:?}; hits {:?}", w, q, missing.0, missing.1, hits), scn.case("c03-tiny-vocabulary", vec![Op::Search(q.clone())]));
                break;
            }
        }
    }
    // inflected words (stem shorter than the word): every prefix, in particular the one of exactly the stem length
    for code in LANGS.iter().filter(|c| **c != "none") {
        let v = vocab(code);
        let lang = make_lang(code);
        let mut done = 0;
        let mut tries = 0;
        while done < (if budget > 20000 { 400 } else { 60 }) && tries < 20000 {
            tries += 1;
            let w = v.word(r);
            let t = tokenize_record(&w, &lang);
            if t.words.len() != 1 || t.words[0].stem >= t.words[0].len() { continue; }
            done += 1;
            let scn = Scn { lang: code.to_string(), recs: vec![(1, w.clone(), 1)], limit: 1 };
            let st = scn.build();
            let cs = wchars(&t, 0);
            for k in 1..=cs.len() {
                if !cs[k - 1].is_alphanumeric() { continue; }
                let q: String = cs[..k].iter().collect();
                if !one_word_query(&lang, &q, &cs[..k], true) { continue; }
                p.eval(&format!("infl|{}|{}|{}", code, w, q), true);
                if !search_results(&st, &q).iter().any(|h| h.0 == 1) {
                    p.fail(format!("prefix {:?} (stem length {}) of the inflected word {:?} does not find it [{}]", q, t.words[0].stem, w, code), scn.case("c03-inflected", vec![Op::Search(q.clone())]));
                }
            }
        }
    }
    let budget = budget + p.evaluations;
    let mut i = 0;
    while p.evaluations < budget {
        let code = LANGS[i % LANGS.len()]; i += 1;
        let v = vocab(code);
        let scn = if i % 3 == 0 { small_scn(code, r) } else { rand_scn(&v, r, 5, false, true) };
        let st = scn.build();
        let lang = make_lang(code);
        for (id, title, _) in &scn.recs {
            let t = tokenize_record(title, &lang);
            for wi in 0..t.words.len() {
                let cs = wchars(&t, wi);
                for k in 1..=cs.len() {
                    if !cs[k - 1].is_alphanumeric() { continue; }
                    let q: String = cs[..k].iter().collect();
                    if !one_word_query(&lang, &q, &cs[..k], true) { p.note("premise_not_met"); continue; }
                    p.eval(&format!("{}|{}|{}", code, title, q), true);
                    let hits = search_results(&st, &q);
                    if !hits.iter().any(|h| h.0 == *id) {
                        p.fail(format!("prefix {:?} of word {:?} of title {:?} (id {}) does not find the record; hits {:?}", q, cs.iter().collect::<String>(), title, id, hits),
                               scn.case("c03", vec![Op::Search(q.clone())]));
                    }
                }
            }
        }
    }
}

fn small_scn(code: &str, r: &mut Rng) -> Scn {
    let special = adversarial_alphabet(code)[9];
    let alpha = ['a', 'b', 'c', '1', special, 'é', '\''];
    let n = r.range(1, 3);
    let recs = (0..n).map(|i| {
        let nw = r.range(1, 2);
        let t = (0..nw).map(|_| { let k = r.range(1, 4); (0..k).map(|_| *r.pick(&alpha)).collect::<String>() }).collect::<Vec<_>>().join(r.pick_str(&[" ", "-"]));
        (i + 1, t, r.below(5))
    }).collect::<Vec<_>>();
    Scn { lang: code.to_string(), recs, limit: n + r.below(3) }
}

// ---------------- C04: one typo in a >=5-letter word ----------------
fn p04(p: &mut ProbeReport, r: &mut Rng, budget: usize) {
    // a large catalogue: 4200 titles whose words start with the target's first letter are added before the target
    // (limit above the store size); the target's transposition typo must still find it
    for code in ["none", "en"] {
        let mut recs: Vec<(usize, String, usize)> = (0..4200).map(|i| (10 + i, format!("h{}{}x{}", (b'a' + (i % 7) as u8 + 10) as char, (b'a' + (i / 7 % 26) as u8) as char, i), 5 + i)).collect();
        recs.push((1, "hello world".into(), 1));
        let scn = Scn { lang: code.to_string(), recs, limit: 5000 };
        let st = scn.build();
        for q in ["hlelo", "helol", "ehllo"] {
            p.eval(&format!("{}|big-catalogue|{}", code, q), true);
            let hits = ids(&search_results(&st, q));
            if !hits.contains(&1) { p.fail(format!("4201 records, limit 5000: the typo {:?} of `hello` does not find record 1 `hello world` ({} hits)", q, hits.len()), Case { name: "c04-big-catalogue".into(), lang: code.to_string(), stream: "probe", ops: vec![Op::Search(q.to_string())] }); break; }
        }
    }
    // misspellings that happen to be function words of the language: a title word one edit away from a function word
    // f (`cross` / `across`, `whale` / `while`), asked by typing f
    for code in LANGS.iter().skip(1) {
        let v = vocab(code);
        let lang = make_lang(code);
        let mut tried = 0;
        for f in v.func.iter().filter(|f| f.chars().count() >= 5) {
            if tried >= (if budget > 5000 { 200 } else { 25 }) { break; }
            let fc: Vec<char> = f.chars().collect();
            for kind in 0..4 {
                let mut w = fc.clone();
                let pos = r.below(w.len());
                match kind { 0 => { w.remove(pos); } 1 => { w.insert(pos, *r.pick(&v.letters)); } 2 => { w[pos] = *r.pick(&v.letters); } _ => { if pos + 1 < w.len() { w.swap(pos, pos + 1); } } }
                let ws: String = w.iter().collect();
                let distinct: BTreeSet<char> = w.iter().cloned().collect();
                if w == fc || w.len() < 5 || distinct.len() < 3 || v.func.contains(&ws) { continue; }
                // premises of the property: the title word and the typed word each tokenise to themselves
                let (tw, tq) = (tokenize_record(&ws, &lang), tokenize_query(f, &lang));
                if tw.words.len() != 1 || wchars(&tw, 0) != w || tq.words.len() != 1 || wchars(&tq, 0) != fc { continue; }
                tried += 1;
                let scn = Scn { lang: code.to_string(), recs: vec![(1, format!("{} {}", ws, v.word(r)), 3)], limit: 10 };
                if has_sentinel(&scn.recs[0].1) { continue; }
                p.eval(&format!("{}|func-edit|{}|{}", code, ws, f), true);
                let hits = search_results(&scn.build(), f);
                if !hits.iter().any(|h| h.0 == 1) { p.fail(format!("title word {:?} is one edit away from the function word {:?}; typing {:?} does not find the record {:?}; hits {:?}", ws, f, f, scn.recs[0].1, hits), scn.case("c04-function-word-edit", vec![Op::Search(f.clone())])); }
            }
        }
    }
    let budget = budget + p.evaluations;
    let mut i = 0;
    while p.evaluations < budget {
        let code = LANGS[i % LANGS.len()]; i += 1;
        let v = vocab(code);
        let scn = if i % 4 == 0 {
            // synthetic 5-6 letter words over a 4-letter alphabet
            let a: Vec<char> = v.letters.iter().take(4).cloned().collect();
            let k = r.range(5, 6);
            Scn { lang: code.into(), recs: vec![(1, (0..k).map(|_| *r.pick(&a)).collect(), 1)], limit: 1 }
        } else { rand_scn(&v, r, 4, false, true) };
        let st = scn.build();
        let lang = make_lang(code);
        // letters that normalisation leaves unchanged
        let stable: Vec<char> = v.letters.iter().cloned().filter(|c| { let t = tokenize_query(&c.to_string(), &lang); t.words.len() == 1 && t.chars == vec![*c] }).collect();
        for (id, title, _) in &scn.recs {
            let t = tokenize_record(title, &lang);
            for wi in 0..t.words.len() {
                let cs = wchars(&t, wi);
                let distinct: BTreeSet<char> = cs.iter().cloned().collect();
                if cs.len() < 5 || distinct.len() < 3 || !cs.iter().all(|c| c.is_alphabetic()) { continue; }
                let mut edits: Vec<(String, Vec<char>)> = vec![];
                for pos in 0..=cs.len() {
                    if pos < cs.len() { let mut e = cs.clone(); e.remove(pos); edits.push((format!("del@{}", pos), e)); }
                    if pos + 1 < cs.len() && cs[pos] != cs[pos + 1] { let mut e = cs.clone(); e.swap(pos, pos + 1); edits.push((format!("swap@{}", pos), e)); }
                    let c = *r.pick(&stable);
                    { let mut e = cs.clone(); e.insert(pos, c); edits.push((format!("ins@{}{}", pos, c), e)); }
                    if pos < cs.len() && c != cs[pos] { let mut e = cs.clone(); e[pos] = c; edits.push((format!("sub@{}{}", pos, c), e)); }
                }
                for (kind, e) in edits {
                    let q: String = e.iter().collect();
                    let tq = tokenize_query(&q, &lang);
                    if !(tq.words.len() == 1 && wchars(&tq, 0) == e) { p.note("premise_not_met"); continue; }
                    p.eval(&format!("{}|{}|{}", code, title, q), true);
                    // every third edited word is typed: one search per keystroke on the same store, then the whole word
                    let mut typed: Vec<Op> = vec![];
                    if (e.len() + i) % 3 == 0 { for k in 1..e.len() { let pre: String = e[..k].iter().collect(); let _ = search_results(&st, &pre); typed.push(Op::Search(pre)); } }
                    let hits = search_results(&st, &q);
                    if !hits.iter().any(|h| h.0 == *id) {
                        typed.push(Op::Search(q.clone()));
                        p.fail(format!("edit {} of word {:?} (query {:?}{}) does not find record {} {:?}; hits {:?}", kind, cs.iter().collect::<String>(), q, if typed.len() > 1 { ", typed keystroke by keystroke" } else { "" }, id, title, hits), scn.case("c04", typed.clone()));
                    }
                }
            }
        }
    }
}

// ---------------- C05: no unrelated hits; highlight bounded by what was typed ----------------
/// put a store into one of several histories before the search under test (results discarded): nothing, an
/// empty-query search, an empty-query search after widening the limit, a search for the first title's first word
pub fn prime(st: &mut Store, scn: &Scn, k: usize) -> Vec<Op> {
    match k % 4 {
        1 => { let _ = search_results(st, ""); vec![Op::Search(String::new())] }
        2 => { let n = scn.recs.len() + 5; let old = st.limit; st.limit = n; let _ = search_results(st, ""); st.limit = old; vec![Op::Limit(n), Op::Search(String::new()), Op::Limit(old)] }
        3 => { let q: String = scn.recs.first().map(|e| e.1.split_whitespace().next().unwrap_or("").to_string()).unwrap_or_default(); let _ = search_results(st, &q); vec![Op::Search(q)] }
        _ => vec![],
    }
}

fn p05(p: &mut ProbeReport, r: &mut Rng, budget: usize) {
    // queries that resemble a title word without sharing a gram with it (first two letters swapped, first letter
    // replaced), on stores in several histories: whatever is returned must share a gram with the query
    for (n, code) in LANGS.iter().cycle().take(LANGS.len() * 30).enumerate() {
        let v = vocab(code);
        let lang = make_lang(code);
        let w: Vec<char> = v.word(r).chars().filter(|c| c.is_alphanumeric()).take(r.range(3, 5)).collect();
        if w.len() < 3 { continue; }
        let ws: String = w.iter().collect();
        let scn = Scn { lang: code.to_string(), recs: vec![(1, format!("{} {}", ws, v.word(r)), 7), (2, v.title(r), 3), (3, format!("{} {}", v.word(r), ws), 5)], limit: 10 };
        if scn.recs.iter().any(|e| has_sentinel(&e.1)) { continue; }
        let mut swapped = w.clone(); swapped.swap(0, 1);
        let mut replaced = w.clone(); replaced[0] = *r.pick(&v.letters);
        let mut second = w.clone(); second[1] = *r.pick(&v.letters); second[0] = *r.pick(&v.letters);
        // history variant "a query overflowed the candidate cap": limit 1 (cap 10), 14 records that share a whole word
        // with the first query and the target, which shares only its first letter with it
        {
            let w1: String = std::iter::once(w[0]).chain((0..3).map(|_| *r.pick(&v.letters))).collect();
            let mut recs: Vec<(usize, String, usize)> = (0..14).map(|i| (10 + i, format!("{} {}", w1, v.word(r)), 50 + i)).collect();
            recs.push((1, format!("{} {}", ws, v.word(r)), 7));
            let big = Scn { lang: code.to_string(), recs, limit: 1 };
            if !big.recs.iter().any(|e| has_sentinel(&e.1)) {
                let mut st = big.build();
                let _ = search_results(&st, &w1);
                let mut sw = w.clone(); sw.swap(0, 1);
                let q: String = sw.iter().collect();
                let tq = tokenize_query(&q, &lang);
                if !tq.words.is_empty() {
                    let qg = grams_of(&tq);
                    p.eval(&format!("{}|nogram-cap|{}|{}", code, ws, q), true);
                    for (id, title) in search_marked(&mut st, &q) {
                        let related = big.recs.iter().filter(|e| e.0 == id).any(|e| !grams_of(&tokenize_record(&e.1, &lang)).is_disjoint(&qg));
                        if !related { p.fail(format!("after a query that overflowed the candidate cap, hit {} {:?} shares no gram with query {:?}", id, title, q), big.case("c05-nogram-cap", vec![Op::Search(w1.clone()), Op::Markers(ML.to_string(), MR.to_string()), Op::Search(q.clone())])); break; }
                    }
                }
            }
        }
        // a hyphenated title with a short first part, asked run together with the first letter replaced
        {
            let part1: String = w.iter().take(3).collect();
            let part2 = v.word(r);
            let hy = Scn { lang: code.to_string(), recs: vec![(1, format!("{}-{} {}", part1, part2, v.word(r)), 7)], limit: 10 };
            if !has_sentinel(&hy.recs[0].1) {
                for first in v.letters.iter().take(8) {
                    let q: String = std::iter::once(*first).chain(part1.chars().skip(1)).chain(part2.chars().take(1 + n % 2)).collect();
                    let tq = tokenize_query(&q, &lang);
                    if tq.words.is_empty() { continue; }
                    let qg = grams_of(&tq);
                    let mut st = hy.build();
                    p.eval(&format!("{}|nogram-hyphen|{}|{}", code, hy.recs[0].1, q), true);
                    for (id, title) in search_marked(&mut st, &q) {
                        let related = hy.recs.iter().filter(|e| e.0 == id).any(|e| !grams_of(&tokenize_record(&e.1, &lang)).is_disjoint(&qg));
                        if !related { p.fail(format!("hit {} {:?} shares no gram with query {:?}", id, title, q), hy.case("c05-nogram-hyphen", vec![Op::Markers(ML.to_string(), MR.to_string()), Op::Search(q.clone())])); break; }
                    }
                }
            }
        }
        for qv in [swapped, replaced, second] {
            let q: String = qv.iter().collect();
            let tq = tokenize_query(&q, &lang);
            if tq.words.is_empty() { continue; }
            let qg = grams_of(&tq);
            for k in 0..4 {
                let mut st = scn.build();
                let mut ops = prime(&mut st, &scn, k + n);
                p.eval(&format!("{}|nogram|{}|{}|{}", code, ws, q, k), true);
                for (id, title) in search_marked(&mut st, &q) {
                    let related = scn.recs.iter().filter(|e| e.0 == id).any(|e| !grams_of(&tokenize_record(&e.1, &lang)).is_disjoint(&qg));
                    if !related {
                        ops.push(Op::Markers(ML.to_string(), MR.to_string())); ops.push(Op::Search(q.clone()));
                        p.fail(format!("hit {} {:?} shares no gram with query {:?} (history variant {})", id, title, q, (k + n) % 4), scn.case("c05-nogram", ops));
                        break;
                    }
                }
            }
        }
    }
    // the same clause through the top-level API (result buffer read with `using_results`): a query with hits, then
    // queries that resemble nothing in the store, then the first one again
    for (n, code) in LANGS.iter().cycle().take(LANGS.len() * 6).enumerate() {
        let v = vocab(code);
        let lang = make_lang(code);
        let id = 700_000 + n;
        let recs: Vec<(usize, String, usize)> = (0..4).map(|i| (i + 1, v.title(r), 10 + i)).collect();
        if recs.iter().any(|e| has_sentinel(&e.1)) { continue; }
        let hitq = { let t = r.pick(&recs).1.clone(); query_for(&v, r, &t) };
        let junk: String = (0..3).map(|_| *r.pick(&['q', 'x', 'z', 'j', '7'])).collect();
        let mut ops: Vec<Op> = vec![Op::RCreate(id, code.to_string())];
        for (rid, t, rt) in &recs { ops.push(Op::RAdd(id, *rid, *rt, t.clone())); }
        let mut bad: Option<(String, usize)> = None;
        let res = guarded(|| {
            core::create_store(id, make_lang(code));
            for (rid, t, rt) in &recs { core::add_record(id, *rid, t, *rt); }
            for q in [hitq.clone(), junk.clone(), hitq.clone(), format!("{}{}", junk, junk), String::from("0")] {
                ops.push(Op::RSearch(id, q.clone()));
                core::run_search(id, &q);
                let tq = tokenize_query(&q, &lang);
                if tq.words.is_empty() { continue; }
                let qg = grams_of(&tq);
                let got: Vec<(usize, String)> = core::using_results(id, |rs| rs.iter().map(|x| (x.id, x.title.clone())).collect());
                for (hid, title) in &got {
                    let related = recs.iter().filter(|e| e.0 == *hid).any(|e| !grams_of(&tokenize_record(&e.1, &lang)).is_disjoint(&qg));
                    if !related && bad.is_none() { bad = Some((format!("top-level search {:?} reports hit {} {:?}, which shares no gram with the query", q, hid, title), ops.len())); }
                }
            }
        });
        let _ = guarded(|| core::destroy_store(id));
        p.eval(&format!("{}|api-related|{}", code, n), true);
        if let Err(e) = res { p.fail(format!("top-level API panicked: {}", e), Case { name: "c05-api".into(), lang: code.to_string(), stream: "probe", ops: ops.clone() }); }
        if let Some((what, k)) = bad { p.fail(what, Case { name: "c05-api".into(), lang: code.to_string(), stream: "probe", ops: ops[..k].to_vec() }); }
    }
    let budget = budget + p.evaluations;
    let mut i = 0;
    while p.evaluations < budget {
        let code = LANGS[i % LANGS.len()]; i += 1;
        let v = vocab(code);
        let lang = make_lang(code);
        if i % 3 == 0 {
            // exact-prefix clause on one-word titles; the first rounds take words whose characters change length
            // when lower-cased or are unusual digits / ligatures
            const SPECIAL: [&str; 8] = ["İstanbul", "DİYAR", "ﬁlter", "GROẞ", "ǅungla", "H₂O", "A۵۲s", "x²"];
            let w = if i <= LANGS.len() * 3 * SPECIAL.len() { SPECIAL[(i / (LANGS.len() * 3)) % SPECIAL.len()].to_string() } else { v.word(r) };
            let t = tokenize_record(&w, &lang);
            if t.words.len() != 1 || has_sentinel(&w) { continue; }
            let scn = Scn { lang: code.into(), recs: vec![(1, w.clone(), 1)], limit: 10 };
            let mut st = scn.build();
            let cs = wchars(&t, 0);
            let (_, idx) = stripped_index(&t);
            for k in 1..=cs.len() {
                if !cs[k - 1].is_alphanumeric() { continue; }
                let q: String = cs[..k].iter().collect();
                if !one_word_query(&lang, &q, &cs[..k], true) { continue; }
                p.eval(&format!("{}|{}|{}", code, w, q), true);
                let hits = search_marked(&mut st, &q);
                let ok = hits.len() == 1 && parse_marked(&hits[0].1).map(|(_, sp)| {
                    let w0 = &t.words[0];
                    sp.len() == 1 && sp[0].0 == idx[w0.slice.0] && sp[0].0 + sp[0].1 == idx[w0.slice.0 + k]
                }).unwrap_or(false);
                if !ok { p.fail(format!("exact prefix {:?} of one-word title {:?}: highlight is not exactly the typed characters: {:?}", q, w, hits), scn.case("c05-prefix", vec![Op::Markers(ML.to_string(), MR.to_string()), Op::Search(q.clone())])); }
            }
            continue;
        }
        let scn = rand_scn(&v, r, 14, false, false);
        if scn.recs.iter().any(|e| has_sentinel(&e.1)) { continue; }
        let mut st = scn.build();
        let _ = prime(&mut st, &scn, i / 3);
        let t0 = r.pick(&scn.recs).1.clone();
        let q = query_for(&v, r, &t0);
        let tq = tokenize_query(&q, &lang);
        if tq.words.is_empty() { continue; }
        let qg = grams_of(&tq);
        let stretch = tq.words.last().unwrap().slice.1 - tq.words[0].slice.0;
        let hits = search_marked(&mut st, &q);
        for (id, title) in &hits {
            p.eval(&format!("{}|{}|{}", code, q, title), true);
            let mk = |what: String| (what, scn.case("c05", vec![Op::Markers(ML.to_string(), MR.to_string()), Op::Search(q.clone())]));
            let related = scn.recs.iter().filter(|e| e.0 == *id).any(|e| !grams_of(&tokenize_record(&e.1, &lang)).is_disjoint(&qg));
            if !related { let (w, c) = mk(format!("hit {} {:?} shares no gram with query {:?}", id, title, q)); p.fail(w, c); }
            // span length in normalised characters: map back through the record's tokenisation
            if let Some((plain, spans)) = parse_marked(title) {
                for e in scn.recs.iter().filter(|e| e.0 == *id) {
                    let t = tokenize_record(&e.1, &lang);
                    let (stripped, idx) = stripped_index(&t);
                    if stripped != plain { continue; }
                    for (s, l) in &spans {
                        let a = idx.iter().position(|x| x == s).unwrap_or(0);
                        let b = idx.iter().rposition(|x| *x == s + l).unwrap_or(a);
                        // normalised length of the span = positions of chars covered, up to padding
                        let norm_len = (a..t.chars.len()).take_while(|k| idx[*k] < s + l).count();
                        let _ = b;
                        if norm_len > stretch + 1 + 1 { let (w, c) = mk(format!("span of {} normalised chars exceeds query stretch {} + 1 in {:?} for query {:?}", norm_len, stretch, title, q)); p.fail(w, c); }
                    }
                    break;
                }
            }
        }
        if hits.is_empty() { p.eval(&format!("{}|{}|nohit", code, q), false); }
    }
}

fn ids(h: &[(usize, String)]) -> Vec<usize> { h.iter().map(|x| x.0).collect() }

/// stores in which many records are hits, with limits large enough that the bounded selection compacts its
/// buffer more than once (hits between 2*limit-1 and 3*limit+1), in several insertion orders
fn compaction_stress(p: &mut ProbeReport, r: &mut Rng, which: &str, rounds: usize) {
    let colors = ["red", "blue", "green", "black", "white", "pink", "grey", "gold", "teal", "plum", "lime", "navy", "rose", "sand", "mint", "ruby", "jade", "onyx", "opal", "fawn",
                  "aqua", "buff", "cyan", "dune", "ecru", "fern", "iris", "kiwi", "lava", "moss", "nude", "oak", "pear", "rust", "sage", "tan", "umber", "wine", "zinc", "amber", "beige", "coral", "denim", "ebony"];
    for round in 0..rounds {
        for limit in [9usize, 10, 12].iter() {
            let lo = 2 * limit - 1; let hi = (3 * limit + 1).min(colors.len());
            for n in lo..=hi {
                let mut used = vec![];
                let recs: Vec<(usize, String, usize)> = (0..n).map(|k| { let rating = loop { let x = r.below(100000); if !used.contains(&x) { used.push(x); break x; } }; (k + 1, format!("{} desk lamp", colors[k]), rating) }).collect();
                let q = *r.pick(&["lamp", "desk", "desk lamp", "lam"]);
                let reference = { let mut sorted = recs.clone(); sorted.sort_by(|a, b| b.2.cmp(&a.2)); sorted };
                let mut order = recs.clone();
                r.shuffle(&mut order);
                let scn = Scn { lang: "none".into(), recs: order, limit: *limit };
                let hits = ids(&search_results(&scn.build(), q));
                let want: Vec<usize> = reference.iter().take(*limit).map(|e| e.0).collect();
                p.eval(&format!("compaction|{}|{}|{}|{}|{}", which, round, limit, n, q), true);
                if hits != want {
                    p.fail(format!("[{}] {} records all matching {:?}, limit {}: hits {:?} but the {} best-rated are {:?} (insertion order matters / wrong prefix of the unlimited list)", which, n, q, limit, hits, limit, want), scn.case("compaction", vec![Op::Search(q.to_string())]));
                    return;
                }
            }
        }
    }
}

// ---------------- C06: each record's own verdict, cut to the best `limit` ----------------
/// stores whose records are close relatives of one word (the word, extensions of it, one-edit neighbours, its
/// prefixes) in every order, asked with the word plus / minus a letter: whatever scratch state one candidate leaves
/// behind meets a candidate that resembles it. Every hit is compared with the record's own single-record store
/// searched on a fresh thread, and every record that is a hit on its own must be listed.
fn neighbour_locality(p: &mut ProbeReport, r: &mut Rng, rounds: usize) {
    for it in 0..rounds {
        let code = LANGS[it % LANGS.len()];
        let v = vocab(code);
        let small: Vec<char> = if code == "ru" { vec!['а', 'б', 'в'] } else { vec!['a', 'b', 'c'] };
        let base: Vec<char> = if it % 2 == 0 { (0..r.range(2, 5)).map(|_| *r.pick(&small)).collect() } else { v.word(r).chars().take(r.range(3, 6)).collect() };
        if base.is_empty() { continue; }
        let letter = |r: &mut Rng| if r.chance(1, 2) { *r.pick(&small) } else { *r.pick(&v.letters) };
        let ext = |r: &mut Rng, w: &Vec<char>, k: usize| { let mut x = w.clone(); for _ in 0..k { x.push(letter(r)); } x };
        let edit = |r: &mut Rng, w: &Vec<char>| { let mut x = w.clone(); let i = r.below(x.len()); match r.below(3) { 0 => { x[i] = letter(r); } 1 => { x.insert(i, letter(r)); } _ => { if x.len() > 1 { x.remove(i); } } } x };
        let mut family: Vec<Vec<char>> = vec![base.clone(), ext(r, &base, 1), ext(r, &base, 2), ext(r, &base, 3), edit(r, &base), base[..base.len() - 1].to_vec()];
        let e2 = ext(r, &base, 2); family.push(edit(r, &e2));
        family.retain(|w| !w.is_empty());
        let n = r.range(2, 4).min(family.len());
        r.shuffle(&mut family);
        let recs: Vec<(usize, String, usize)> = family.iter().take(n).enumerate().map(|(i, w)| {
            let t: String = w.iter().collect();
            (i + 1, if r.chance(1, 4) { format!("{} {}", t, v.word(r)) } else { t }, 100 - i)
        }).collect();
        let scn = Scn { lang: code.to_string(), recs: recs.clone(), limit: 10 };
        let st = scn.build();
        let mut queries: Vec<Vec<char>> = vec![ext(r, &base, 1), base.clone(), edit(r, &base), ext(r, &base, 2)];
        let e1 = ext(r, &base, 1); queries.push(edit(r, &e1));
        let markers = ("[".to_string(), "]".to_string());
        for qv in queries {
            let q: String = qv.iter().collect();
            let hits = search_results(&st, &q);
            p.eval(&format!("nb|{}|{:?}|{}", code, recs.iter().map(|e| e.1.clone()).collect::<Vec<_>>(), q), hits.len() > 1);
            for rec in &recs {
                let alone = fresh_thread_search(code, &[rec.clone()], 1, &markers, &q);
                let here: Vec<&(usize, String)> = hits.iter().filter(|h| h.0 == rec.0).collect();
                let same = match (alone.first(), here.first()) { (None, None) => true, (Some(a), Some(h)) => a.1 == h.1 && here.len() == 1, _ => false };
                if !same { p.fail(format!("record {} {:?} gives {:?} among its relatives but {:?} in a store of its own (query {:?})", rec.0, rec.1, here, alone, q), scn.case("c06-neighbours", vec![Op::Search(q.clone())])); return; }
            }
        }
    }
}

/// one long-lived store driven through adds, limit changes and searches (empty and not): after every step the hits at
/// the current limit must be the first `limit` entries of what the same store lists with an unlimited limit, and
/// that list must hold every record that is a hit in a store of its own (distinct ratings, |store| <= 10*limit)
fn lived_in_store(p: &mut ProbeReport, r: &mut Rng, rounds: usize, which: &str) {
    for it in 0..rounds {
        let code = LANGS[it % LANGS.len()];
        let v = vocab(code);
        let mut used: Vec<usize> = vec![];
        let mut fresh_rating = |r: &mut Rng| loop { let x = r.below(1000); if !used.contains(&x) { used.push(x); break x; } };
        let mut recs: Vec<(usize, String, usize)> = (0..r.range(2, 6)).map(|i| (i + 1, v.title(r), fresh_rating(r))).collect();
        let mut limit = *r.pick(&[2usize, 3, 10, 10]);
        let mut st = Scn { lang: code.to_string(), recs: recs.clone(), limit }.build();
        let mut ops: Vec<Op> = vec![Op::New, Op::Limit(limit)];
        for (id, t, rt) in &recs { ops.push(Op::Add(*id, *rt, t.clone())); }
        for step in 0..8 {
            match [0usize, 0, 0, 1, 1, 1, 1, 2, 2, 2, 3][r.below(11)] {
                0 => { let id = 100 + step; let t = v.title(r); let rt = if r.chance(1, 2) { fresh_rating(r) / 100 } else { fresh_rating(r) }; if recs.iter().any(|e| e.2 == rt) { continue; } add_to(&mut st, id, &t, rt); recs.push((id, t.clone(), rt)); ops.push(Op::Add(id, rt, t)); }
                1 => { limit = *r.pick(&[2usize, 3, 10, 10]); st.limit = limit; ops.push(Op::Limit(limit)); }
                2 => { let _ = search_results(&st, ""); ops.push(Op::Search(String::new())); }
                _ => { let t = r.pick(&recs).1.clone(); let q = query_for(&v, r, &t); let _ = search_results(&st, &q); ops.push(Op::Search(q)); }
            }
            let n = recs.len();
            if n > 10 * limit || limit == 0 { continue; }
            // the comparison itself searches (and so refreshes whatever the store caches): make it only now and then,
            // so that most steps meet the state the earlier steps left behind
            if step != 7 && !r.chance(1, 4) { continue; }
            let qs = [String::new(), { let t = r.pick(&recs).1.clone(); query_for(&v, r, &t) }];
            for q in qs.iter() {
                let hits = search_results(&st, q);
                st.limit = n + 5; let unl = search_results(&st, q); st.limit = limit;
                p.eval(&format!("lived|{}|{}|{}|{}", code, it, step, q), !hits.is_empty());
                let want: Vec<(usize, String)> = unl.iter().take(limit).cloned().collect();
                let mut o = ops.clone(); o.push(Op::Search(q.clone()));
                if which == "C12" {
                    // empty query: exactly the `limit` best-rated records, best first (ratings are pairwise distinct)
                    if !q.is_empty() { continue; }
                    let mut by_rating = recs.clone(); by_rating.sort_by(|a, b| b.2.cmp(&a.2));
                    let expect: Vec<usize> = by_rating.iter().take(limit).map(|e| e.0).collect();
                    if ids(&hits) != expect { p.fail(format!("after these operations the empty query at limit {} lists {:?}; the {} best-rated records are {:?}", limit, ids(&hits), limit, expect), Case { name: "c12-lived".into(), lang: code.to_string(), stream: "probe", ops: o }); return; }
                    continue;
                }
                if which == "C07" {
                    // the same records inserted in another order into a new store give the same list
                    let mut shuffled = recs.clone(); r.shuffle(&mut shuffled);
                    let other = search_results(&Scn { lang: code.to_string(), recs: shuffled.clone(), limit }.build(), q);
                    if hits != other { p.fail(format!("after these operations query {:?} lists {:?}; a store holding the same records inserted in the order {:?} lists {:?}", q, hits, shuffled.iter().map(|e| e.0).collect::<Vec<_>>(), other), Case { name: "c07-lived".into(), lang: code.to_string(), stream: "probe", ops: o }); return; }
                    continue;
                }
                if hits != want { p.fail(format!("after these operations limit {} gives {:?}, which is not the first {} of the unlimited list {:?} (query {:?})", limit, ids(&hits), limit, ids(&unl), q), Case { name: "c06-lived".into(), lang: code.to_string(), stream: "probe", ops: o }); return; }
                for rec in &recs {
                    let alone = search_results(&Scn { lang: code.to_string(), recs: vec![rec.clone()], limit: 1 }.build(), q);
                    if alone.len() == 1 && !unl.iter().any(|h| h.0 == rec.0) { p.fail(format!("record {} {:?} is a hit on its own for {:?} but is missing from the unlimited list {:?} of the lived-in store", rec.0, rec.1, q, ids(&unl)), Case { name: "c06-lived-complete".into(), lang: code.to_string(), stream: "probe", ops: o.clone() }); return; }
                }
                ops.push(Op::Search(q.clone())); ops.push(Op::Limit(n + 5)); ops.push(Op::Search(q.clone())); ops.push(Op::Limit(limit));
            }
        }
    }
}

/// 300 records that all share the query word, limit 30 (store size exactly 10·limit), inserted in ascending and in
/// descending order of rating: the same thirty best-rated hits either way, equal to the head of the unlimited list
fn big_store_orders(p: &mut ProbeReport, which: &str) {
    for code in ["none", "en"] {
        let recs: Vec<(usize, String, usize)> = (1..=300).map(|i| (i, format!("Lamp {:03}", i), i)).collect();
        let mut rev = recs.clone(); rev.reverse();
        let (up, down) = (Scn { lang: code.into(), recs: recs.clone(), limit: 30 }, Scn { lang: code.into(), recs: rev, limit: 30 });
        for q in ["lamp", "lamp 2", ""] {
            let (a, b) = (search_results(&up.build(), q), search_results(&down.build(), q));
            p.eval(&format!("big|{}|{}|{}", which, code, q), true);
            if a != b { p.fail(format!("300 records, limit 30, query {:?}: ascending insertion lists {:?}, descending insertion lists {:?}", q, ids(&a), ids(&b)), up.case("big-store-orders", vec![Op::Search(q.to_string())])); return; }
            if q != "lamp 2" {
                let want: Vec<usize> = (271..=300).rev().collect();
                if ids(&a) != want { p.fail(format!("300 records that all hold the query word, limit 30, query {:?}: listed {:?}, the thirty best-rated are {:?}", q, ids(&a), want), up.case("big-store-best", vec![Op::Search(q.to_string())])); return; }
            }
            if which == "C06" {
                let unl = search_results(&Scn { limit: 1000, ..up.clone() }.build(), q);
                if a != unl.iter().take(30).cloned().collect::<Vec<_>>() { p.fail(format!("300 records, limit 30, query {:?}: {:?} is not the head of the unlimited list", q, ids(&a)), up.case("big-store-head", vec![Op::Search(q.to_string())])); return; }
            }
        }
    }
}

/// every sequence up to `maxlen` over {add a lowest-rated record, add a highest-rated record, limit 2, limit 5,
/// search "", clear} applied to a three-record store, then the empty query once more: judged as `which` requires
fn lived_in_exhaustive(p: &mut ProbeReport, which: &str, maxlen: usize) {
    let titles = ["red mug", "blue mug", "green cup", "mug rack", "tea cup", "big mug", "cup", "mugs", "a mug"];
    let mut idx: Vec<usize> = vec![];
    let mut total = 0usize;
    loop {
        let mut k = idx.len();
        loop { if k == 0 { idx = vec![0; idx.len() + 1]; break; } k -= 1; if idx[k] + 1 < 6 { idx[k] += 1; for j in k + 1..idx.len() { idx[j] = 0; } break; } }
        if idx.len() > maxlen { break; }
        if !idx.iter().any(|a| *a <= 1) { continue; }
        total += 1;
        // ratings on both sides of 2^31 and 2^32 (a score narrowed to 32 bits would tie or reorder them)
        let big = if cfg!(target_pointer_width = "64") { 1usize << 31 } else { 1usize << 20 };
        let mut recs: Vec<(usize, String, usize)> = vec![(1, titles[0].into(), 4 * big + 5), (2, titles[1].into(), big + 400), (3, titles[2].into(), 300)];
        let mut limit = 5usize;
        let mut st = Scn { lang: "none".into(), recs: recs.clone(), limit }.build();
        let mut ops: Vec<Op> = vec![Op::New, Op::Limit(limit)];
        for (id, t, rt) in &recs { ops.push(Op::Add(*id, *rt, t.clone())); }
        let (mut lo, mut hi) = (200usize, 8 * big);
        let mut next_id = 3usize;
        for a in &idx {
            match a {
                0 | 1 => { let rt = if *a == 0 { lo -= 10; lo } else { hi += 10; hi }; next_id += 1; let id = next_id; let t = titles[id % titles.len()].to_string(); add_to(&mut st, id, &t, rt); recs.push((id, t.clone(), rt)); ops.push(Op::Add(id, rt, t)); }
                2 | 3 => { limit = if *a == 2 { 2 } else { 5 }; st.limit = limit; ops.push(Op::Limit(limit)); }
                5 => { st.clear(); recs.clear(); ops.push(Op::Clear); }
                _ => { let _ = search_results(&st, ""); ops.push(Op::Search(String::new())); }
            }
        }
        for q in ["", "mug"] {
            let hits = search_results(&st, q);
            p.eval(&format!("livedx|{:?}|{}", idx, q), true);
            let mut o = ops.clone(); o.push(Op::Search(q.to_string()));
            let case = Case { name: format!("{}-lived-exhaustive", which.to_lowercase()), lang: "none".into(), stream: "probe", ops: o };
            let what = match which {
                "C12" => {
                    if !q.is_empty() { None } else {
                        let mut by = recs.clone(); by.sort_by(|a, b| b.2.cmp(&a.2));
                        let expect: Vec<usize> = by.iter().take(limit).map(|e| e.0).collect();
                        if ids(&hits) != expect { Some(format!("the empty query at limit {} lists {:?}; the {} best-rated records are {:?}", limit, ids(&hits), limit, expect)) } else { None }
                    }
                }
                "C07" => {
                    let mut rev = recs.clone(); rev.reverse();
                    let other = search_results(&Scn { lang: "none".into(), recs: rev, limit }.build(), q);
                    if hits != other { Some(format!("query {:?} lists {:?}; a store holding the same records inserted in reverse order lists {:?}", q, ids(&hits), ids(&other))) } else { None }
                }
                _ => {
                    st.limit = 1000; let unl = search_results(&st, q); st.limit = limit;
                    let want: Vec<(usize, String)> = unl.iter().take(limit).cloned().collect();
                    if hits != want { Some(format!("limit {} gives {:?}, not the first {} of the unlimited list {:?} (query {:?})", limit, ids(&hits), limit, ids(&unl), q)) }
                    else { recs.iter().find(|rec| { let alone = search_results(&Scn { lang: "none".into(), recs: vec![(*rec).clone()], limit: 1 }.build(), q); alone.len() == 1 && !unl.iter().any(|h| h.0 == rec.0) }).map(|rec| format!("record {} {:?} is a hit on its own for {:?} but missing from the unlimited list {:?}", rec.0, rec.1, q, ids(&unl))) }
                }
            };
            if let Some(w) = what { p.fail(format!("after the operation sequence {}", w), case); if p.failures.len() >= 3 { return; } }
        }
    }
    p.notes.insert("lived_in_exhaustive_sequences".into(), total);
}

/// an id is searched, destroyed, re-created with ANOTHER language, refilled with the same titles and asked the same
/// query: each buffer is compared with a stand-alone store of that language (both directions)
fn recreated_with_other_language(p: &mut ProbeReport) {
    for (k, (l1, l2)) in [("en", "none"), ("none", "en"), ("de", "fr"), ("ru", "none")].iter().enumerate() {
        let id = 950_000 + k;
        let titles = ["Universe sandbox", "University guide", "universal remote", "Größe Straße", "running shoes"];
        let mut ops = vec![Op::RCreate(id, l1.to_string())];
        for (i, t) in titles.iter().enumerate() { ops.push(Op::RAdd(id, i + 1, 10 + i, t.to_string())); }
        for q in ["running", "grosse", "university"] { ops.push(Op::RSearch(id, q.to_string())); }
        ops.push(Op::RDestroy(id)); ops.push(Op::RCreate(id, l2.to_string()));
        for (i, t) in titles.iter().enumerate() { ops.push(Op::RAdd(id, i + 1, 10 + i, t.to_string())); }
        // the first query after re-creation is the last one the old store saw
        for q in ["university", "running", "grosse", "grosse"] { ops.push(Op::RSearch(id, q.to_string())); }
        let case = Case { name: "recreated-other-language".into(), lang: l1.to_string(), stream: "probe", ops };
        if !reg_case_against_shadows(p, &case, &format!("relang{}", k)) { return; }
    }
}

fn p06(p: &mut ProbeReport, r: &mut Rng, budget: usize) {
    recreated_with_other_language(p);
    compaction_stress(p, r, "C06", if budget > 5000 { 12 } else { 2 });
    big_store_orders(p, "C06");
    lived_in_exhaustive(p, "C06", if budget > 5000 { 7 } else { 6 });
    lived_in_store(p, r, if budget > 5000 { 8000 } else { 800 }, "C06");
    neighbour_locality(p, r, if budget > 5000 { 6000 } else { 700 });
    let budget = budget + p.evaluations;
    let mut i = 0;
    while p.evaluations < budget {
        let code = LANGS[i % LANGS.len()]; i += 1;
        let v = vocab(code);
        let scn0 = rand_scn(&v, r, if i % 4 == 0 { 40 } else { 9 }, true, false);
        let n = scn0.recs.len();
        let t0 = r.pick(&scn0.recs).1.clone();
        let q = if r.chance(1, 6) { String::new() } else { query_for(&v, r, &t0) };
        let unlimited = { let mut s = scn0.clone(); s.limit = n + 5; search_results(&s.build(), &q) };
        for limit in 0..=(n + 2).min(if n > 12 { 6 } else { n + 2 }) {
            let scn = Scn { limit, ..scn0.clone() };
            let st = scn.build();
            let hits = search_results(&st, &q);
            p.eval(&format!("{}|{}|{}|{}", code, n, limit, q), !hits.is_empty());
            let mk = |what: String| (what, scn.case("c06", vec![Op::Search(q.clone())]));
            if hits.len() > limit { let (w, c) = mk(format!("{} hits exceed limit {}", hits.len(), limit)); p.fail(w, c); }
            let idset: BTreeSet<usize> = ids(&hits).into_iter().collect();
            if idset.len() != hits.len() { let (w, c) = mk(format!("a record is returned twice: {:?}", ids(&hits))); p.fail(w, c); }
            for (id, title) in &hits {
                let rec = scn.recs.iter().find(|e| e.0 == *id).unwrap();
                let single = Scn { lang: code.into(), recs: vec![rec.clone()], limit: 1 };
                let alone = if limit % 2 == 0 { search_results(&single.build(), &q) } else { fresh_thread_search(code, &single.recs, 1, &("[".to_string(), "]".to_string()), &q) };
                if alone.len() != 1 || alone[0].1 != *title { let (w, c) = mk(format!("hit {} {:?} but alone it gives {:?}", id, title, alone)); p.fail(w, c); }
            }
            if n <= 10 * limit {
                let want: Vec<(usize, String)> = unlimited.iter().take(limit).cloned().collect();
                if hits != want { let (w, c) = mk(format!("limit {}: {:?} is not the first {} of the unlimited list {:?}", limit, ids(&hits), limit, ids(&unlimited))); p.fail(w, c); }
            }
        }
        // completeness of the unlimited list
        for rec in &scn0.recs {
            let single = Scn { lang: code.into(), recs: vec![rec.clone()], limit: 1 };
            let alone = search_results(&single.build(), &q);
            if alone.len() == 1 && !unlimited.iter().any(|h| h.0 == rec.0) {
                p.fail(format!("record {} {:?} is a hit on its own for {:?} but missing from the unlimited list", rec.0, rec.1, q), Scn { limit: n + 5, ..scn0.clone() }.case("c06-complete", vec![Op::Search(q.clone())]));
            }
        }
    }
}

// ---------------- C07: consistent order, independent of other records and insert order ----------------
fn p07(p: &mut ProbeReport, r: &mut Rng, budget: usize) {
    compaction_stress(p, r, "C07", if budget > 5000 { 12 } else { 2 });
    // a very long title word between two short ones makes the per-thread matrix grow in the middle of one search:
    // every insertion order, each on a fresh thread, gives the same list (query words with cheap characters)
    for (code, q, words) in [("en", "ocar", ["car", "carboxymethylcelluloses", "cart"]), ("en", "1ab", ["ab", "abcdefghijklmnopqrstuvwxyz", "abc"]), ("de", "eta", ["ta", "tausendfüßlerschuhgeschäftsinhaber", "tal"])] {
        let base: Vec<(usize, String, usize)> = words.iter().enumerate().map(|(i, w)| (i + 1, w.to_string(), [5usize, 9, 7][i])).collect();
        let markers = ("[".to_string(), "]".to_string());
        let reference = fresh_thread_search(code, &base, 10, &markers, q);
        for perm in [[0usize, 1, 2], [1, 0, 2], [1, 2, 0], [2, 1, 0], [0, 2, 1], [2, 0, 1]] {
            let recs: Vec<(usize, String, usize)> = perm.iter().map(|i| base[*i].clone()).collect();
            let got = fresh_thread_search(code, &recs, 10, &markers, q);
            p.eval(&format!("{}|growth-mid-list|{}|{:?}", code, q, perm), true);
            if got != reference { p.fail(format!("query {:?}: records inserted in the order {:?} give {:?}, in the order [1, 2, 3] {:?} (each store on a fresh thread)", q, recs.iter().map(|e| e.0).collect::<Vec<_>>(), got, reference), Scn { lang: code.to_string(), recs: recs.clone(), limit: 10 }.case("c07-growth-mid-list", vec![Op::Search(q.to_string())])); break; }
        }
        for pair in [[0usize, 1], [1, 0], [1, 2], [2, 1]] {
            let recs: Vec<(usize, String, usize)> = pair.iter().map(|i| base[*i].clone()).collect();
            let got = fresh_thread_search(code, &recs, 10, &markers, q);
            let want: Vec<(usize, String)> = reference.iter().filter(|h| recs.iter().any(|e| e.0 == h.0)).cloned().collect();
            if got != want { p.fail(format!("query {:?}: the two-record store {:?} gives {:?}, the three-record store orders them {:?}", q, recs.iter().map(|e| e.0).collect::<Vec<_>>(), got, want), Scn { lang: code.to_string(), recs: recs.clone(), limit: 10 }.case("c07-growth-mid-list-pair", vec![Op::Search(q.to_string())])); break; }
        }
    }
    big_store_orders(p, "C07");
    neighbour_locality(p, r, if budget > 5000 { 6000 } else { 700 });
    lived_in_exhaustive(p, "C07", if budget > 5000 { 7 } else { 6 });
    lived_in_store(p, r, if budget > 5000 { 6000 } else { 600 }, "C07");
    let budget = budget + p.evaluations;
    let mut i = 0;
    while p.evaluations < budget {
        let code = LANGS[i % LANGS.len()]; i += 1;
        let v = vocab(code);
        let mut scn = rand_scn(&v, r, 8, true, true);
        // ratings near the top of usize are still pairwise distinct ratings (C07 does not bound them)
        if i % 5 == 0 {
            let huge = [usize::MAX, usize::MAX - 1, (isize::MAX as usize) + 1, (isize::MAX as usize) + 2, isize::MAX as usize, usize::MAX - 7];
            for (k, e) in scn.recs.iter_mut().enumerate() { if k < huge.len() && r.chance(2, 3) { e.2 = huge[k]; } }
        }
        let t0 = r.pick(&scn.recs).1.clone();
        // make several records relevant to the same query
        let same_extra = v.word(r);
        for k in 0..scn.recs.len() { if r.chance(1, 2) { let extra = if r.chance(1, 3) { same_extra.clone() } else { v.word(r) }; scn.recs[k].1 = format!("{} {}", t0, extra); } }
        let q = if r.chance(1, 8) { String::new() } else { query_for(&v, r, &t0) };
        let hits = search_results(&scn.build(), &q);
        p.eval(&format!("{}|{}|{}", code, scn.recs.len(), q), hits.len() >= 2);
        let mut perm = scn.clone();
        r.shuffle(&mut perm.recs);
        let hits2 = search_results(&perm.build(), &q);
        if hits != hits2 { p.fail(format!("insertion order changes the result: {:?} vs {:?}", ids(&hits), ids(&hits2)), perm.case("c07-perm", vec![Op::Search(q.clone())])); }
        for a in 0..hits.len() { for b in a + 1..hits.len() {
            let ra = scn.recs.iter().find(|e| e.0 == hits[a].0).unwrap().clone();
            let rb = scn.recs.iter().find(|e| e.0 == hits[b].0).unwrap().clone();
            for order in &[vec![ra.clone(), rb.clone()], vec![rb.clone(), ra.clone()]] {
                let two = Scn { lang: code.into(), recs: order.clone(), limit: 2 };
                let h = ids(&search_results(&two.build(), &q));
                if h != vec![ra.0, rb.0] { p.fail(format!("records {} and {} are ranked {:?} in the full store but {:?} as a pair", ra.0, rb.0, (ra.0, rb.0), h), two.case("c07-pair", vec![Op::Search(q.clone())])); }
            }
        } }
    }
}

// ---------------- C08: documented ranking priorities ----------------
fn synth_word(r: &mut Rng, alpha: &[char], lo: usize, hi: usize) -> String {
    loop {
        let n = r.range(lo, hi);
        let w: String = (0..n).map(|_| *r.pick(alpha)).collect();
        let d: BTreeSet<char> = w.chars().collect();
        if d.len() >= 3 { return w; }
    }
}

fn p08(p: &mut ProbeReport, r: &mut Rng, budget: usize) {
    let mut i = 0;
    while p.evaluations < budget {
        let code = LANGS[i % LANGS.len()]; i += 1;
        let v = vocab(code);
        let lang = make_lang(code);
        let l = &v.letters;
        let (a1, a2, a3) = if code == "ru" { (&l[0..8], &l[8..16], &l[16..24]) } else { (&l[0..8], &l[8..16], &l[16..24]) };
        let u = synth_word(r, a1, 5, 9); let vv = synth_word(r, a2, 5, 9); let x = synth_word(r, a3, 3, 7);
        let nonfunc = |w: &str| { let t = tokenize_record(w, &lang); t.words.len() == 1 && !t.words[0].is_function() && wchars(&t, 0) == w.chars().collect::<Vec<_>>() };
        if !(nonfunc(&u) && nonfunc(&vv) && nonfunc(&x)) { continue; }
        let typo = { let mut cs: Vec<char> = u.chars().collect(); let pos = r.range(1, cs.len() - 1); let c = *r.pick(a1); if cs[pos] == c { continue; } cs[pos] = c; cs.into_iter().collect::<String>() };
        let k = r.range(1, u.chars().count());
        let prefix: String = u.chars().take(k).collect();
        let tail: String = format!("{}{}", u, synth_word(r, a1, 3, 3).chars().take(r.range(1, 3)).collect::<String>());
        // (name, better title, worse title, query, equal_rating_required)
        let mut rules: Vec<(&str, String, String, String, bool)> = vec![
            ("exact-beats-typo", u.clone(), typo.clone(), u.clone(), false),
            ("both-words-beat-one", format!("{} {}", u, vv), format!("{} {}", u, x), format!("{} {}", u, vv), false),
            ("word-beats-longer-word", u.clone(), tail.clone(), u.clone(), false),
            ("prefix-word-beats-longer-word", u.clone(), tail.clone(), prefix.clone(), false),
            ("adjacent-beats-gap", format!("{} {} {}", u, vv, x), format!("{} {} {}", u, x, vv), format!("{} {}", u, vv), false),
            ("early-beats-late", format!("{} {}", u, x), format!("{} {}", x, u), u.clone(), false),
            ("shorter-title-at-equal-rating", u.clone(), format!("{} {}", u, x), u.clone(), true),
        ];
        if !v.func.is_empty() {
            // walk through the whole function-word table of the language (spellings with accents first)
            let mut fw: Vec<String> = v.func.iter().filter(|w| !w.is_ascii()).cloned().collect();
            fw.extend(v.func.iter().filter(|w| w.is_ascii()).cloned());
            let f = fw[(i / LANGS.len()) % fw.len()].clone();
            // the suffix is random letters, or (every other round) an ending the language's stemmer strips, so that the
            // content word's stem is the function word itself (`over` / `overly`, `mit` / `miten`)
            let endings: &[&str] = match code { "en" => &["ly", "s", "ed", "ing", "es"], "de" => &["en", "e", "es", "er"], "es" => &["o", "os", "a", "as"], "fr" => &["e", "es", "s"], "pt" => &["a", "o", "ida", "os"], "ru" => &["ы", "и", "а", "ов"], _ => &["s"] };
            let content = if (i / LANGS.len()) % 2 == 1 { format!("{}{}", f, r.pick_str(endings)) } else { format!("{}{}", f, synth_word(r, a3, 3, 5)) };
            let tf = tokenize_record(&f, &lang);
            let tc = tokenize_record(&content, &lang);
            // f is a function word because the language's table lists it (not because the tokenizer under test says so)
            if tf.words.len() == 1 && tc.words.len() == 1 && !v.func.contains(&content) {
                rules.push(("content-word-beats-function-word", content, f.clone(), f, false));
            }
        }
        for (name, better, worse, q, equal) in rules {
            let rb = r.below(1 << 31); let rw = if equal { rb } else { r.below(1 << 31) };
            for order in 0..2 {
                let recs = if order == 0 { vec![(1, better.clone(), rb), (2, worse.clone(), rw)] } else { vec![(2, worse.clone(), rw), (1, better.clone(), rb)] };
                let scn = Scn { lang: code.into(), recs, limit: 10 };
                let h = ids(&search_results(&scn.build(), &q));
                p.eval(&format!("{}|{}|{}|{}|{}", code, name, better, worse, q), true);
                let pos1 = h.iter().position(|x| *x == 1); let pos2 = h.iter().position(|x| *x == 2);
                let ok = match (pos1, pos2) { (Some(a), Some(b)) => a < b, (Some(_), None) => true, _ => false };
                if !ok { p.fail(format!("rule {}: title {:?} (rating {}) should outrank {:?} (rating {}) for query {:?}; got {:?}", name, better, rb, worse, rw, q, h), scn.case("c08", vec![Op::Search(q.clone())])); }
            }
        }
        // identical titles: higher rating first
        // mostly random, sometimes the two largest / two smallest ratings of the property's range
        let (r1, r2) = match i % 7 { 0 => ((1usize << 31) - 1, (1usize << 31) - 2), 1 => (0, 1), 2 => ((1usize << 31) - 1, r.below(1 << 31)), _ => (r.below(1 << 31), r.below(1 << 31)) };
        if r1 != r2 {
            let scn = Scn { lang: code.into(), recs: vec![(1, u.clone(), r1), (2, u.clone(), r2)], limit: 10 };
            let h = ids(&search_results(&scn.build(), &u));
            p.eval(&format!("{}|rating|{}", code, u), true);
            let want = if r1 > r2 { vec![1, 2] } else { vec![2, 1] };
            if h != want { p.fail(format!("identical titles {:?}: ratings {} / {} but order {:?}", u, r1, r2, h), scn.case("c08-rating", vec![Op::Search(u.clone())])); }
        }
    }
}

// ---------------- C09: highlight markup balanced, word-aligned ----------------
fn p09(p: &mut ProbeReport, r: &mut Rng, budget: usize) {
    for code in LANGS.iter() { small_scope_titles(p, code, "C09", if budget > 20000 { 3 } else { 2 }); }
    let budget = budget + p.evaluations;
    let mut i = 0;
    while p.evaluations < budget {
        let code = LANGS[i % LANGS.len()]; i += 1;
        let v = vocab(code);
        let lang = make_lang(code);
        let mut scn = rand_scn(&v, r, 6, false, false);
        if i % 2 == 0 {
            // joined spellings with all gap widths
            let a = v.word(r); let b = v.word(r);
            let gap = *r.pick(&["-", " ", "  ", " - ", "'", "--", "\u{1f}", "\u{7f}", "\u{96}", "\u{2013}", "\u{2026}"]);
            scn.recs.push((99, format!("{}{}{}", a, gap, b), 3));
        }
        // every seventh store ends with a title of 34–45 words, asked for one of its words (often a late one)
        let mut late: Option<String> = None;
        if i % 7 == 0 {
            let ws: Vec<String> = (0..r.range(34, 45)).map(|k| format!("{}{}", (0..r.range(3, 6)).map(|_| *r.pick(&v.letters)).collect::<String>(), k)).collect();
            late = Some(ws[*r.pick(&[0usize, 5, 30, 31, 32, 33, ws.len() - 1])].clone());
            scn.recs.push((98, ws.join(" "), 2));
        }
        if scn.recs.iter().any(|e| has_sentinel(&e.1)) { continue; }
        let mut st = scn.build();
        let t0 = scn.recs.last().unwrap().1.clone();
        let q = match (late, r.below(6)) { (Some(w), _) => w, (None, 0) => String::new(), (None, 1) => " - ".to_string(), _ => query_for(&v, r, &t0) };
        let qwords = tokenize_query(&q, &lang).words.len();
        // every fifth store is configured, emptied and refilled before it is asked: the markers are a setting of the
        // store, not of its contents
        let refilled = i % 5 == 0;
        let hits = if refilled {
            st.highlight_with((&ML.to_string(), &MR.to_string()));
            st.clear();
            for (id, t, rt) in &scn.recs { add_to(&mut st, *id, t, *rt); }
            search_results(&st, &q)
        } else { search_marked(&mut st, &q) };
        for (id, title) in &hits {
            p.eval(&format!("{}|{}|{}", code, q, title), title.contains(ML));
            let mk = |what: String| (what, if refilled { let mut ops = vec![Op::Markers(ML.to_string(), MR.to_string()), Op::Clear]; for (id, t, rt) in &scn.recs { ops.push(Op::Add(*id, *rt, t.clone())); } ops.push(Op::Search(q.clone())); scn.case("c09-refilled", ops) } else { scn.case("c09", vec![Op::Markers(ML.to_string(), MR.to_string()), Op::Search(q.clone())]) });
            let (plain, spans) = match parse_marked(title) { Some(x) => x, None => { let (w, c) = mk(format!("markers unbalanced or nested in {:?}", title)); p.fail(w, c); continue; } };
            if qwords == 0 && !spans.is_empty() { let (w, c) = mk(format!("empty query but highlighted: {:?}", title)); p.fail(w, c); }
            if qwords > 0 && spans.is_empty() { let (w, c) = mk(format!("hit without any highlighted span: {:?} for {:?}", title, q)); p.fail(w, c); }
            let rec = scn.recs.iter().filter(|e| e.0 == *id).find(|e| stripped_index(&tokenize_record(&e.1, &lang)).0 == plain);
            let rec = match rec { Some(x) => x, None => continue };
            let t = tokenize_record(&rec.1, &lang);
            let (_, idx) = stripped_index(&t);
            let mut used = BTreeSet::new();
            for (s, l) in &spans {
                if *l == 0 { let (w, c) = mk(format!("empty span in {:?}", title)); p.fail(w, c); continue; }
                // independent of how the record was tokenised: a span lies inside one word, and a word (as the public
                // tokenizer cuts the same text) contains no white space, control or punctuation character; it starts
                // with a letter or digit and right after a separator or at the start of the title
                if let Some(bad) = plain[*s..(*s + *l).min(plain.len())].iter().find(|c| c.is_whitespace() || c.is_control() || CharClass::Punctuation.matches(**c, &lang) == Some(true)) {
                    let (w, c) = mk(format!("highlighted span at {} len {} contains the separator {:?} in {:?}", s, l, bad, title)); p.fail(w, c);
                }
                let pubwords = tokenize_query(&format!("{} ", plain.iter().collect::<String>()), &lang);
                if pubwords.source.len() == plain.len() && !pubwords.words.iter().any(|w| w.slice.0 == *s && s + l <= w.slice.1) {
                    let (w, c) = mk(format!("span at {} len {} is not inside one word starting there, as the public tokenizer cuts {:?}", s, l, plain.iter().collect::<String>())); p.fail(w, c);
                }
                let wi = t.words.iter().position(|w| idx[w.slice.0] == *s);
                match wi {
                    None => { let (w, c) = mk(format!("span at {} does not start at a word start in {:?}", s, title)); p.fail(w, c); }
                    Some(wi) => {
                        if !used.insert(wi) { let (w, c) = mk(format!("word {} highlighted twice in {:?}", wi, title)); p.fail(w, c); }
                        if s + l > idx[t.words[wi].slice.1] { let (w, c) = mk(format!("span at {} len {} runs past the end of its word in {:?}", s, l, title)); p.fail(w, c); }
                    }
                }
            }
        }
        if hits.is_empty() { p.eval(&format!("{}|{}|nohit", code, q), false); }
    }
}

// ---------------- C10: no stale state ----------------
fn p10(p: &mut ProbeReport, r: &mut Rng, budget: usize) {
    // regression corpus: the two fixed defects
    {
        let mut st = new_store("none", 10);
        let _ = search_results(&st, "");
        add_to(&mut st, 1, "a", 1);
        p.eval("corpus|D2", true);
        if search_results(&st, "").len() != 1 { p.fail("empty-query search after add does not show the new record (stale top-rated cache)".into(), Case { name: "c10-d2".into(), lang: "none".into(), stream: "probe", ops: vec![Op::New, Op::Search("".into()), Op::Add(1, 1, "a".into()), Op::Search("".into())] }); }
        let ops = vec![Op::New, Op::Add(1, 1, "aa".into()), Op::Add(2, 1, "bb".into()), Op::Clear, Op::Add(3, 1, "cc".into()), Op::Search("b".into())];
        let res = guarded(|| { let mut st = new_store("none", 10); add_to(&mut st, 1, "aa", 1); add_to(&mut st, 2, "bb", 1); st.clear(); add_to(&mut st, 3, "cc", 1); search_results(&st, "b") });
        p.eval("corpus|D3", true);
        match res { Ok(h) if h.is_empty() => {}, other => p.fail(format!("after clear(), search 'b' should find nothing: {:?}", other), Case { name: "c10-d3".into(), lang: "none".into(), stream: "probe", ops }) }
    }
    // small-scope exhaustive: every operation sequence up to a fixed length over a small alphabet,
    // each search compared with a freshly built store
    {
        let alphabet: Vec<Op> = vec![
            Op::Add(0, 1, "a d".into()),      // rating patched below: higher than everything so far
            Op::Add(0, 0, "ad".into()),       // rating patched below: lower than everything so far
            Op::Clear, Op::Limit(1), Op::Limit(3), Op::Limit(10), Op::Search("".into()), Op::Search("a".into()),
            Op::Markers("[".into(), "}".into()), Op::Markers("{".into(), "}".into()),
        ];
        let maxlen = if budget > 20000 { 6 } else { 5 };
        let mut idx = vec![0usize; 0];
        let mut total = 0usize;
        loop {
            // next sequence in length-lexicographic order
            let mut k = idx.len();
            loop { if k == 0 { idx = vec![0; idx.len() + 1]; break; } k -= 1; if idx[k] + 1 < alphabet.len() { idx[k] += 1; for j in k + 1..idx.len() { idx[j] = 0; } break; } }
            if idx.len() > maxlen { break; }
            if !idx.iter().any(|a| *a == 6 || *a == 7) { continue; }
            total += 1;
            let mut st = new_store("none", core::DEFAULT_LIMIT);
            let mut recs: Vec<(usize, String, usize)> = vec![(1, "ab".into(), 500), (2, "a c".into(), 400)];
            for (id, t, rt) in &recs { add_to(&mut st, *id, t, *rt); }
            let mut ops: Vec<Op> = vec![Op::New, Op::Add(1, 500, "ab".into()), Op::Add(2, 400, "a c".into())];
            let mut limit = core::DEFAULT_LIMIT;
            let (mut hi, mut lo, mut next) = (600usize, 300usize, 3usize);
            let mut xmarkers = ("[".to_string(), "]".to_string());
            for a in &idx {
                let op = match &alphabet[*a] {
                    Op::Add(_, 1, t) => { hi += 10; next += 1; Op::Add(next, hi, t.clone()) }
                    Op::Add(_, _, t) => { lo -= 10; next += 1; Op::Add(next, lo, t.clone()) }
                    o => o.clone(),
                };
                ops.push(op.clone());
                match &op {
                    Op::Add(id, rating, t) => { add_to(&mut st, *id, t, *rating); recs.push((*id, t.clone(), *rating)); }
                    Op::Clear => { st.clear(); recs.clear(); }
                    Op::Limit(n) => { st.limit = *n; limit = *n; }
                    Op::Markers(l, rr) => { st.highlight_with((l, rr)); xmarkers = (l.clone(), rr.clone()); }
                    Op::Search(q) => {
                        let got = search_results(&st, q);
                        // reference: a freshly built store — in a fresh thread for one sequence in eight (thread spawns are
                        // what dominates the cost of this enumeration), on this thread otherwise
                        let want = if total % 8 == 0 { fresh_thread_search("none", &recs, limit, &xmarkers, q) } else {
                            let mut fresh = Scn { lang: "none".into(), recs: recs.clone(), limit }.build();
                            fresh.highlight_with((&xmarkers.0, &xmarkers.1));
                            search_results(&fresh, q) };
                        p.eval(&format!("x|{:?}|{}", idx, q), !recs.is_empty());
                        if got != want { p.fail(format!("after the operation sequence search {:?} returns {:?} but a freshly built store returns {:?}", q, got, want), Case { name: "c10-exhaustive".into(), lang: "none".into(), stream: "probe", ops: ops.clone() }); }
                    }
                    _ => {}
                }
            }
            if p.failures.len() >= 4 { break; }
        }
        p.notes.insert("exhaustive_sequences".into(), total);
        p.notes.insert("exhaustive_max_len".into(), maxlen);
    }
    // many more candidates than the cap keeps, most of them tied on shared grams: asked under one limit, then under
    // another (smaller, or less than twice as large): the answer must be the one a fresh store gives under that limit
    for (l1, l2) in [(2usize, 3usize), (4, 5), (3, 2), (1, 3)] {
        let recs: Vec<(usize, String, usize)> = (0..120).map(|i| (100 + i, if i % 2 == 0 { format!("metal {}", (b'a' + (i % 26) as u8) as char) } else { format!("mini {}{}", (b'a' + (i % 26) as u8) as char, i) }, 1000 + (i * 37) % 500 + i)).collect();
        let mut st = Scn { lang: "none".into(), recs: recs.clone(), limit: l1 }.build();
        let markers = ("[".to_string(), "]".to_string());
        let mut ops = vec![Op::Limit(l1), Op::Search("me".into()), Op::Search("mi".into()), Op::Limit(l2)];
        let _ = search_results(&st, "me"); let _ = search_results(&st, "mi");
        st.limit = l2;
        for q in ["me", "m", "mini", "metal "] {
            ops.push(Op::Search(q.to_string()));
            let (got, want) = (search_results(&st, q), fresh_thread_search("none", &recs, l2, &markers, q));
            p.eval(&format!("cap-history|{}|{}|{}", l1, l2, q), true);
            if got != want { p.fail(format!("120 records, searched under limit {}, then under limit {}: query {:?} returns {:?} but a freshly built store returns {:?}", l1, l2, q, ids(&got), ids(&want)), Scn { lang: "none".into(), recs: recs.clone(), limit: l1 }.case("c10-cap-history", ops.clone())); break; }
        }
    }
    // hits that tie on every score component (same rating, same shape of title): their order in a lived-in store must
    // be the order a fresh store gives, whatever was asked before
    for code in ["none", "en"] {
        let recs: Vec<(usize, String, usize)> = vec![(1, "red mailbox".into(), 5), (2, "red toolbox".into(), 5), (3, "red icebox".into(), 5), (4, "tan toolbox".into(), 5)];
        let st = Scn { lang: code.into(), recs: recs.clone(), limit: 10 }.build();
        let mut ops: Vec<Op> = vec![];
        for q in ["toolbox", "red", "icebox", "red", "mailbox", "red", "tan", "toolbox", "box", "red"] {
            ops.push(Op::Search(q.to_string()));
            let got = search_results(&st, q);
            let want = fresh_thread_search(code, &recs, 10, &("[".to_string(), "]".to_string()), q);
            p.eval(&format!("tied|{}|{}|{}", code, ops.len(), q), true);
            if got != want { p.fail(format!("records that tie on every score: after the earlier queries search {:?} returns {:?} but a freshly built store returns {:?}", q, ids(&got), ids(&want)), Scn { lang: code.into(), recs: recs.clone(), limit: 10 }.case("c10-tied", ops.clone())); break; }
        }
    }
    // the same statement through the top-level API: every sequence up to a fixed length over {add, limit 1, limit 25,
    // markers, search "pank", search "", clear} on one id, each result buffer compared with a stand-alone store on a fresh thread
    {
        let id = 905_001usize;
        let alphabet: Vec<Op> = vec![
            Op::RAdd(id, 0, 0, "pink".into()), Op::RAdd(id, 0, 1, "metal punk".into()), Op::RLimit(id, 1), Op::RLimit(id, 25),
            Op::RMarkers(id, "{".into(), "}".into()), Op::RSearch(id, "pank".into()), Op::RSearch(id, "".into()), Op::RClear(id),
        ];
        let maxlen = if budget > 20000 { 6 } else { 5 };
        let mut idx: Vec<usize> = vec![];
        let mut total = 0usize;
        'outer: loop {
            let mut k = idx.len();
            loop { if k == 0 { idx = vec![0; idx.len() + 1]; break; } k -= 1; if idx[k] + 1 < alphabet.len() { idx[k] += 1; for j in k + 1..idx.len() { idx[j] = 0; } break; } }
            if idx.len() > maxlen { break; }
            // sequences that end in a search and contain an earlier search (a later state can only be stale w.r.t. an earlier answer)
            if !matches!(alphabet[*idx.last().unwrap()], Op::RSearch(..)) || idx.iter().filter(|a| **a >= 5).count() < 2 { continue; }
            total += 1;
            let mut ops = vec![Op::RCreate(id, "en".into()), Op::RAdd(id, 1, 50, "punk pink".into())];
            let (mut rid, mut hi, mut lo) = (1usize, 60usize, 40usize);
            for a in &idx { ops.push(match &alphabet[*a] { Op::RAdd(i, _, 0, t) => { rid += 1; hi += 1; Op::RAdd(*i, rid, hi, t.clone()) } Op::RAdd(i, _, _, t) => { rid += 1; lo -= 1; Op::RAdd(*i, rid, lo, t.clone()) } o => o.clone() }); }
            let case = Case { name: "c10-api-exhaustive".into(), lang: "en".into(), stream: "probe", ops };
            if !reg_case_against_shadows(p, &case, "c10api") && p.failures.len() >= 4 { break 'outer; }
        }
        p.notes.insert("api_exhaustive_sequences".into(), total);
    }
    // corpus (seeded change C10-f): ordinary English words that are close in letters but not in spelling, asked before
    // and after a prefix query that meets a 22-letter word for the first time on this thread
    {
        let recs: Vec<(usize, String, usize)> = vec![(10, "Leather passport holder".into(), 50), (20, "Lumbar support cushion".into(), 40), (30, "Canvas shoulder bag".into(), 30),
            (40, "Wooden toy soldier".into(), 20), (50, "Treasure chest money box".into(), 10), (60, "Retro tape measure".into(), 60), (70, "Electroencephalography pocket guide".into(), 70)];
        let queries = ["passport ", "shoulder ", "treasure ", "support ", "soldier", "measure", ""];
        let recs2 = recs.clone();
        let outcome = std::thread::spawn(move || {
            let markers = ("[".to_string(), "]".to_string());
            let st = Scn { lang: "en".into(), recs: recs2.clone(), limit: 10 }.build();
            let mut ops: Vec<Op> = vec![];
            for round in 0..2 {
                for q in queries.iter() {
                    ops.push(Op::Search(q.to_string()));
                    let (got, want) = (search_results(&st, q), fresh_thread_search("en", &recs2, 10, &markers, q));
                    if got != want { return Some((format!("search {:?} returns {:?} but a fresh store on a fresh thread returns {:?} ({} a prefix query met the 22-letter word)", q, got, want, if round == 0 { "before" } else { "after" }), ops)); }
                }
                let _ = search_results(&st, "electroenc"); ops.push(Op::Search("electroenc".into()));
            }
            None
        }).join();
        p.eval("growth-corpus|en", true);
        match outcome {
            Ok(None) => {}
            Ok(Some((what, ops))) => p.fail(what, Scn { lang: "en".into(), recs: recs.clone(), limit: 10 }.case("c10-growth-corpus", ops)),
            Err(_) => p.fail("the growth corpus sequence panicked".into(), Scn { lang: "en".into(), recs: recs.clone(), limit: 10 }.case("c10-growth-corpus", vec![])),
        }
    }
    // scratch state that grows: on a thread whose per-thread buffers are still at their initial capacity, ordinary
    // queries are answered, then a record with a very long word is added and asked for (the buffers grow), then the
    // ordinary queries are repeated; every answer is compared with a fresh store on a fresh thread. Three growth steps.
    for (li, code) in LANGS.iter().enumerate() {
        let v = vocab(code);
        let mut recs: Vec<(usize, String, usize)> = (0..8).map(|i| (i + 1, v.title(r), 1000 - 10 * i)).collect();
        // a word and three look-alikes in which two or three letters are replaced by letters the word does not contain:
        // far beyond the typo budget, so asking for the word must keep returning the word alone
        let base: Vec<char> = { let mut b: Vec<char> = vec![]; while b.len() < 7 { let c = v.letters[(b.len() * 3 + li) % v.letters.len().min(20)]; if !b.contains(&c) { b.push(c); } else { b.push(v.letters[(b.len() * 5 + 11 + li) % v.letters.len().min(20)]); } } b };
        let absent: Vec<char> = v.letters.iter().cloned().filter(|c| !base.contains(c)).collect();
        recs.push((20, base.iter().collect(), 500));
        for k in 0..3usize { let mut w = base.clone(); for j in 0..(2 + k % 2) { let pos = (1 + 2 * j + k) % w.len(); w[pos] = absent[(k * 3 + j) % absent.len()]; } recs.push((21 + k, w.iter().collect(), 490 - k)); }
        // … and three rearrangements of the same letters (reversed, rotated by two, rotated by three)
        { let mut w = base.clone(); w.reverse(); recs.push((24, w.iter().collect(), 480)); }
        for (k, rot) in [2usize, 3].iter().enumerate() { let mut w = base.clone(); w.rotate_left(*rot); recs.push((25 + k, w.iter().collect(), 470 - k)); }
        let mut queries: Vec<String> = (0..10).map(|_| { let t = r.pick(&recs).1.clone(); query_for(&v, r, &t) }).collect();
        queries.push(format!("{} ", base.iter().collect::<String>()));
        queries.push(base.iter().collect::<String>());
        let longs: Vec<String> = [22usize, 36, 58].iter().map(|n| (0..*n).map(|k| if k % 7 == 3 { *r.pick(&v.letters) } else { v.letters[(k * 5 + li) % v.letters.len()] }).collect()).collect();
        let code_s = code.to_string();
        let (recs0, queries0, longs0) = (recs.clone(), queries.clone(), longs.clone());
        let outcome = std::thread::spawn(move || {
            let markers = ("[".to_string(), "]".to_string());
            let mut recs = recs0;
            let mut st = Scn { lang: code_s.clone(), recs: recs.clone(), limit: 10 }.build();
            let mut ops: Vec<Op> = vec![Op::New, Op::Limit(10)];
            for (id, t, rt) in &recs { ops.push(Op::Add(*id, *rt, t.clone())); }
            let mut evals = 0usize;
            for step in 0..=longs0.len() {
                for q in &queries0 {
                    ops.push(Op::Search(q.clone()));
                    let got = search_results(&st, q);
                    let want = fresh_thread_search(&code_s, &recs, 10, &markers, q);
                    evals += 1;
                    if got != want { return (evals, Some((format!("after {} growth step(s) of the per-thread scratch buffers search {:?} returns {:?} but a fresh store on a fresh thread returns {:?}", step, q, got, want), ops))); }
                }
                if step < longs0.len() {
                    let w = &longs0[step];
                    let id = 100 + step;
                    add_to(&mut st, id, &format!("{} x", w), 5); recs.push((id, format!("{} x", w), 5)); ops.push(Op::Add(id, 5, format!("{} x", w)));
                    for cut in [w.chars().count() - 1, w.chars().count() / 2, w.chars().count()] {
                        let q: String = w.chars().take(cut).collect();
                        ops.push(Op::Search(q.clone()));
                        let got = search_results(&st, &q);
                        let want = fresh_thread_search(&code_s, &recs, 10, &markers, &q);
                        evals += 1;
                        if got != want { return (evals, Some((format!("search {:?} for the long word returns {:?} but a fresh store on a fresh thread returns {:?}", q, got, want), ops))); }
                    }
                }
            }
            (evals, None)
        }).join();
        let _ = (&mut recs, &queries, &longs);
        match outcome {
            Ok((n, None)) => { for k in 0..n { p.eval(&format!("growth|{}|{}", code, k), true); } }
            Ok((_, Some((what, ops)))) => { p.eval(&format!("growth|{}", code), true); p.fail(what, Case { name: "c10-growth".into(), lang: code.to_string(), stream: "probe", ops }); }
            Err(_) => { p.eval(&format!("growth|{}", code), true); p.fail("the scratch-growth sequence panicked".into(), Case { name: "c10-growth".into(), lang: code.to_string(), stream: "probe", ops: vec![] }); }
        }
    }
    let budget = budget + p.evaluations;
    let mut i = 0;
    while p.evaluations < budget {
        let code = LANGS[i % LANGS.len()]; i += 1;
        let v = vocab(code);
        let case = store_case(code, &v, r, "c10".into(), &StoreGenOpts { max_records: 6, ops: 16, ties: i % 2 == 0, small_alphabet: i % 3 == 0, cache_stress: i % 4 < 2 });
        let mut st = new_store(code, core::DEFAULT_LIMIT);
        let mut recs: Vec<(usize, String, usize)> = vec![];
        let mut limit = core::DEFAULT_LIMIT;
        let mut markers = ("[".to_string(), "]".to_string());
        for (k, op) in case.ops.iter().enumerate() {
            match op {
                Op::New => { st = new_store(code, core::DEFAULT_LIMIT); recs.clear(); limit = core::DEFAULT_LIMIT; markers = ("[".into(), "]".into()); }
                Op::Add(id, rating, t) => { add_to(&mut st, *id, t, *rating); recs.push((*id, t.clone(), *rating)); }
                Op::Clear => { st.clear(); recs.clear(); }
                Op::Limit(n) => { st.limit = *n; limit = *n; }
                Op::Markers(l, rr) => { st.highlight_with((l, rr)); markers = (l.clone(), rr.clone()); }
                Op::Search(q) => {
                    // another store of a different language, holding the same records, is searched with the same query
                    // first: thread-local scratch state must not carry over
                    if k % 3 == 0 {
                        let other = if code == "none" { "en" } else { "none" };
                        let _ = search_results(&Scn { lang: other.into(), recs: recs.clone(), limit: 10 }.build(), q);
                    }
                    let got = search_results(&st, q);
                    let again = search_results(&st, q);
                    let want = fresh_thread_search(code, &recs, limit, &markers, q);
                    p.eval(&format!("{}|{}|{}", code, k, q), !recs.is_empty());
                    let prefix = Case { name: "c10".into(), lang: code.into(), stream: "probe", ops: case.ops[..=k].to_vec() };
                    if got != want { p.fail(format!("after {} operations search {:?} returns {:?} but a freshly built store returns {:?}", k, q, got, want), prefix.clone()); }
                    if got != again { p.fail(format!("repeating search {:?} changes the answer: {:?} then {:?}", q, got, again), prefix); }
                }
                _ => {}
            }
        }
    }
}

// ---------------- C11: case, composition form, folded accents, leading separators ----------------
fn p11(p: &mut ProbeReport, r: &mut Rng, budget: usize) {
    // every letter of every language's inventory that has a canonical decomposition: stored / asked decomposed vs precomposed
    for code in LANGS.iter().skip(1) {
        let v = vocab(code);
        for &c in &v.accents {
            let (b, m) = match decompose_char(c) { Some(x) => x, None => continue };
            let (w1, w2) = (v.word(r), v.word(r));
            for (pre, post) in [("", w1.as_str()), (w1.as_str(), ""), (w1.as_str(), w2.as_str())] {
                let tp = format!("{}{}{} {}", pre, c, post, w2);
                let td = format!("{}{}{}{} {}", pre, b, m, post, w2);
                let other = format!("{} {}", v.word(r), v.word(r));
                let sp = Scn { lang: code.to_string(), recs: vec![(1, tp.clone(), 5), (2, other.clone(), 3)], limit: 10 };
                let sd = Scn { lang: code.to_string(), recs: vec![(1, td.clone(), 5), (2, other.clone(), 3)], limit: 10 };
                let (stp, std_) = (sp.build(), sd.build());
                let qp: String = format!("{}{}{}", pre, c, post);
                let qd: String = format!("{}{}{}{}", pre, b, m, post);
                for q in [qp.clone(), qd.clone(), w2.clone(), String::new()] {
                    p.eval(&format!("{}|letter|{}|{}", code, c, q), true);
                    let (a, d) = (search_results(&stp, &q), search_results(&std_, &q));
                    if a != d { p.fail(format!("title {:?} stored decomposed ({:?}) gives {:?}, stored precomposed gives {:?} (query {:?})", tp, td, d, a, q), sd.case("c11-letter-title", vec![Op::Search(q.clone())])); }
                }
                let (a, d) = (search_results(&stp, &qp), search_results(&stp, &qd));
                if a != d { p.fail(format!("query {:?} written decomposed ({:?}) gives {:?} instead of {:?}", qp, qd, d, a), sp.case("c11-letter-query", vec![Op::Search(qp.clone()), Op::Search(qd.clone())])); }
            }
        }
    }
    let mut i = 0;
    let budget = budget + p.evaluations;
    while p.evaluations < budget {
        let code = LANGS[1 + i % (LANGS.len() - 1)]; i += 1;
        let v = vocab(code);
        let lang = make_lang(code);
        let mut scn = rand_scn(&v, r, 6, true, false);
        // make sure accents of the language occur
        if !v.accents.is_empty() {
            let a = *r.pick(&v.accents);
            let w = v.word(r);
            let pos = r.below(w.chars().count() + 1);
            let mut cs: Vec<char> = w.chars().collect(); cs.insert(pos, a);
            let wacc: String = cs.into_iter().collect();
            let k = r.below(scn.recs.len());
            scn.recs[k].1 = format!("{} {}", wacc, scn.recs[k].1);
        }
        // title-case digraphs: not upper-case, yet they have a lower-case form; re-casing ANOTHER letter must not matter
        let mut tc_query: Option<String> = None;
        if i % 4 == 0 {
            let (tc, low) = *r.pick(&[('\u{1C5}', '\u{1C6}'), ('\u{1C8}', '\u{1C9}'), ('\u{1CB}', '\u{1CC}'), ('\u{1F2}', '\u{1F3}')]);
            let w: String = (0..r.range(1, 5)).map(|_| *r.pick(&v.letters)).collect();
            let k = r.below(scn.recs.len());
            scn.recs[k].1 = format!("{}{} {}", low, w, scn.recs[k].1);
            tc_query = Some(format!("{}{}", tc, w));
        }
        let st = scn.build();
        let t0 = r.pick(&scn.recs).1.clone();
        let q0 = match tc_query { Some(q) => q, None => query_for(&v, r, &t0) };
        // precomposed base query without free-standing combining marks
        let q: String = { let cs: Vec<char> = q0.chars().collect(); lang.unicode_compose(&cs).unwrap_or(cs).into_iter().filter(|c| !('\u{300}'..='\u{36f}').contains(c)).collect() };
        let base = search_results(&st, &q);
        let mut variants: Vec<(&str, String)> = vec![];
        // re-case letters with one-to-one case mappings
        let recase: String = q.chars().map(|c| if r.chance(1, 2) { let u: Vec<char> = c.to_uppercase().collect(); if u.len() == 1 && u[0].to_lowercase().collect::<Vec<_>>() == vec![c] && c.to_lowercase().collect::<Vec<_>>() == vec![c] { u[0] } else { c } } else { c }).collect();
        variants.push(("recase", recase));
        // decompose the language's own accents (inventory = the letters its tables mention; decomposition from the
        // independent reference table, NOT from the compose table under test)
        let compose_targets: BTreeSet<char> = v.accents.iter().cloned().collect();
        let dec: String = { let mut s = String::new(); for c in q.chars() { match decompose_char(c) { Some((b, m)) if compose_targets.contains(&c) && r.chance(2, 3) => { s.push(b); s.push(m); } _ => s.push(c) } } s };
        variants.push(("decompose", dec));
        // fold accents the language folds
        let fold: String = { let mut s = String::new(); for c in q.chars() { if r.chance(2, 3) { if let Some((_, red)) = lang.unicode_reduce(&[c]) { s.extend(red.iter()); continue; } } s.push(c); } s };
        variants.push(("fold", fold));
        variants.push(("sep-prefix", format!("{}{}", r.pick(&[" ", "-", "  ", ", ", "\u{a0}"]), q)));
        for (kind, qv) in variants {
            p.eval(&format!("{}|{}|{}|{}", code, kind, q, qv), qv != q);
            let got = search_results(&st, &qv);
            if got != base { p.fail(format!("variant {} {:?} of query {:?} changes the result: {:?} vs {:?}", kind, qv, q, got, base), scn.case("c11", vec![Op::Search(q.clone()), Op::Search(qv.clone())])); }
        }
        // decomposed vs precomposed titles
        let mut scn2 = scn.clone();
        for e in scn2.recs.iter_mut() { let mut s = String::new(); for c in e.1.chars() { match decompose_char(c) { Some((b, m)) if compose_targets.contains(&c) => { s.push(b); s.push(m); } _ => s.push(c) } } e.1 = s; }
        if scn2.recs.iter().zip(scn.recs.iter()).any(|(a, b)| a.1 != b.1) {
            let got = search_results(&scn2.build(), &q);
            p.eval(&format!("{}|title-decomposed|{}", code, q), true);
            if got != base { p.fail(format!("storing titles decomposed changes the result for {:?}: {:?} vs {:?}", q, got, base), scn2.case("c11-title", vec![Op::Search(q.clone())])); }
        }
    }
}

// ---------------- C12: empty query lists the top-rated records ----------------
fn p12(p: &mut ProbeReport, r: &mut Rng, budget: usize) {
    // the bounded selection compacts its buffer every 2·limit items: limits 9–24 (slices long enough for the partial
    // selection algorithms of std to differ from a full sort), 2·limit+1 … 5·limit records, ratings in random order
    for round in 0..(if budget > 5000 { 1500 } else { 150 }) {
        let code = LANGS[round % LANGS.len()];
        let limit = r.range(9, 24);
        let n = r.range(2 * limit + 1, 5 * limit);
        let mut ratings: Vec<usize> = (0..n).map(|k| 10 + 3 * k).collect();
        r.shuffle(&mut ratings);
        let recs: Vec<(usize, String, usize)> = ratings.iter().enumerate().map(|(k, rt)| (k + 1, format!("t{}", k % 7), *rt)).collect();
        let scn = Scn { lang: code.to_string(), recs: recs.clone(), limit };
        let st = scn.build();
        for q in ["", " - "] {
            let hits = search_results(&st, q);
            let mut by = recs.clone(); by.sort_by(|a, b| b.2.cmp(&a.2));
            let want: Vec<usize> = by.iter().take(limit).map(|e| e.0).collect();
            p.eval(&format!("compact12|{}|{}|{}|{}", code, limit, n, q), true);
            if ids(&hits) != want { p.fail(format!("{} records with pairwise distinct ratings, limit {}, query {:?}: listed {:?}, the best-rated are {:?}", n, limit, q, ids(&hits), want), scn.case("c12-compaction", vec![Op::Search(q.to_string())])); return; }
        }
    }
    lived_in_exhaustive(p, "C12", if budget > 5000 { 7 } else { 6 });
    lived_in_store(p, r, if budget > 5000 { 6000 } else { 600 }, "C12");
    let budget = budget + p.evaluations;
    let mut i = 0;
    while p.evaluations < budget {
        let code = LANGS[i % LANGS.len()]; i += 1;
        let v = vocab(code);
        let lang = make_lang(code);
        let distinct = i % 2 == 0;
        let mut scn = rand_scn(&v, r, 12, distinct, false);
        if !distinct { for k in 0..scn.recs.len() { if r.chance(1, 3) { let j = r.below(scn.recs.len()); scn.recs[k].1 = scn.recs[j].1.clone(); } } }
        if scn.recs.iter().any(|e| has_sentinel(&e.1)) { continue; }
        let n = scn.recs.len();
        // the record added after an empty-query search: rated above, below, or tied with an existing record
        let extra_rating = match r.below(4) { 0 => r.below(1 << 20) + (1 << 20), 1 => 0, _ => r.pick(&scn.recs).2 };
        let extra = (n + 1, if r.chance(1, 2) { format!("a{}", v.word(r)) } else { v.title(r) }, extra_rating);
        // phase 2: ONE long-lived store whose limit walks down and up again between empty-query searches
        let mut walking: Option<Store> = None;
        for phase in 0..3 {
            if phase == 1 { scn.recs.push(extra.clone()); }
            if phase == 2 { walking = Some(Scn { limit: scn.recs.len() + 2, ..scn.clone() }.build()); }
            let nlim = scn.recs.len() + 2;
            let limits: Vec<usize> = if phase == 2 { (0..=nlim).rev().chain(1..=nlim).collect() } else { (0..=nlim).collect() };
            for limit in limits {
                let mut st = if phase == 2 { let mut w = walking.take().unwrap(); w.limit = limit; w } else { Scn { limit, ..scn.clone() }.build() };
                if phase == 1 {
                    // history: an empty-query search happened before the last add
                    st = { let mut s = new_store(code, limit); for (k, (id, t, rt)) in scn.recs.iter().enumerate() { if k + 1 == scn.recs.len() { let _ = search_results(&s, ""); } add_to(&mut s, *id, t, *rt); } s };
                }
                let q = r.pick(&["", " ", " - ", "!?", "\u{a0}"]).to_string();
                let hits = search_marked(&mut st, &q);
                if phase == 2 { walking = Some(st); }
                p.eval(&format!("{}|{}|{}|{}|{}", code, scn.recs.len(), limit, phase, q), scn.recs.len() > limit);
                let mk = |what: String| (what, Scn { limit, ..scn.clone() }.case("c12", vec![Op::Search(q.clone())]));
                let want_len = limit.min(scn.recs.len());
                if hits.len() != want_len { let (w, c) = mk(format!("{} hits, expected min(limit {}, records {}) = {}", hits.len(), limit, scn.recs.len(), want_len)); p.fail(w, c); continue; }
                if hits.iter().any(|h| has_sentinel(&h.1)) { let (w, c) = mk("empty query produced highlighting".into()); p.fail(w, c); }
                // map hits to records (greedy on id + composed title)
                let mut used = vec![false; scn.recs.len()];
                let mut ratings = vec![];
                for (id, title) in &hits {
                    let k = scn.recs.iter().enumerate().position(|(k, e)| !used[k] && e.0 == *id && stripped_index(&tokenize_record(&e.1, &lang)).0.iter().collect::<String>() == *title);
                    match k { Some(k) => { used[k] = true; ratings.push(scn.recs[k].2); } None => { let (w, c) = mk(format!("hit ({}, {:?}) matches no stored record", id, title)); p.fail(w, c); } }
                }
                if ratings.windows(2).any(|w| w[0] < w[1]) { let (w, c) = mk(format!("ratings increase down the list: {:?}", ratings)); p.fail(w, c); }
                let min_listed = ratings.iter().min().cloned();
                for (k, e) in scn.recs.iter().enumerate() {
                    if used[k] { continue; }
                    if let Some(m) = min_listed { if e.2 > m { let (w, c) = mk(format!("omitted record {} has rating {} > listed {}", e.0, e.2, m)); p.fail(w, c); }
                        else if e.2 == m {
                            // among equal ratings the omitted ones come later in code-point order of the normalised title
                            let oc = tokenize_record(&e.1, &lang).chars;
                            for (k2, e2) in scn.recs.iter().enumerate() { if used[k2] && e2.2 == m { let lc = tokenize_record(&e2.1, &lang).chars; if oc < lc { let (w, c) = mk(format!("omitted record {} sorts before listed record {} at equal rating", e.0, e2.0)); p.fail(w, c); } } }
                        } }
                    else if limit > 0 { let (w, c) = mk("records omitted although nothing is listed".into()); p.fail(w, c); }
                }
            }
        }
    }
}

// ---------------- C13: whole title / two words in either order ----------------
fn p13(p: &mut ProbeReport, r: &mut Rng, budget: usize) {
    // 1100 records with the same two-word title, limit 1100: the full title and both word orders return every record
    {
        let recs: Vec<(usize, String, usize)> = (0..1100).map(|i| (i + 1, "Cotton Shirt".to_string(), 10 + i)).collect();
        let st = Scn { lang: "none".into(), recs, limit: 1100 }.build();
        for q in ["Cotton Shirt", "Shirt Cotton ", "cotton shirt "] {
            p.eval(&format!("same-title|{}", q), true);
            let hits = ids(&search_results(&st, q));
            if let Some(missing) = (1..=1100usize).find(|i| !hits.contains(i)) { p.fail(format!("1100 records titled `Cotton Shirt`, limit 1100: query {:?} does not return record {} ({} results)", q, missing, hits.len()), Case { name: "c13-same-title".into(), lang: "none".into(), stream: "probe", ops: vec![Op::Search(q.to_string())] }); break; }
        }
    }
    // through the top-level API: a store that at first holds more records than its limit is asked for a title, the
    // limit is raised to the store's size (the property now applies), and the same query is sent again
    for (k, code) in LANGS.iter().cycle().take(LANGS.len() * 3).enumerate() {
        let v = vocab(code);
        let lang = make_lang(code);
        let id = 720_000 + k;
        let w = v.word(r);
        // three records with the same title, the one asked for rated lowest: any limit below 3 cuts it
        let title = format!("{} {}", w, v.word(r));
        let recs: Vec<(usize, String, usize)> = (0..3).map(|i| (i + 1, title.clone(), 10 + 10 * i)).collect();
        if recs.iter().any(|e| has_sentinel(&e.1)) || tokenize_record(&recs[0].1, &lang).words.is_empty() { continue; }
        let t = tokenize_record(&recs[0].1, &lang);
        let (a, b): (String, String) = (wchars(&t, 0).iter().collect(), wchars(&t, t.words.len() - 1).iter().collect());
        let queries = [recs[0].1.clone(), format!("{} {} ", a, b), format!("{} {}", b, a)];
        let mut ops: Vec<Op> = vec![Op::RCreate(id, code.to_string()), Op::RLimit(id, 1 + k % 2)];
        for (rid, t, rt) in &recs { ops.push(Op::RAdd(id, *rid, *rt, t.clone())); }
        let mut bad: Option<String> = None;
        let res = guarded(|| {
            core::create_store(id, make_lang(code));
            core::set_limit(id, 1 + k % 2);
            for (rid, t, rt) in &recs { core::add_record(id, *rid, t, *rt); }
            for q in &queries {
                // the same query immediately before and immediately after the limit is raised
                core::set_limit(id, 1 + k % 2); ops.push(Op::RLimit(id, 1 + k % 2));
                core::run_search(id, q); ops.push(Op::RSearch(id, q.clone()));
                core::set_limit(id, 3); ops.push(Op::RLimit(id, 3));
                core::run_search(id, q); ops.push(Op::RSearch(id, q.clone()));
                let got: Vec<usize> = core::using_results(id, |rs| rs.iter().map(|x| x.id).collect());
                if !got.contains(&1) && bad.is_none() { bad = Some(format!("store of 3 records, limit raised to 3: query {:?} does not return record 1 {:?}; ids {:?}", q, recs[0].1, got)); break; }
            }
        });
        let _ = guarded(|| core::destroy_store(id));
        p.eval(&format!("{}|api-limit-raised|{}", code, k), true);
        if let Err(e) = res { p.fail(format!("top-level API panicked: {}", e), Case { name: "c13-api".into(), lang: code.to_string(), stream: "probe", ops: ops.clone() }); }
        if let Some(what) = bad { p.fail(what, Case { name: "c13-api".into(), lang: code.to_string(), stream: "probe", ops: ops.clone() }); }
    }
    let budget = budget + p.evaluations;
    let mut i = 0;
    let mut directed = 0usize;
    while p.evaluations < budget {
        let code = LANGS[i % LANGS.len()]; i += 1;
        let v = vocab(code);
        let lang = make_lang(code);
        let mut scn = rand_scn(&v, r, 5, false, true);
        // every fourth store also holds a title "<function word> <long word> <short prefix of that word>" and one
        // "<word> <function word>": greedy assignment of query words to title words meets the short-partial-match rule
        if i % 4 == 0 && !v.func.is_empty() {
            let w: String = loop { let w = v.word(r); if w.chars().count() >= 6 && w.chars().all(|c| c.is_alphabetic()) { break w; } directed += 1; if directed > 10_000 { break "cartoon".to_string(); } };
            let k = r.range(1, (w.chars().count() - 1) / 2);
            let pre: String = w.chars().take(k.max(1)).collect();
            let n = scn.recs.len();
            scn.recs.push((900 + i, format!("{} {} {}", r.pick(&v.func), w, pre), 7));
            scn.recs.push((1900 + i, format!("{} {}", w, r.pick(&v.func)), 3));
            // "<one-letter function word> … <long inflected word>" ("A Walk Among the Tombstones"): the short word can be
            // absorbed into a joined match with the last word
            let ones: Vec<&String> = v.func.iter().filter(|f| f.chars().count() == 1).collect();
            if !ones.is_empty() {
                let suffix = match code { "en" => *r.pick(&["s", "es", "ies", "ings"]), "de" => *r.pick(&["en", "es", "ungen"]), "ru" => *r.pick(&["ы", "ов", "ами"]), _ => *r.pick(&["s", "es"]) };
                scn.recs.push((2900 + i, format!("{} {} {}{}", r.pick(&ones), v.word(r), w, suffix), 5));
                scn.recs.push((3900 + i, format!("{} {}{}", r.pick(&ones), w, suffix), 4));
            }
            scn.limit = scn.limit.max(n + 4);
        }
        let st = scn.build();
        for (id, title, _) in &scn.recs {
            let t = tokenize_record(title, &lang);
            if t.words.is_empty() { continue; }
            let mut queries = vec![("whole", title.clone())];
            if t.words.len() >= 2 {
                let a: String = wchars(&t, 0).iter().collect(); let b: String = wchars(&t, t.words.len() - 1).iter().collect();
                queries.push(("first-last", format!("{} {} ", a, b)));
                queries.push(("last-first", format!("{} {} ", b, a)));
                // the same two complete words with nothing typed after the second (it is then an unfinished query word)
                queries.push(("first-last-open", format!("{} {}", a, b)));
                queries.push(("last-first-open", format!("{} {}", b, a)));
            }
            for (kind, q) in queries {
                p.eval(&format!("{}|{}|{}", code, kind, q), true);
                let hits = search_results(&st, &q);
                if !hits.iter().any(|h| h.0 == *id) { p.fail(format!("{} query {:?} does not find record {} {:?}; hits {:?}", kind, q, id, title, ids(&hits)), scn.case("c13", vec![Op::Search(q.clone())])); }
            }
        }
    }
}

// ---------------- C14: split and joined spellings ----------------
fn p14(p: &mut ProbeReport, r: &mut Rng, budget: usize) {
    for code in LANGS.iter() { small_scope_titles(p, code, "C14", 3); }
    let budget = budget + p.evaluations;
    let mut i = 0;
    while p.evaluations < budget {
        let code = LANGS[i % LANGS.len()]; i += 1;
        let v = vocab(code);
        let lang = make_lang(code);
        let mut scn = rand_scn(&v, r, 4, false, true);
        if i % 2 == 0 { let a = v.word(r); let b = v.word(r); scn.recs[0].1 = format!("{}{}{}", a, r.pick(&["-", " ", "'"]), b); }
        let st = scn.build();
        for (id, title, _) in &scn.recs {
            let t = tokenize_record(title, &lang);
            for wi in 0..t.words.len() {
                let cs = wchars(&t, wi);
                if cs.len() >= 3 {
                    for sp in 1..cs.len() {
                        let a: String = cs[..sp].iter().collect(); let b: String = cs[sp..].iter().collect();
                        let q = format!("{} {}", a, b);
                        let tq = tokenize_query(&q, &lang);
                        if !(tq.words.len() == 2 && wchars(&tq, 0) == cs[..sp].to_vec() && wchars(&tq, 1) == cs[sp..].to_vec()) { p.note("premise_not_met"); continue; }
                        p.eval(&format!("{}|split|{}|{}", code, title, q), true);
                        let hits = search_results(&st, &q);
                        if !hits.iter().any(|h| h.0 == *id) { p.fail(format!("split spelling {:?} of word {:?} does not find record {} {:?}", q, cs.iter().collect::<String>(), id, title), scn.case("c14-split", vec![Op::Search(q.clone())])); }
                    }
                }
                if wi + 1 < t.words.len() && t.words[wi + 1].slice.0 == t.words[wi].slice.1 + 1 {
                    let mut joined = cs.clone(); joined.extend(wchars(&t, wi + 1));
                    if joined.len() < 3 { continue; }
                    let q: String = joined.iter().collect();
                    let tq = tokenize_query(&q, &lang);
                    if !(tq.words.len() == 1 && wchars(&tq, 0) == joined && tq.words[0].stem == joined.len()) { p.note("premise_not_met"); continue; }
                    p.eval(&format!("{}|join|{}|{}", code, title, q), true);
                    let hits = search_results(&st, &q);
                    if !hits.iter().any(|h| h.0 == *id) { p.fail(format!("run-together spelling {:?} does not find record {} {:?}", q, id, title), scn.case("c14-join", vec![Op::Search(q.clone())])); }
                }
            }
        }
    }
}

// ---------------- C15: tokenizer invariants ----------------
pub fn tok_inv(t: &TextOwn, input: &str, lang: &core::Lang, query: bool, known_unlowerable: &mut usize) -> Result<(), String> {
    let n = t.chars.len();
    if t.source.len() != n || t.classes.len() != n { return Err(format!("array lengths differ: source {} chars {} classes {}", t.source.len(), n, t.classes.len())); }
    let lang0 = core::Lang::new();
    use core::lang::{CharClass, CharPattern};
    let punct = |c: char| CharClass::Punctuation.matches(c, &lang0) == Some(true);
    let mut prev_end = 0;
    let mut covered = vec![false; n];
    for (i, w) in t.words.iter().enumerate() {
        if w.offset != i { return Err(format!("word {} has offset {}", i, w.offset)); }
        if !(w.slice.0 < w.slice.1 && w.slice.1 <= n) { return Err(format!("word {} slice {:?} empty or out of bounds (len {})", i, w.slice, n)); }
        if i > 0 && w.slice.0 < prev_end { return Err(format!("word {} overlaps its predecessor", i)); }
        prev_end = w.slice.1;
        let cs = &t.chars[w.slice.0..w.slice.1];
        if !cs[0].is_alphanumeric() || !cs[cs.len() - 1].is_alphanumeric() { return Err(format!("word {} {:?} does not begin and end with a letter or digit", i, cs)); }
        for c in cs {
            if c.is_whitespace() || c.is_control() || punct(*c) { return Err(format!("word {} contains separator U+{:04X}", i, *c as u32)); }
            if c.is_uppercase() { if crate::unicode::lower1(*c) == *c { *known_unlowerable += 1; } else { return Err(format!("word {} contains upper-case U+{:04X}", i, *c as u32)); } }
        }
        if !(1 <= w.stem && w.stem <= cs.len()) { return Err(format!("word {} stem {} not in 1..={}", i, w.stem, cs.len())); }
        for k in w.slice.0..w.slice.1 { covered[k] = true; }
        if !query && !w.fin { return Err(format!("record word {} is unfinished", i)); }
        if query && i + 1 < t.words.len() && !w.fin { return Err(format!("query word {} (not last) is unfinished", i)); }
        if query && i + 1 == t.words.len() { let nothing_follows = w.slice.1 == n; if w.fin == nothing_follows { return Err(format!("last query word fin={} but nothing_follows={}", w.fin, nothing_follows)); } }
    }
    for k in 0..n { if t.chars[k].is_alphanumeric() && !covered[k] { return Err(format!("alphanumeric U+{:04X} at {} is in no word", t.chars[k] as u32, k)); } }
    let src: Vec<char> = input.chars().collect();
    let composed: Vec<char> = lang.unicode_compose(&src).unwrap_or(src).into_iter().filter(|c| *c != '\0').collect();
    let stripped: Vec<char> = t.source.iter().cloned().filter(|c| *c != '\0').collect();
    if composed != stripped { return Err("source without padding is not the composed input".to_string()); }
    Ok(())
}

fn p15(p: &mut ProbeReport, r: &mut Rng, budget: usize) {
    let mut i = 0;
    let mut known = 0usize;
    while p.evaluations < budget {
        let code = LANGS[i % LANGS.len()]; i += 1;
        let v = vocab(code);
        let lang = make_lang(code);
        let alpha = adversarial_alphabet(code);
        for _ in 0..40 {
            let s: String = match r.below(4) { 0 => { let k = r.range(0, 6); (0..k).map(|_| *r.pick(&alpha)).collect() } 1 => { let k = r.range(0, 14); random_unicode(r, k) } _ => v.title(r) };
            for query in &[false, true] {
                let t = if *query { tokenize_query(&s, &lang) } else { tokenize_record(&s, &lang) };
                p.eval(&format!("{}|{}|{}", code, query, s), !t.words.is_empty());
                if let Err(e) = tok_inv(&t, &s, &lang, *query, &mut known) {
                    p.fail(format!("tokenize_{}({:?}) [{}]: {}", if *query { "query" } else { "record" }, s, code, e), Case { name: "c15".into(), lang: code.into(), stream: "probe", ops: vec![if *query { Op::TokQ(s.clone()) } else { Op::TokR(s.clone()) }] });
                }
            }
        }
    }
    if known > 0 { p.notes.insert("known_finding_D4_unlowerable_uppercase_in_word".into(), known); }
}

// ---------------- C16: distance laws ----------------
fn lev(a: &[char], b: &[char]) -> usize {
    let mut d = vec![vec![0usize; b.len() + 1]; a.len() + 1];
    for i in 0..=a.len() { d[i][0] = i; } for j in 0..=b.len() { d[0][j] = j; }
    for i in 1..=a.len() { for j in 1..=b.len() { d[i][j] = (d[i - 1][j] + 1).min(d[i][j - 1] + 1).min(d[i - 1][j - 1] + if a[i - 1] == b[j - 1] { 0 } else { 1 }); } }
    d[a.len()][b.len()]
}

/// unrestricted Damerau-Levenshtein distance with unit costs (Lowrance-Wagner)
fn dl_unit(a: &[char], b: &[char]) -> usize {
    let inf = a.len() + b.len() + 1;
    let mut d = vec![vec![inf; b.len() + 2]; a.len() + 2];
    let mut da: BTreeMap<char, usize> = BTreeMap::new();
    for i in 0..=a.len() { d[i + 1][1] = i; } for j in 0..=b.len() { d[1][j + 1] = j; }
    for i in 1..=a.len() {
        let mut db = 0;
        for j in 1..=b.len() {
            let i1 = *da.get(&b[j - 1]).unwrap_or(&0); let j1 = db;
            let cost = if a[i - 1] == b[j - 1] { db = j; 0 } else { 1 };
            d[i + 1][j + 1] = (d[i][j] + cost).min(d[i + 1][j] + 1).min(d[i][j + 1] + 1).min(d[i1][j1] + (i - i1 - 1) + 1 + (j - j1 - 1));
        }
        da.insert(a[i - 1], i);
    }
    d[a.len() + 1][b.len() + 1]
}

fn p16(p: &mut ProbeReport, r: &mut Rng, budget: usize) {
    let dl = DamerauLevenshtein::new();
    // the last three collide with `k` when a scalar is truncated to 8 / 16 bits
    let syms: [(char, u32); 9] = [('a', 7), ('e', 7), ('b', 6), ('c', 6), ('1', 4), ('x', 0), ('k', 6), ('\u{16B}', 7), ('\u{1006B}', 0)];
    let mk = |w: &Vec<char>, plain: bool| -> TextOwn { text_from_parts(w, &w.iter().map(|c| if plain { 0 } else { syms.iter().find(|e| e.0 == *c).map(|e| e.1).unwrap_or(0) }).collect::<Vec<_>>()) };
    while p.evaluations < budget {
        let long = r.chance(1, 5);
        let la = if long { r.range(18, 60) } else { r.range(0, 6) };
        let k = if r.chance(1, 3) { 9 } else { r.range(2, 6) };
        let a: Vec<char> = (0..la).map(|_| syms[r.below(k)].0).collect();
        let b: Vec<char> = if r.chance(1, 2) { let mut b = a.clone(); for _ in 0..r.range(0, 3) { if b.is_empty() { break; } let pos = r.below(b.len()); match r.below(4) { 0 => { b.remove(pos); } 1 => b.insert(pos, syms[r.below(k)].0), 2 => b[pos] = syms[r.below(k)].0, _ => if pos + 1 < b.len() { b.swap(pos, pos + 1) } } } b } else { let lb = r.range(0, 6); (0..lb).map(|_| syms[r.below(k)].0).collect() };
        let (ta, tb) = (mk(&a, false), mk(&b, false));
        let d = dl.distance(&ta.view(0), &tb.view(0));
        // prefix cells right after this call
        let mut cells = vec![];
        { let m = dl.dists.borrow(); for i in 0..=a.len() { for j in 0..=b.len() { cells.push(((i, j), m.get(i + 1, j + 1))); } } }
        let d2 = dl.distance(&tb.view(0), &ta.view(0));
        let key = format!("{}|{}", a.iter().collect::<String>(), b.iter().collect::<String>());
        p.eval(&key, a != b);
        let case = Case { name: "c16".into(), lang: "none".into(), stream: "probe", ops: vec![Op::Dist(a.clone(), ta.classes.iter().map(class_code).collect(), b.clone(), tb.classes.iter().map(class_code).collect())] };
        if (d == 0.0) != (a == b) { p.fail(format!("distance({}) = {} but equality is {}", key, d, a == b), case.clone()); }
        if d != d2 { p.fail(format!("not symmetric: {} vs {} for {}", d, d2, key), case.clone()); }
        if (d * 2.0).fract() != 0.0 { p.fail(format!("not a multiple of 0.5: {} for {}", d, key), case.clone()); }
        if d > lev(&a, &b) as f64 { p.fail(format!("exceeds Levenshtein {}: {} for {}", lev(&a, &b), d, key), case.clone()); }
        if d < dl_unit(&a, &b) as f64 / 2.0 { p.fail(format!("below half the Damerau-Levenshtein distance {}: {} for {}", dl_unit(&a, &b), d, key), case.clone()); }
        let dplain = dl.distance(&mk(&a, true).view(0), &mk(&b, true).view(0));
        if d > dplain { p.fail(format!("class discounts raised the distance: {} > {} for {}", d, dplain, key), case.clone()); }
        // a few prefix pairs on their own (fresh instance: independent of history)
        for _ in 0..3 {
            let (i, j) = (r.below(a.len() + 1), r.below(b.len() + 1));
            let fresh = DamerauLevenshtein::new();
            let (pa, pb) = (mk(&a[..i].to_vec(), false), mk(&b[..j].to_vec(), false));
            let want = fresh.distance(&pa.view(0), &pb.view(0));
            let got = cells.iter().find(|c| c.0 == (i, j)).map(|c| c.1).unwrap_or(-1.0);
            if got != want { p.fail(format!("cell for prefixes ({}, {}) of {} is {} but their own distance is {}", i, j, key, got, want), case.clone()); }
        }
    }
}

// ---------------- C17: Jaccard ----------------
fn p17(p: &mut ProbeReport, r: &mut Rng, budget: usize) {
    let j: Jaccard<char> = Jaccard::new();
    let alpha: Vec<char> = "abcdefghijklmnopqrstuvwxyz0123456789".chars().collect();
    while p.evaluations < budget {
        let k = r.range(1, alpha.len());
        let la = if r.chance(1, 4) { r.range(20, 70) } else { r.range(0, 8) };
        let lb = if r.chance(1, 4) { r.range(20, 70) } else { r.range(0, 8) };
        let a: Vec<char> = (0..la).map(|_| alpha[r.below(k)]).collect();
        let b: Vec<char> = (0..lb).map(|_| alpha[r.below(k)]).collect();
        let sa: BTreeSet<char> = a.iter().cloned().collect(); let sb: BTreeSet<char> = b.iter().cloned().collect();
        let want = if a.is_empty() && b.is_empty() { 1.0 } else if a.is_empty() || b.is_empty() { 0.0 } else { sa.intersection(&sb).count() as f64 / sa.union(&sb).count() as f64 };
        let got = j.similarity(&a, &b);
        let got_sym = j.similarity(&b, &a);
        let mut a2 = a.clone(); a2.extend(a.iter().rev()); r.shuffle(&mut a2);
        let got_rep = if a.is_empty() { got } else { j.similarity(&a2, &b) };
        let key = format!("{}|{}", a.iter().collect::<String>(), b.iter().collect::<String>());
        p.eval(&key, !a.is_empty() && !b.is_empty());
        let case = Case { name: "c17".into(), lang: "none".into(), stream: "probe", ops: vec![Op::Jacc(a.clone(), b.clone())] };
        if got != want { p.fail(format!("similarity({}) = {} but |A∩B|/|A∪B| = {}", key, got, want), case.clone()); }
        if got != got_sym { p.fail(format!("not symmetric for {}", key), case.clone()); }
        if got != got_rep { p.fail(format!("changed by repetition/permutation for {}", key), case.clone()); }
        if !(0.0..=1.0).contains(&got) { p.fail(format!("out of [0,1]: {} for {}", got, key), case); }
    }
}

// ---------------- C18: trigram index ----------------
/// the whole statement of C18 for one `prepare` call on a store holding `recs`; false after the first failure
fn check_prepare(p: &mut ProbeReport, st: &Store, lang: &core::Lang, code: &str, recs: &[(usize, String, usize)], q: &str, size: usize, history: &[Op]) -> bool {
    let n = recs.len();
    let rgrams: Vec<BTreeSet<[char; 3]>> = recs.iter().map(|e| grams_of(&tokenize_record(&e.1, lang))).collect();
    let tq = tokenize_query(q, lang);
    let got = st.index.borrow_mut().prepare(&tq.to_ref(), size);
    let qg = grams_of(&tq);
    let counts: Vec<usize> = rgrams.iter().map(|g| g.intersection(&qg).count()).collect();
    let positive = counts.iter().filter(|c| **c > 0).count();
    p.eval(&format!("inc|{}|{}|{}|{}", code, n, size, q), positive > 0);
    let mut ops = history.to_vec(); ops.push(Op::Prepare(q.to_string(), size));
    let case = Case { name: "c18-incremental".into(), lang: code.to_string(), stream: "probe", ops };
    if tq.words.is_empty() { if !got.is_empty() { p.fail("candidates for a query without words".into(), case); return false; } return true; }
    let set: BTreeSet<usize> = got.iter().cloned().collect();
    let what = if set.len() != got.len() { Some(format!("duplicate positions {:?}", got)) }
        else if got.iter().any(|ix| *ix >= n || counts[*ix] == 0) { Some(format!("position out of range or sharing no gram: {:?} counts {:?}", got, counts)) }
        else if got.len() != positive.min(10 * size) { Some(format!("{} candidates {:?}, expected min(records sharing a gram {}, 10*size {})", got.len(), got, positive, 10 * size)) }
        else if got.windows(2).any(|w| counts[w[0]] < counts[w[1]]) { Some(format!("shared-gram counts increase along the list {:?}", got.iter().map(|ix| counts[*ix]).collect::<Vec<_>>())) }
        else if got.iter().map(|ix| counts[*ix]).min().map(|minc| (0..n).any(|ix| !set.contains(&ix) && counts[ix] > minc)).unwrap_or(false) { Some("an omitted record shares more grams than a listed one".to_string()) }
        else { None };
    match what { Some(w) => { p.fail(format!("{} (query {:?}, size {}, after {} adds)", w, q, size, n), case); false } None => true }
}

fn p18(p: &mut ProbeReport, r: &mut Rng, budget: usize) {
    // one index asked 66 000 times (a wrapping per-query stamp would come round): a record touched once at the start
    // and never again must not be a candidate of a query it shares nothing with
    {
        let lang = make_lang("none");
        let recs: Vec<(usize, String, usize)> = vec![(1, "alpine hiking boots".into(), 3), (2, "wool socks".into(), 2), (3, "water bottle".into(), 1)];
        let st = Scn { lang: "none".into(), recs: recs.clone(), limit: 10 }.build();
        let mut hist: Vec<Op> = vec![Op::New];
        for (id, t, rt) in &recs { hist.push(Op::Add(*id, *rt, t.clone())); }
        let q1 = tokenize_query("alp", &lang);
        let _ = st.index.borrow_mut().prepare(&q1.to_ref(), 1);
        let qw = tokenize_query("wo", &lang);
        for _ in 0..65_528 { let _ = st.index.borrow_mut().prepare(&qw.to_ref(), 1); }
        hist.push(Op::Prepare("alp".into(), 1));
        // the queries number 65 530 … 65 541 after the one that touched record 1 (none of them touches it)
        for _ in 0..12 { if !check_prepare(p, &st, &lang, "none", &recs, "w", 1, &hist) { return; } }
        if !check_prepare(p, &st, &lang, "none", &recs, "alpine", 1, &hist) { return; }
    }
    // many more sharing records than the cap keeps (22 … 70 for sizes 1 and 2), their shared-gram counts all different
    // from their neighbours' and in random order: whatever the bounded selection keeps between compactions, nothing
    // omitted may share more grams than something listed
    for round in 0..(if budget > 5000 { 3000 } else { 300 }) {
        let lang = make_lang("none");
        let size = 1 + round % 2;
        let n = r.range(20 * size + 2, 35 * size);
        let base: Vec<char> = "abcdefgh".chars().collect();
        let recs: Vec<(usize, String, usize)> = (0..n).map(|i| (i + 1, base[..r.range(1, 8)].iter().collect::<String>(), 10 + i)).collect();
        let st = Scn { lang: "none".into(), recs: recs.clone(), limit: 10 }.build();
        let mut hist: Vec<Op> = vec![Op::New];
        for (id, t, rt) in &recs { hist.push(Op::Add(*id, *rt, t.clone())); }
        if !check_prepare(p, &st, &lang, "none", &recs, "abcdefgh", size, &hist) { return; }
    }
    // more than 255 shared grams per record (a one-byte counter would saturate or wrap): twelve records holding the
    // first 20 … 23 words of a 24-word text (about 16 grams per word), asked for the whole text at size 1
    {
        let lang = make_lang("none");
        let words: Vec<String> = (0..24).map(|_| (0..16).map(|_| (b'a' + r.below(26) as u8) as char).collect::<String>()).collect();
        let mut recs: Vec<(usize, String, usize)> = vec![];
        for i in 0..12 { recs.push((i + 1, words[..20 + (i * 5) % 4].join(" "), 10 + i)); }
        let st = Scn { lang: "none".into(), recs: recs.clone(), limit: 10 }.build();
        let mut hist: Vec<Op> = vec![Op::New];
        for (id, t, rt) in &recs { hist.push(Op::Add(*id, *rt, t.clone())); }
        if !check_prepare(p, &st, &lang, "none", &recs, &words.join(" "), 1, &hist) { return; }
        if !check_prepare(p, &st, &lang, "none", &recs, &words[..22].join(" "), 1, &hist) { return; }
    }
    // grams that differ in one low bit next to a character beyond U+FFFF (a key packed into too few bits would merge
    // them): the record that holds both spellings shares three grams with the query, thirty fillers share two, and the
    // cap leaves room for ten
    for (astral, x, y) in [('\u{10330}', 'b', 'c'), ('\u{10330}', 'd', 'e'), ('\u{20BB7}', 'a', 'c'), ('\u{1F600}', 'b', 'c')] {
        for swap in [false, true] {
            let (x, y) = if swap { (y, x) } else { (x, y) };
            // the record holding both spellings is placed first in one store and last in another (ties at the cap
            // are cut in position order)
            for colliding_last in [false, true] {
            let mut recs: Vec<(usize, String, usize)> = vec![];
            if !colliding_last { recs.push((1, format!("k{}{} k{}{}", x, astral, y, astral), 5)); }
            for i in 0..30 { recs.push((3 + i, format!("k{}{}", y, ['m', 'n', 'o', 'p', 'q', 'r'][i % 6]), 7 + i)); }
            recs.push((2, format!("k{}{}", y, astral), 6));
            if colliding_last { recs.push((1, format!("k{}{} k{}{}", x, astral, y, astral), 5)); }
            let st = Scn { lang: "none".into(), recs: recs.clone(), limit: 10 }.build();
            let mut hist: Vec<Op> = vec![Op::New];
            for (id, t, rt) in &recs { hist.push(Op::Add(*id, *rt, t.clone())); }
            let lang = make_lang("none");
            if !check_prepare(p, &st, &lang, "none", &recs, &format!("k{}{}", y, astral), 1, &hist) { return; }
            if !check_prepare(p, &st, &lang, "none", &recs, &format!("k{}{} k{}{}", x, astral, y, astral), 1, &hist) { return; }
            }
        }
    }
    // incremental: the same few queries are prepared again after every add (also adds whose words start with letters
    // no earlier word starts with, also into an empty store) and after clear
    for round in 0..(if budget > 5000 { 400 } else { 60 }) {
        let code = LANGS[round % LANGS.len()];
        let v = vocab(code);
        let lang = make_lang(code);
        let planned: Vec<String> = (0..r.range(3, 9)).map(|k| if k % 2 == 0 { v.title(r) } else { let l = *r.pick(&v.letters); format!("{}{} {}", l, v.word(r), v.word(r)) }).collect();
        let queries: Vec<(String, usize)> = (0..3).map(|_| { let t = r.pick(&planned).clone(); (query_for(&v, r, &t), *r.pick(&[1usize, 2, 10])) }).collect();
        let mut st = new_store(code, 10);
        let mut recs: Vec<(usize, String, usize)> = vec![];
        let mut hist: Vec<Op> = vec![Op::New];
        let mut ok = true;
        for (q, size) in &queries { ok = ok && check_prepare(p, &st, &lang, code, &recs, q, *size, &hist); hist.push(Op::Prepare(q.clone(), *size)); }
        for (k, t) in planned.iter().enumerate() {
            if !ok { break; }
            if k == 4 && r.chance(1, 3) { st.clear(); recs.clear(); hist.push(Op::Clear); }
            // the same query immediately before and immediately after the add (nothing in between)
            let (qk, sk) = &queries[k % queries.len()];
            ok = ok && check_prepare(p, &st, &lang, code, &recs, qk, *sk, &hist); hist.push(Op::Prepare(qk.clone(), *sk));
            add_to(&mut st, k + 1, t, 10 + k); recs.push((k + 1, t.clone(), 10 + k)); hist.push(Op::Add(k + 1, 10 + k, t.clone()));
            ok = ok && check_prepare(p, &st, &lang, code, &recs, qk, *sk, &hist); hist.push(Op::Prepare(qk.clone(), *sk));
            for (q, size) in &queries { ok = ok && check_prepare(p, &st, &lang, code, &recs, q, *size, &hist); hist.push(Op::Prepare(q.clone(), *size)); }
        }
        if !ok { return; }
    }
    let budget = budget + p.evaluations;
    let mut i = 0;
    while p.evaluations < budget {
        let code = LANGS[i % LANGS.len()]; i += 1;
        let v = vocab(code);
        let lang = make_lang(code);
        let dense = i % 2 == 0;
        let n = if dense { r.range(5, 60) } else { r.range(0, 12) };
        let recs: Vec<(usize, String, usize)> = (0..n).map(|k| (k + 1, if dense { let nw = r.range(0, 3); (0..nw).map(|_| { let l = r.range(1, 4); (0..l).map(|_| *r.pick(&['a', 'b', 'c', '\u{10330}'])).collect::<String>() }).collect::<Vec<_>>().join(" ") } else { v.title(r) }, 1)).collect();
        let scn = Scn { lang: code.into(), recs, limit: 10 };
        let st = scn.build();
        let rgrams: Vec<BTreeSet<[char; 3]>> = scn.recs.iter().map(|e| grams_of(&tokenize_record(&e.1, &lang))).collect();
        for _ in 0..4 {
            let q = if dense { let l = r.range(0, 3); (0..l).map(|_| *r.pick(&['a', 'b', 'c', ' ', '\u{10330}'])).collect::<String>() } else if scn.recs.is_empty() { v.title(r) } else { let t = r.pick(&scn.recs).1.clone(); query_for(&v, r, &t) };
            let size = *r.pick(&[0usize, 1, 2, 3, 10]);
            let tq = tokenize_query(&q, &lang);
            let got = st.index.borrow_mut().prepare(&tq.to_ref(), size);
            let qg = grams_of(&tq);
            let counts: Vec<usize> = rgrams.iter().map(|g| g.intersection(&qg).count()).collect();
            let positive = counts.iter().filter(|c| **c > 0).count();
            p.eval(&format!("{}|{}|{}|{}", code, n, size, q), positive > 0);
            let mk = |what: String| (what, scn.case("c18", vec![Op::Prepare(q.clone(), size)]));
            if tq.words.is_empty() { if !got.is_empty() { let (w, c) = mk("candidates for a query without words".into()); p.fail(w, c); } continue; }
            let set: BTreeSet<usize> = got.iter().cloned().collect();
            if set.len() != got.len() { let (w, c) = mk(format!("duplicate positions {:?}", got)); p.fail(w, c); }
            if got.iter().any(|ix| *ix >= n || counts[*ix] == 0) { let (w, c) = mk(format!("position out of range or sharing no gram: {:?} counts {:?}", got, counts)); p.fail(w, c); continue; }
            let want_len = positive.min(10 * size);
            if got.len() != want_len { let (w, c) = mk(format!("{} candidates, expected min(positive {}, 10*size {}) ", got.len(), positive, 10 * size)); p.fail(w, c); }
            if got.windows(2).any(|w| counts[w[0]] < counts[w[1]]) { let (w, c) = mk(format!("shared-gram counts increase along the list {:?}", got.iter().map(|ix| counts[*ix]).collect::<Vec<_>>())); p.fail(w, c); }
            if let Some(minc) = got.iter().map(|ix| counts[*ix]).min() { if (0..n).any(|ix| !set.contains(&ix) && counts[ix] > minc) { let (w, c) = mk("an omitted record shares more grams than a listed one".into()); p.fail(w, c); } }
        }
    }
}

// ---------------- C19: unchecked accesses (hook assertions + std precondition checks in the checked build) ----------------
fn p19(p: &mut ProbeReport, r: &mut Rng, budget: usize) {
    let dl = DamerauLevenshtein::new();
    let j: Jaccard<char> = Jaccard::new();
    let mut i = 0;
    while p.evaluations < budget {
        i += 1;
        let la = if i % 2 == 0 { r.range(15, 90) } else { r.range(0, 5) };
        let lb = if r.chance(1, 2) { r.range(15, 90) } else { r.range(0, 5) };
        let a: Vec<char> = (0..la).map(|_| *r.pick(&['a', 'b', 'c', 'd', 'e'])).collect();
        let b: Vec<char> = (0..lb).map(|_| *r.pick(&['a', 'b', 'c', 'd', 'e'])).collect();
        let (ta, tb) = (text_from_parts(&a, &vec![0; a.len()]), text_from_parts(&b, &vec![0; b.len()]));
        p.eval(&format!("{}|{}", la, lb), la.max(lb) > 20);
        let res = guarded(|| { dl.distance(&ta.view(0), &tb.view(0)); j.similarity(&a, &b); });
        if let Err(e) = res { p.fail(format!("unchecked access out of range (lengths {} / {}): {}", la, lb, e), Case { name: "c19".into(), lang: "none".into(), stream: "probe", ops: vec![Op::Dist(a.clone(), vec![0; a.len()], b.clone(), vec![0; b.len()]), Op::Jacc(a.clone(), b.clone())] }); break; }
        let m = dl.dists.borrow();
        if m.verif_raw_len() != m.verif_size() * m.verif_size() || m.verif_size() < la.max(lb) + 2 { p.fail(format!("matrix size {} / buffer {} inconsistent for lengths {} / {}", m.verif_size(), m.verif_raw_len(), la, lb), Case { name: "c19".into(), lang: "none".into(), stream: "probe", ops: vec![] }); }
    }
    // exact fit: a word exactly as long as the current dimension allows, on a fresh instance and after growth
    for round in 0..6 {
        let dl = DamerauLevenshtein::new();
        let dlu = DamerauLevenshtein::new();    // fed the same pairs with the first word unfinished
        for _ in 0..4 {
            let size = dl.dists.borrow().verif_size();
            if size > 140 { break; }
            let fit = size - 2;
            let grow = fit + 1 + r.below(5 + round);
            for (la, lb) in [(fit, 3), (3, fit), (fit, fit), (fit - 1, fit), (fit, fit - 1), (fit, 0), (0, fit), (1, fit), (fit, 1), (grow, 2)] {
                let a: Vec<char> = (0..la).map(|_| *r.pick(&['a', 'b', 'c'])).collect();
                let b: Vec<char> = (0..lb).map(|_| *r.pick(&['a', 'b', 'c'])).collect();
                let (ta, tb) = (text_from_parts(&a, &vec![0; a.len()]), text_from_parts(&b, &vec![0; b.len()]));
                p.eval(&format!("fit|{}|{}|{}", size, la, lb), true);
                if let Err(e) = guarded(|| { dl.distance(&ta.view(0), &tb.view(0)); let tu = text_from_parts(&a, &vec![0; a.len()]).fin(false); dlu.distance(&tu.view(0), &tb.view(0)); }) {
                    p.fail(format!("unchecked access out of range (matrix dimension {}, lengths {} / {}): {}", size, la, lb, e), Case { name: "c19-fit".into(), lang: "none".into(), stream: "probe", ops: vec![Op::Dist(a.clone(), vec![0; a.len()], b.clone(), vec![0; b.len()])] });
                    return;
                }
            }
        }
    }
    // stores with long words and many records (counter vector)
    for code in &["none", "en"] {
        let v = vocab(code);
        let scn = rand_scn(&v, r, 30, false, false);
        let t0 = r.pick(&scn.recs).1.clone();
        let q = format!("{} {}", query_for(&v, r, &t0), (0..r.range(20, 45)).map(|_| *r.pick(&v.letters)).collect::<String>());
        p.eval(&format!("store|{}|{}", code, q), true);
        if let Err(e) = guarded(|| { let st = scn.build(); search_results(&st, &q) }) { p.fail(format!("store search trapped: {}", e), scn.case("c19-store", vec![Op::Search(q.clone())])); }
    }
}

// ---------------- C20: registry isolation ----------------
/// run one registry case on the real top-level API, comparing every live id's buffer after every operation with an
/// independent stand-alone store driven with that id's own history; returns false on the first discrepancy
fn reg_case_against_shadows(p: &mut ProbeReport, case: &Case, tag: &str) -> bool {
    // per id: (language, records, limit, markers, hits of the last search)
    let mut shadow: BTreeMap<usize, (String, Vec<(usize, String, usize)>, usize, (String, String), Vec<(usize, String)>)> = BTreeMap::new();
    let mut live: Vec<usize> = vec![];
    let mut ok = true;
    let res = guarded(|| {
        for (k, op) in case.ops.iter().enumerate() {
            match op {
                Op::RCreate(id, l) => { core::create_store(*id, make_lang(l)); live.push(*id); shadow.insert(*id, (l.clone(), vec![], core::DEFAULT_LIMIT, ("[".to_string(), "]".to_string()), vec![])); }
                Op::RDestroy(id) => { core::destroy_store(*id); live.retain(|x| x != id); shadow.remove(id); }
                Op::RClear(id) => { core::using_store(*id, |s| s.clear()); shadow.get_mut(id).unwrap().1.clear(); }
                Op::RMarkers(id, l, rr) => { core::highlight_with(*id, (l, rr)); shadow.get_mut(id).unwrap().3 = (l.clone(), rr.clone()); }
                Op::RLimit(id, n) => { core::set_limit(*id, *n); shadow.get_mut(id).unwrap().2 = *n; }
                Op::RAdd(id, rid, rating, t) => { core::add_record(*id, *rid, t, *rating); shadow.get_mut(id).unwrap().1.push((*rid, t.clone(), *rating)); }
                Op::RSearch(id, q) => { core::run_search(*id, q); let e = shadow.get_mut(id).unwrap(); e.4 = fresh_thread_search(&e.0, &e.1, e.2, &e.3, q); }
                _ => {}
            }
            for id in &live {
                let got: Vec<(usize, String)> = core::using_results(*id, |rs| rs.iter().map(|x| (x.id, x.title.clone())).collect());
                let want = &shadow[id].4;
                p.eval(&format!("{}|{}|{}", tag, k, id), !want.is_empty());
                if &got != want { p.fail(format!("after op #{} ({}) result buffer of store {} is {:?}, an independent store's last search gives {:?}", k, op.line(), id, got, want), Case { ops: case.ops[..=k].to_vec(), ..case.clone() }); ok = false; return; }
                let titles = crate::bridge::get_result_titles(*id);
                let parts: Vec<&str> = titles.split('\0').collect();
                if parts.len() != want.len() + 1 || parts.iter().zip(want.iter()).any(|(a, b)| *a != b.1) { p.fail(format!("NUL framing of store {} does not split back into its titles: {:?}", id, titles), Case { ops: case.ops[..=k].to_vec(), ..case.clone() }); ok = false; return; }
                let ids_b = crate::bridge::get_result_ids(*id);
                if ids_b != want.iter().map(|x| x.0).collect::<Vec<_>>() { p.fail(format!("get_result_ids of store {} is {:?}, expected the ids of {:?}", id, ids_b, want), Case { ops: case.ops[..=k].to_vec(), ..case.clone() }); ok = false; return; }
            }
        }
    });
    for id in live.drain(..) { let _ = guarded(|| core::destroy_store(id)); }
    if let Err(e) = res { p.fail(format!("registry operation panicked on a valid call sequence: {}", e), case.clone()); ok = false; }
    ok
}

fn p20(p: &mut ProbeReport, r: &mut Rng, budget: usize) {
    // small-scope exhaustive: every VALID call sequence up to a fixed length over a small alphabet on two ids
    // (an English store and a store without language holding the same word)
    {
        let (a, b) = (900001usize, 900002usize);
        let alphabet: Vec<Op> = vec![
            Op::RCreate(a, "en".into()), Op::RCreate(b, "none".into()), Op::RDestroy(a),
            Op::RAdd(a, 1, 5, "pink".into()), Op::RAdd(b, 2, 6, "pink".into()), Op::RAdd(a, 3, 7, "metal punk".into()),
            Op::RLimit(a, 25), Op::RLimit(a, 1), Op::RMarkers(a, "{".into(), "}".into()),
            Op::RSearch(a, "pank".into()), Op::RSearch(b, "pank".into()), Op::RSearch(a, "".into()),
            Op::RSearch(b, "pink".into()),   // a second query word: scratch state keyed by the last word gets rebuilt
        ];
        // from scratch up to 4 (thorough 5) calls; and up to 3 (thorough 4) calls after a fixed prelude in which both
        // stores exist and hold the same word (indices 0, 1, 3, 4 of the alphabet)
        let (len_scratch, len_prelude) = if budget > 20000 { (5, 8) } else { (4, 7) };
        let mut stack: Vec<Vec<usize>> = vec![vec![], vec![0, 1, 3, 4]];
        let mut total = 0usize;
        while let Some(seq) = stack.pop() {
            let maxlen = if seq.len() >= 4 && seq[..4] == [0, 1, 3, 4] { len_prelude } else { len_scratch };
            if seq.len() >= maxlen { continue; }
            for (ai, op) in alphabet.iter().enumerate() {
                // validity of appending `op`
                let mut live_a = false; let mut live_b = false;
                for x in &seq { match &alphabet[*x] { Op::RCreate(id, _) => { if *id == a { live_a = true } else { live_b = true } } Op::RDestroy(_) => live_a = false, _ => {} } }
                let valid = match op { Op::RCreate(id, _) => if *id == a { !live_a } else { !live_b }, Op::RDestroy(_) => live_a,
                    Op::RAdd(id, ..) | Op::RSearch(id, _) | Op::RLimit(id, _) | Op::RMarkers(id, ..) => if *id == a { live_a } else { live_b }, _ => true };
                if !valid { continue; }
                let mut next = seq.clone(); next.push(ai);
                // only run sequences that end in a search or a settings change after some search (others add nothing new)
                let has_search = next.iter().any(|x| matches!(alphabet[*x], Op::RSearch(..)));
                if has_search && !matches!(alphabet[ai], Op::RCreate(..)) {
                    total += 1;
                    let case = Case { name: "c20-exhaustive".into(), lang: "none".into(), stream: "probe", ops: next.iter().map(|x| alphabet[*x].clone()).collect() };
                    if !reg_case_against_shadows(p, &case, "x") { if p.failures.len() >= 4 { stack.clear(); break; } }
                }
                stack.push(next);
            }
        }
        p.notes.insert("exhaustive_sequences".into(), total);
    }
    // two ids created out of numeric order survive while forty other ids come and go (a registry that compacts or
    // re-packs its slots after many destroys must still route each id to its own store)
    {
        let (hi, lo) = (940_050usize, 940_007usize);
        let mut ops: Vec<Op> = vec![Op::RCreate(hi, "en".into()), Op::RCreate(lo, "none".into()),
            Op::RAdd(hi, 3, 30, "Hammer drill".into()), Op::RAdd(hi, 4, 20, "Claw hammer".into()), Op::RAdd(lo, 8, 10, "garden hose".into()),
            Op::RMarkers(hi, "<".into(), ">".into()), Op::RLimit(lo, 1)];
        for k in 0..40 { let id = 940_100 + (k * 7) % 40; ops.push(Op::RCreate(id, "none".into())); ops.push(Op::RAdd(id, 1, 1, "tape".into())); if k % 3 == 0 { ops.push(Op::RSearch(id, "ta".into())); } ops.push(Op::RDestroy(id)); if k % 8 == 7 { ops.push(Op::RSearch(hi, "hammer".into())); ops.push(Op::RSearch(lo, "hose".into())); } }
        ops.push(Op::RSearch(hi, "hammer".into())); ops.push(Op::RSearch(lo, "hose".into())); ops.push(Op::RSearch(hi, "hose".into()));
        let case = Case { name: "c20-many-destroys".into(), lang: "none".into(), stream: "probe", ops };
        let _ = reg_case_against_shadows(p, &case, "destroys");
    }
    // six live ids: one is searched, then changed (add / limit / markers), then the five others are searched in turn;
    // every buffer is compared with its own stand-alone store after every call (a bounded pool of "warm" buffers that
    // rebuilds evicted ones from the current state would show here)
    for (k, change) in [0usize, 1, 2].iter().enumerate() {
        let base = 930_000 + 10 * k;
        let mut ops: Vec<Op> = vec![];
        for j in 0..6 { ops.push(Op::RCreate(base + j, "none".into())); ops.push(Op::RAdd(base + j, 1, 50, "pink mug".into())); ops.push(Op::RAdd(base + j, 2, 40, format!("pink cup {}", j))); }
        for j in 0..6 { ops.push(Op::RSearch(base + j, "pink".into())); }
        match change { 0 => ops.push(Op::RAdd(base, 3, 60, "pink pot".into())), 1 => ops.push(Op::RLimit(base, 1)), _ => ops.push(Op::RMarkers(base, "<".into(), ">".into())) }
        for j in 1..6 { ops.push(Op::RSearch(base + j, "pin".into())); }
        ops.push(Op::RResults(base));
        for j in 1..6 { ops.push(Op::RSearch(base + j, "pink".into())); ops.push(Op::RSearch(base + j, "mug".into())); }
        ops.push(Op::RResults(base));
        let case = Case { name: "c20-six-ids".into(), lang: "none".into(), stream: "probe", ops };
        if !reg_case_against_shadows(p, &case, &format!("six{}", k)) && p.failures.len() >= 4 { break; }
    }
    // two ids whose stores each hold more records sharing a gram than ten times the limit, asked in turn (scratch that
    // is shared between indices but stamped per index would let one id's counters decide the other's candidate cut);
    // also after destroy + create of one of them
    for (k, code) in LANGS.iter().enumerate() {
        let v = vocab(code);
        let (a, b) = (910_000 + 2 * k, 910_001 + 2 * k);
        let wa: String = (0..5).map(|_| *r.pick(&v.letters)).collect();
        let wt: String = (0..5).map(|i| v.letters[(i * 3 + k + 7) % v.letters.len()]).collect();
        let mut ops = vec![Op::RCreate(a, code.to_string()), Op::RCreate(b, code.to_string())];
        for i in 0..12 { ops.push(Op::RAdd(a, i + 1, 100 + i, format!("{} {}", wa, v.word(r)))); }
        for i in 0..12 { ops.push(Op::RAdd(b, i + 1, 100 + i, format!("{} {}", v.word(r), v.word(r)))); }
        ops.push(Op::RAdd(b, 50, 5, format!("{} {}", wt, v.word(r))));
        ops.push(Op::RLimit(b, 1));
        for _ in 0..2 { ops.push(Op::RSearch(a, wa.clone())); ops.push(Op::RSearch(b, wt.clone())); }
        ops.push(Op::RDestroy(a)); ops.push(Op::RCreate(a, code.to_string()));
        for i in 0..12 { ops.push(Op::RAdd(a, i + 1, 100 + i, format!("{} {}", wa, v.word(r)))); }
        ops.push(Op::RSearch(a, wa.clone())); ops.push(Op::RSearch(b, wt.chars().take(4).collect()));
        let case = Case { name: "c20-two-dense-stores".into(), lang: code.to_string(), stream: "probe", ops };
        if case.ops.iter().any(|o| matches!(o, Op::RAdd(_, _, _, t) if has_sentinel(t))) { continue; }
        if !reg_case_against_shadows(p, &case, &format!("dense{}", k)) && p.failures.len() >= 4 { break; }
    }
    let budget = budget + p.evaluations;
    let mut round = 0;
    while p.evaluations < budget {
        round += 1;
        let cases = reg_cases(r, 1);
        if !reg_case_against_shadows(p, &cases[0], &format!("{}", round)) && p.failures.len() >= 4 { break; }
    }
}
