//! Input generation. Every choice derives from one `Rng`; a case replays from (seed, stream, index).
use crate::proto::*;
use crate::real::*;
use crate::util::*;

pub struct Vocab {
    pub lang: String,
    pub words: Vec<String>,
    pub func: Vec<String>,
    pub titles: Vec<String>,
    pub letters: Vec<char>,     // lower-case letters of the script incl. the language's accents
    pub accents: Vec<char>,
}

fn quoted_strings_in_block(src: &str, name: &str) -> Vec<String> {
    let start = match src.find(&format!("const {}:", name)) { Some(s) => s, None => return vec![] };
    let body = &src[start..];
    let end = body.find("];").unwrap_or(body.len());
    let mut out = vec![];
    for line in body[..end].lines().skip(1) {
        let line = line.split("//").next().unwrap_or("");
        let parts: Vec<&str> = line.split('"').collect();
        let mut i = 1;
        while i < parts.len() { out.push(parts[i].to_string()); i += 2; }
    }
    out
}

fn lang_file(code: &str) -> Option<&'static str> {
    match code { "de" => Some("german"), "en" => Some("english"), "es" => Some("spanish"), "fr" => Some("french"),
                 "pt" => Some("portuguese"), "ru" => Some("russian"), _ => None }
}

const EXTRA: &[(&str, &[&str])] = &[
    ("de", &["Mitteltöner", "Passstraße", "Straße", "Fußgängerübergang", "Mädchen", "schön", "Größe", "Tür", "Bücherregal", "Käse", "Äpfel", "Öl", "Übung", "weiß", "Kühlschrank", "Lautsprecher", "Fahrrad", "Werkzeug", "Gartenstuhl", "Kaffeemaschine", "STRASSE", "GROẞ"]),
    ("es", &["niño", "corazón", "canción", "teléfono", "pingüino", "mañana", "jardín", "café", "árbol", "último", "España", "cigüeña", "lámpara", "silla", "mesa", "zapatos", "camisa", "ordenador", "bicicleta", "ventana"]),
    ("fr", &["garçon", "élève", "forêt", "cœur", "œuvre", "naïve", "Noël", "château", "crème", "brûlée", "français", "où", "sœur", "hôtel", "fenêtre", "théâtre", "lumière", "chaise", "bouteille", "ordinateur", "ÆTHER", "Ÿ"]),
    ("pt", &["coração", "ação", "pão", "avó", "avô", "português", "lâmpada", "cadeira", "maçã", "irmã", "órgão", "às", "você", "três", "açúcar", "janela", "computador", "bicicleta", "água", "útil"]),
    ("ru", &["ёлка", "ещё", "йогурт", "стол", "стул", "окно", "книга", "машина", "велосипед", "компьютер", "лампа", "чайник", "Москва", "берёза", "мёд", "привет", "красный", "большой", "маленький", "тетрадь", "Ёж"]),
    ("en", &["wi-fi", "t-shirt", "usb-c", "mailbox", "yellow", "microbiology", "thesaurus", "router", "detector", "naïve", "O'Neil", "rock'n'roll", "AT&T", "co-op"]),
    ("none", &["wi-fi", "t-shirt", "usb-c", "mailbox", "yellow", "metal", "thesaurus", "router", "detector", "brown", "plush", "bear", "abc123", "4x4", "x"]),
];

pub fn vocab(code: &str) -> Vocab {
    let mut words: Vec<String> = vec![];
    let mut titles: Vec<String> = vec![];
    let mut func: Vec<String> = vec![];
    let mut accents: Vec<char> = vec![];
    // the language tables as the translator read them this run (build/lang_tables.txt); only if that file is missing
    // is the Rust text parsed here
    let tables = std::fs::read_to_string(std::env::var("VERIF_LANG_TABLES").unwrap_or_else(|_| "/verif/build/lang_tables.txt".to_string())).ok();
    let mut from_tables = false;
    if let Some(t) = &tables {
        let dec = |s: &str| -> String { s.split(',').filter_map(|x| x.trim().parse::<u32>().ok()).filter_map(char::from_u32).collect() };
        for line in t.lines() {
            let mut it = line.splitn(3, ' ');
            let (c, kind, rest) = (it.next().unwrap_or(""), it.next().unwrap_or(""), it.next().unwrap_or(""));
            if c != code { continue; }
            from_tables = true;
            match kind {
                "func" => { func = rest.split(';').filter(|x| !x.is_empty()).map(dec).collect(); }
                "accents" => { accents = dec(rest).chars().collect(); }
                _ => {}
            }
        }
    }
    if let (false, Some(f)) = (from_tables, lang_file(code)) {
        if let Ok(src) = std::fs::read_to_string(format!("/repo/rust/core/src/lang/lang_{}.rs", f)) {
            let cut = src.find("#[cfg(test)]").unwrap_or(src.len());
            let src = &src[..cut];
            func = quoted_strings_in_block(src, "FUNCTION_WORDS");
            for s in quoted_strings_in_block(src, "UTF_REDUCE_MAP").chunks(2) {
                if let Some(k) = s.get(0) { for c in k.chars() { if !accents.contains(&c) { accents.push(c); } } }
            }
            for s in quoted_strings_in_block(src, "UTF_COMPOSE_MAP").chunks(2) {
                if let Some(k) = s.get(1) { for c in k.chars() { if !accents.contains(&c) { accents.push(c); } } }
            }
        }
    }
    if code == "en" || code == "none" {
        if let Ok(s) = std::fs::read_to_string("/repo/datasets/top_1000_words_en.csv") {
            for w in s.lines() { let w = w.trim(); if !w.is_empty() && w.len() < 20 { words.push(w.to_string()); } }
        }
        if let Ok(s) = std::fs::read_to_string("/repo/datasets/e_commerce.json") {
            for line in s.lines() {
                if let Some(i) = line.find("\"title\": \"") {
                    let rest = &line[i + 10..];
                    if let Some(j) = rest.rfind('"') { let t = rest[..j].replace("\\\"", "\""); if t.chars().count() < 60 { titles.push(t); } }
                }
            }
        }
    }
    for (l, ws) in EXTRA { if *l == code { for w in *ws { words.push(w.to_string()); } } }
    // characters whose lower-case form is longer than one character (U+0130), ligatures, capital eszett, title-case digraphs
    for w in ["İstanbul", "DİYAR", "ﬁlter", "GROẞ", "ǅungla", "H₂O", "A۵۲s", "x²"] { words.push(w.to_string()); }
    if words.len() < 30 { for (l, ws) in EXTRA { if *l == "none" { for w in *ws { words.push(w.to_string()); } } } }
    let mut letters: Vec<char> = if code == "ru" { "абвгдежзийклмнопрстуфхцчшщъыьэюя".chars().collect() } else { "abcdefghijklmnopqrstuvwxyz".chars().collect() };
    for a in &accents { if a.is_lowercase() && !letters.contains(a) { letters.push(*a); } }
    Vocab { lang: code.to_string(), words, func, titles, letters, accents }
}

pub const SEPS: &[&str] = &[" ", " ", " ", "-", ", ", "  ", " & ", ". ", "\u{00A0}", "\u{2014}", "; ", "\t", "'", "/", " - ", "   ", " -- ", "  -  ", " ", " ", "\u{1f}", "\u{7f}", "\u{96}", "\u{2013}", "\u{2011}", "\u{2026}", "\u{0B}"];

impl Vocab {
    pub fn word(&self, r: &mut Rng) -> String {
        let k = r.below(20);
        if k < 2 && !self.func.is_empty() { return r.pick(&self.func).clone(); }
        if k == 2 {
            // synthetic word over the script, sometimes long enough to outgrow the initial buffers
            let n = if r.chance(1, 6) { r.range(18, 40) } else { r.range(1, 9) };
            return (0..n).map(|_| *r.pick(&self.letters)).collect();
        }
        if k == 3 { return format!("{}{}", r.pick(&self.words), r.below(100)); }
        if k == 4 || k == 5 {
            // inflected forms: a short stem plus a suffix the language's stemmer strips, so that stem < length
            let suffixes: &[&str] = match self.lang.as_str() {
                "en" => &["ing", "ings", "ed", "es", "ly", "ness", "ation", "ers", "ional"],
                "de" => &["en", "ung", "ungen", "heit", "lich", "er", "ern", "est"],
                "es" => &["ando", "iendo", "cion", "mente", "amos", "idades", "os"],
                "fr" => &["ement", "ation", "eux", "euse", "ions", "ait", "es"],
                "pt" => &["endo", "mente", "acao", "amos", "idade", "os", "eiras"],
                "ru" => &["ами", "ого", "ение", "ий", "ая", "ов", "ться"],
                _ => &["ing", "s"],
            };
            let stem: String = if r.chance(1, 2) { let w = r.pick(&self.words).clone(); w.chars().take(r.range(2, 4)).collect() } else { (0..r.range(2, 4)).map(|_| *r.pick(&self.letters)).collect() };
            return format!("{}{}", stem, r.pick_str(suffixes));
        }
        r.pick(&self.words).clone()
    }
    pub fn decorate(&self, r: &mut Rng, w: &str) -> String {
        match r.below(12) {
            0 => w.to_uppercase(),
            1 => { let mut c = w.chars(); match c.next() { Some(f) => f.to_uppercase().collect::<String>() + c.as_str(), None => String::new() } }
            2 => decompose(w),
            // capitals AND decomposed accents in one word (case mapping and composition interact)
            5 => decompose(&w.to_uppercase()),
            6 => { let mut c = w.chars(); match c.next() { Some(f) => decompose(&(f.to_uppercase().collect::<String>() + c.as_str())), None => String::new() } }
            // a combining mark after the last letter (decomposed accent the language may not compose): stripped from the word
            4 => format!("{}{}", w, r.pick(&['\u{301}', '\u{300}', '\u{308}', '\u{327}'])),
            // non-alphanumeric edge characters that are not separators: they stay in the split word and are stripped
            3 => { let (a, b) = *r.pick(&[("\"", "\""), ("", "++"), ("[", "]"), ("'", ""), ("", "%"), ("#", ""), ("*", "*"), ("$", "")]); format!("{}{}{}", a, w, b) }
            _ => w.to_string(),
        }
    }
    pub fn title(&self, r: &mut Rng) -> String {
        if !self.titles.is_empty() && r.chance(1, 3) { return r.pick(&self.titles).clone(); }
        // a title whose last word is a proper prefix of an earlier, longer word, optionally led by a function word
        // ("The Cartoon Car"): the greedy assignment and the short-partial-match filter interact here
        if r.chance(1, 14) {
            let w = self.word(r);
            let n = w.chars().count();
            if n >= 4 {
                let k = r.range(1, (n - 1) / 2 + 1);
                let pre: String = w.chars().take(k).collect();
                let lead = if !self.func.is_empty() && r.chance(2, 3) { format!("{} ", r.pick(&self.func)) } else { String::new() };
                // sometimes the LAST word is itself a function word that is a prefix of the leading one ("About vitamin A")
                if !lead.is_empty() && r.chance(1, 2) {
                    let f = lead.trim().to_string();
                    let shorter: Vec<&String> = self.func.iter().filter(|g| g.chars().count() * 2 < f.chars().count() && f.starts_with(g.as_str())).collect();
                    if !shorter.is_empty() { return format!("{}{} {}", lead, w, r.pick(&shorter)); }
                }
                return format!("{}{} {}", lead, w, pre);
            }
        }
        let n = match r.below(10) { 0 => 0, 1..=3 => 1, 4..=6 => 2, 7..=8 => 3, _ => r.range(4, 7) };
        let mut s = String::new();
        if r.chance(1, 10) { s.push_str(r.pick_str(SEPS)); }
        for i in 0..n {
            if i > 0 { s.push_str(r.pick_str(SEPS)); }
            let w = self.word(r);
            s.push_str(&self.decorate(r, &w));
        }
        if r.chance(1, 8) { s.push_str(r.pick_str(&["!", "...", " ", "?", ")", "\u{0}"])); }
        s
    }
}

/// canonical decomposition (base, mark) from the reference table generated from Python's `unicodedata`
/// (`tools/gen_canon.py`): independent of the language tables under test
pub fn decompose_char(c: char) -> Option<(char, char)> {
    let k = c as u32;
    crate::canon_table::CANON_PAIRS.binary_search_by(|e| e.0.cmp(&k)).ok().and_then(|i| {
        let e = crate::canon_table::CANON_PAIRS[i];
        Some((char::from_u32(e.1)?, char::from_u32(e.2)?))
    })
}

/// canonical composition of a (base, mark) pair, from the same reference table
pub fn compose_pair(b: char, m: char) -> Option<char> {
    crate::canon_table::CANON_PAIRS.iter().find(|e| e.1 == b as u32 && e.2 == m as u32).and_then(|e| char::from_u32(e.0))
}

/// what "accent sequences the language knows how to compose appear composed" means, without consulting the code
/// under test: one left-to-right pass; a (base, mark) pair whose canonical composition is a letter of the language's
/// inventory (the letters its tables mention) is replaced by that letter
pub fn ref_compose(inventory: &[char], s: &[char]) -> Vec<char> {
    let mut out = vec![];
    let mut i = 0;
    while i < s.len() {
        if i + 1 < s.len() { if let Some(c) = compose_pair(s[i], s[i + 1]) { if inventory.contains(&c) { out.push(c); i += 2; continue; } } }
        out.push(s[i]); i += 1;
    }
    out
}

pub fn decompose(w: &str) -> String {
    let mut s = String::new();
    for c in w.chars() { match decompose_char(c) { Some((b, m)) => { s.push(b); s.push(m); } None => s.push(c) } }
    s
}

/// the 12-symbol adversarial alphabet of the tokenizer streams (per language: its eszett/ligature/accent)
pub fn adversarial_alphabet(code: &str) -> Vec<char> {
    let special = match code { "de" => 'ß', "fr" => 'œ', "es" => 'ñ', "pt" => 'ã', "ru" => 'ё', _ => 'é' };
    let up = match code { "ru" => 'Ж', _ => 'B' };
    let low = match code { "ru" => 'а', _ => 'a' };
    // `alias` has the same low byte as `low` (a table indexed by a truncated scalar would confuse the two)
    let alias = match code { "ru" => '\u{630}', _ => '\u{161}' };
    vec![low, up, '1', ' ', '-', '\'', '\0', '\u{00A0}', '\u{0301}', special, 'ǅ', '🄰', alias]
}

// ---------- streams ----------

pub fn tok_exhaustive(code: &str, maxlen: usize, per_case: usize) -> Vec<Case> {
    let alpha = adversarial_alphabet(code);
    let mut all: Vec<String> = vec![String::new()];
    let mut frontier: Vec<String> = vec![String::new()];
    for _ in 0..maxlen {
        let mut next = vec![];
        for s in &frontier { for c in &alpha { let mut t = s.clone(); t.push(*c); next.push(t); } }
        all.extend(next.iter().cloned());
        frontier = next;
    }
    let mut cases = vec![];
    for (i, chunk) in all.chunks(per_case).enumerate() {
        let mut ops = vec![];
        for s in chunk { ops.push(Op::TokQ(s.clone())); ops.push(Op::TokR(s.clone())); }
        cases.push(Case { name: format!("tokx-{}-{}", code, i), lang: code.to_string(), stream: "B-tok-exhaustive", ops });
    }
    cases
}

pub fn random_unicode(r: &mut Rng, n: usize) -> String {
    let mut s = String::new();
    for _ in 0..n {
        let c = match r.below(12) {
            0 => std::char::from_u32(r.below(0x80) as u32),
            1 => std::char::from_u32(0x80 + r.below(0x180) as u32),
            2 => std::char::from_u32(0x300 + r.below(0x70) as u32),
            3 => std::char::from_u32(0x400 + r.below(0x100) as u32),
            4 => std::char::from_u32(0x2000 + r.below(0x70) as u32),
            5 => std::char::from_u32(0x1D400 + r.below(0x100) as u32),
            6 => std::char::from_u32(0x1F100 + r.below(0x100) as u32),
            7 => Some(*r.pick(&['ǅ', 'ǈ', 'ǋ', 'ǲ', 'ß', 'ẞ', 'İ', 'ı', 'ﬁ', 'ŉ', 'Σ', 'ς'])),
            8 => std::char::from_u32(r.below(0x110000) as u32),
            _ => Some(*r.pick(&['a', 'b', 'e', 'o', ' ', ' ', '-', '1', 'A', 'Z'])),
        };
        s.push(c.unwrap_or('x'));
    }
    s
}

pub fn tok_random(code: &str, r: &mut Rng, n: usize, per_case: usize) -> Vec<Case> {
    let v = vocab(code);
    let mut cases = vec![];
    let mut ops = vec![];
    // every inventory letter written decomposed as the only combining mark of the text (one per text), and every
    // combining mark the reference table knows after a plain letter
    for &c in &v.accents {
        if let Some((b, m)) = decompose_char(c) {
            let w = v.word(r);
            for s in [format!("{}{}{}", b, m, w), format!("{} {}{}", w, b, m)] { ops.push(Op::TokQ(s.clone())); ops.push(Op::TokR(s)); }
        }
    }
    if !ops.is_empty() { cases.push(Case { name: format!("tok-lone-mark-{}", code), lang: code.to_string(), stream: "AC-tok-lone-mark", ops: std::mem::take(&mut ops) }); }
    // characters whose lower-case or upper-case form has another length, non-ASCII digits, ligatures
    for w in ["İstanbul", "İ", "aİb", "İİ", "i̇", "ﬁ", "ﬁlter", "ẞ", "GROẞE", "ǅ", "ŉ", "ǰ", "ΐ", "H₂O", "₂", "x²", "A۵۲s", "２x", "Ⅻ", "ⅻ", "ß", "ſ", "K"] {
        for s in [w.to_string(), format!("ab {} cd", w), format!("{}a", w)] { ops.push(Op::TokQ(s.clone())); ops.push(Op::TokR(s)); }
    }
    cases.push(Case { name: format!("tok-special-{}", code), lang: code.to_string(), stream: "AC-tok-special-case-forms", ops: std::mem::take(&mut ops) });
    // texts typed one character at a time (each text extends the previous one; a decomposed accent arrives one
    // keystroke after its base letter): first as queries, then as titles
    for round in 0..3 {
        let w: String = { let mut t = decompose(&v.title(r)); if t.chars().count() < 3 || round == 0 { t = decompose(&format!("{} {}", v.word(r), v.accents.first().map(|c| c.to_string()).unwrap_or_default())); } t };
        let cs: Vec<char> = w.chars().take(16).collect();
        for k in 1..=cs.len() { ops.push(Op::TokQ(cs[..k].iter().collect())); }
        for k in 1..=cs.len() { ops.push(Op::TokR(cs[..k].iter().collect())); }
    }
    cases.push(Case { name: format!("tok-typed-{}", code), lang: code.to_string(), stream: "AC-tok-typed", ops: std::mem::take(&mut ops) });
    for i in 0..n {
        let s = match r.below(4) { 0 => { let k = r.range(0, 12); random_unicode(r, k) } _ => v.title(r) };
        ops.push(Op::TokQ(s.clone()));
        ops.push(Op::TokR(s));
        if ops.len() >= per_case * 2 || i + 1 == n {
            cases.push(Case { name: format!("tokr-{}-{}", code, cases.len()), lang: code.to_string(), stream: "AC-tok-random", ops: std::mem::take(&mut ops) });
        }
    }
    cases
}

pub fn trig_cases(r: &mut Rng, n: usize) -> Vec<Case> {
    let mut ops = vec![];
    for len in 0..6 { ops.push(Op::Trig((0..len).map(|i| (b'a' + i as u8) as char).collect())); }
    for _ in 0..n { let k = r.range(0, 12); ops.push(Op::Trig(random_unicode(r, k).chars().collect())); }
    vec![Case { name: "trig".to_string(), lang: "none".to_string(), stream: "trig", ops }]
}

fn small_words(alpha: &[char], maxlen: usize) -> Vec<Vec<char>> {
    let mut all: Vec<Vec<char>> = vec![vec![]];
    let mut frontier: Vec<Vec<char>> = vec![vec![]];
    for _ in 0..maxlen {
        let mut next = vec![];
        for s in &frontier { for c in alpha { let mut t = s.clone(); t.push(*c); next.push(t); } }
        all.extend(next.iter().cloned());
        frontier = next;
    }
    all
}

pub fn jacc_cases(r: &mut Rng, exhaustive_len: usize, random_n: usize) -> Vec<Case> {
    let mut cases = vec![];
    let words = small_words(&['a', 'b', 'c', 'd'], exhaustive_len);
    let mut ops = vec![];
    for a in &words { for b in &words { ops.push(Op::Jacc(a.clone(), b.clone())); } }
    r.shuffle(&mut ops);
    for (i, ch) in ops.chunks(2000).enumerate() {
        cases.push(Case { name: format!("jaccx-{}", i), lang: "none".to_string(), stream: "jacc-exhaustive", ops: ch.to_vec() });
    }
    let mut ops = vec![];
    let alpha: Vec<char> = "abcdefghijklmnopqrstuvwxyz0123456789éßñ".chars().collect();
    for _ in 0..random_n {
        let big = r.chance(1, 3);
        let la = if big { r.range(15, 60) } else { r.range(0, 8) };
        let lb = if r.chance(1, 3) { r.range(15, 60) } else { r.range(0, 8) };
        let k = r.range(1, alpha.len());
        let a: Vec<char> = (0..la).map(|_| alpha[r.below(k)]).collect();
        let b: Vec<char> = if r.chance(1, 5) { let mut b = a.clone(); r.shuffle(&mut b); b } else { (0..lb).map(|_| alpha[r.below(k)]).collect() };
        ops.push(Op::Jacc(a, b));
    }
    for (i, ch) in ops.chunks(500).enumerate() {
        cases.push(Case { name: format!("jaccr-{}", i), lang: "none".to_string(), stream: "jacc-random-long", ops: ch.to_vec() });
    }
    // growth boundaries of the two per-instance buffers: on a fresh instance a short pair that leaves the two buffers at
    // different lengths (d more distinct items on one side), then pairs whose lengths sit on either side of the
    // initial capacity and of its doublings
    // many distinct items on one side (positions beyond 31 / 63 in the sorted set), few on the other, sharing the largest
    {
        let wide = |n: usize| -> Vec<char> { (0..n).filter_map(|i| char::from_u32(0x100 + 3 * i as u32)).collect() };
        let mut ops = vec![];
        for n in [31usize, 32, 33, 34, 40, 63, 64, 65, 70] {
            let big = wide(n);
            let absent = |i: usize| char::from_u32(0x100 + 3 * i as u32 + 1).unwrap_or('a');
            for small in [vec![big[n - 1]], vec![big[n - 1], big[0]], big[n - 5..].to_vec(), vec![big[n / 2], big[n - 1], 'a'], big[1..n.min(33)].to_vec(),
                          vec![absent(3), big[4]], vec![absent(n - 2), big[n - 1]], vec![big[0], absent(n / 2), big[n / 2 + 1]], vec![absent(0), big[1], absent(5), big[6]]] {
                ops.push(Op::Jacc(big.clone(), small.clone()));
                ops.push(Op::Jacc(small.clone(), big.clone()));
            }
        }
        cases.push(Case { name: "jaccw".to_string(), lang: "none".to_string(), stream: "jacc-many-distinct", ops });
    }
    let distinct = |n: usize, off: usize| -> Vec<char> { (0..n).map(|i| alpha[(i + off) % alpha.len()]).collect() };
    let mut k = 0;
    for d in 0..4usize {
        for n in [20usize, 21, 22, 24, 40, 41, 42, 45, 80, 81] {
            for flip in [false, true] {
                let (s1, s2) = (distinct(3 + d, 0), distinct(3, 1));
                let (l1, l2) = (distinct(n, 2), distinct(n + d, 5));
                let mut ops = vec![];
                ops.push(if flip { Op::Jacc(s2.clone(), s1.clone()) } else { Op::Jacc(s1.clone(), s2.clone()) });
                ops.push(Op::Jacc(l1.clone(), l1.clone()));
                ops.push(if flip { Op::Jacc(l2.clone(), l1.clone()) } else { Op::Jacc(l1.clone(), l2.clone()) });
                ops.push(Op::Jacc(s1.clone(), l2.clone()));
                cases.push(Case { name: format!("jaccg-{}", k), lang: "none".to_string(), stream: "jacc-growth-boundaries", ops });
                k += 1;
            }
        }
    }
    cases
}

/// symbols for the distance streams: (char, class code)
const DSYMS: &[(char, u32)] = &[('a', 7), ('e', 7), ('b', 6), ('c', 6), ('1', 4), ('x', 0), ('-', 4), ('k', 6), ('\u{16B}', 7), ('\u{1006B}', 0)];
/// characters that collide when a scalar is truncated to 8 or 16 bits (`k` = U+006B, `ū` = U+016B, U+1006B), plus `b`
const ALIAS_SYMS: &[(char, u32)] = &[('k', 6), ('\u{16B}', 7), ('b', 6), ('\u{1006B}', 0)];

pub fn dist_cases(r: &mut Rng, exhaustive_len: usize, random_n: usize) -> Vec<Case> {
    let mut cases = vec![];
    let syms: Vec<char> = DSYMS.iter().take(5).map(|e| e.0).collect();
    let cls = |w: &Vec<char>| -> Vec<u32> { w.iter().map(|c| DSYMS.iter().find(|e| e.0 == *c).map(|e| e.1).unwrap_or(0)).collect() };
    let words = small_words(&syms, exhaustive_len);
    let mut ops = vec![];
    for a in &words { for b in &words { ops.push(Op::Dist(a.clone(), cls(a), b.clone(), cls(b))); } }
    r.shuffle(&mut ops);
    for (i, ch) in ops.chunks(1500).enumerate() {
        cases.push(Case { name: format!("distx-{}", i), lang: "none".to_string(), stream: "dist-exhaustive", ops: ch.to_vec() });
    }
    // exhaustive pairs over characters that alias under truncation (a table indexed by a narrowed scalar would mix them up)
    {
        let asyms: Vec<char> = ALIAS_SYMS.iter().map(|e| e.0).collect();
        let acls = |w: &Vec<char>| -> Vec<u32> { w.iter().map(|c| ALIAS_SYMS.iter().find(|e| e.0 == *c).map(|e| e.1).unwrap_or(0)).collect() };
        let awords = small_words(&asyms, 3.min(exhaustive_len + 1));
        let mut ops = vec![];
        for a in &awords { for b in &awords { ops.push(Op::Dist(a.clone(), acls(a), b.clone(), acls(b))); } }
        r.shuffle(&mut ops);
        for (i, ch) in ops.chunks(1500).enumerate() {
            cases.push(Case { name: format!("dista-{}", i), lang: "none".to_string(), stream: "dist-exhaustive-aliasing", ops: ch.to_vec() });
        }
    }
    // scalars on either side of block / encoding boundaries (a dense table or a narrowed key sized by such a boundary
    // is one slot short exactly there)
    {
        let bsyms: Vec<char> = ['\u{7f}', '\u{80}', '\u{ff}', '\u{100}', '\u{4ff}', '\u{500}', '\u{7ff}', '\u{800}', '\u{ffff}', '\u{10000}', '\u{10ffff}', 'a'].to_vec();
        let mut ops = vec![];
        for a in &bsyms { for b in &bsyms { for c in ['a', *a] {
            let (w1, w2) = (vec![*a, 'x', *b], vec![*b, c, 'x']);
            ops.push(Op::Dist(w1.clone(), vec![0; 3], w2.clone(), vec![0; 3]));
        } } }
        cases.push(Case { name: "distb".to_string(), lang: "none".to_string(), stream: "dist-boundary-scalars", ops });
    }
    // very long words (matrix dimensions beyond 256 and back to short words)
    {
        let mut ops = vec![];
        let w = |r: &mut Rng, n: usize| -> Vec<char> { (0..n).map(|_| DSYMS[r.below(4)].0).collect() };
        for (la, lb) in [(3usize, 4usize), (175, 180), (5, 5), (180, 175), (260, 6), (6, 6), (90, 260), (4, 3)] {
            let (a, b) = (w(r, la), w(r, lb));
            ops.push(Op::Dist(a.clone(), cls(&a), b.clone(), cls(&b)));
        }
        cases.push(Case { name: "distvl".to_string(), lang: "none".to_string(), stream: "dist-very-long", ops });
    }
    // long / short alternation, growth beyond the initial capacity, shuffled call order
    let mut ops = vec![];
    for _ in 0..random_n {
        let la = if r.chance(1, 2) { r.range(18, 70) } else { r.range(0, 7) };
        let lb = if r.chance(1, 2) { r.range(18, 70) } else { r.range(0, 7) };
        let k = r.range(2, DSYMS.len());
        let a: Vec<char> = (0..la).map(|_| DSYMS[r.below(k)].0).collect();
        let b: Vec<char> = if r.chance(1, 3) && !a.is_empty() {
            let mut b = a.clone();
            for _ in 0..r.range(1, 3) {
                if b.is_empty() { break; }
                let p = r.below(b.len());
                match r.below(4) { 0 => { b.remove(p); } 1 => { b.insert(p, DSYMS[r.below(k)].0); } 2 => { b[p] = DSYMS[r.below(k)].0; } _ => { if p + 1 < b.len() { b.swap(p, p + 1); } } }
            }
            b
        } else { (0..lb).map(|_| DSYMS[r.below(k)].0).collect() };
        ops.push(Op::Dist(a.clone(), cls(&a), b.clone(), cls(&b)));
    }
    for (i, ch) in ops.chunks(60).enumerate() {
        cases.push(Case { name: format!("distr-{}", i), lang: "none".to_string(), stream: "D-dist-long-short", ops: ch.to_vec() });
    }
    // exact fit: words whose length is exactly (or one off) the current matrix dimension minus the two border
    // rows, on a fresh instance and after each of several growth steps (the dimension is tracked with the source's
    // growth rule; the observation line carries the real dimension, so a wrong guess shows up as a divergence)
    for i in 0..(random_n / 60).max(4).min(12) {
        let mut ops = vec![];
        let mut size = 22usize;
        let k = r.range(2, DSYMS.len());
        let word = |r: &mut Rng, n: usize| -> Vec<char> { (0..n).map(|_| DSYMS[r.below(k)].0).collect() };
        for _ in 0..4 {
            let fit = size - 2;
            let (s1, s2, s3) = (r.range(1, 6), r.range(1, 6), r.range(1, 6));
            for (la, lb) in [(fit, s1), (s2, fit), (fit, fit), (fit - 1, fit), (fit, fit - 1), (fit, 0), (0, fit), (s3, fit - 1)] {
                let (a, b) = (word(r, la), word(r, lb));
                ops.push(Op::Dist(a.clone(), cls(&a), b.clone(), cls(&b)));
            }
            // the first growth of half of the cases is by exactly one character beyond the fit (either side)
            let n = if i % 2 == 0 { fit + 1 } else { fit + 1 + r.below(6) };
            let small = r.range(0, 6);
            let (a, b) = if (i / 2) % 2 == 0 { (word(r, n), word(r, small)) } else { (word(r, small), word(r, n)) };
            ops.push(Op::Dist(a.clone(), cls(&a), b.clone(), cls(&b)));
            size = (n + 2) + (n + 2) / 2;
            if size > 130 { break; }
        }
        cases.push(Case { name: format!("distfit-{}", i), lang: "none".to_string(), stream: "D-dist-exact-fit", ops });
    }
    cases
}

pub fn splitty_cases(tmax: u64, lmax: usize) -> Vec<Case> {
    let mut ops = vec![];
    let mut t = 0;
    while t <= tmax { for a in 0..=lmax { for b in 0..=lmax { ops.push(Op::SplitTy(t, a, b)); } } t += 5; }
    ops.chunks(5000).enumerate().map(|(i, ch)| Case { name: format!("splitty-{}", i), lang: "none".to_string(), stream: "splitty-exhaustive", ops: ch.to_vec() }).collect()
}

/// one random edit of a word (the four kinds), or a prefix, or a split / join variant of a title
pub fn mutate_word(v: &Vocab, r: &mut Rng, w: &str) -> String {
    let mut cs: Vec<char> = w.chars().collect();
    if cs.is_empty() { return String::new(); }
    match r.below(8) {
        0 => { let p = r.below(cs.len()); cs.remove(p); }
        1 => { let p = r.below(cs.len() + 1); cs.insert(p, *r.pick(&v.letters)); }
        2 => { let p = r.below(cs.len()); cs[p] = *r.pick(&v.letters); }
        3 => { if cs.len() > 1 { let p = r.below(cs.len() - 1); cs.swap(p, p + 1); } }
        4 | 5 => { let k = r.range(1, cs.len()); cs.truncate(k); }
        6 => { if cs.len() > 1 { let p = r.range(1, cs.len() - 1); cs.insert(p, ' '); } }
        _ => {}
    }
    cs.into_iter().collect()
}

pub fn query_for(v: &Vocab, r: &mut Rng, title: &str) -> String {
    let words: Vec<&str> = title.split(|c: char| c.is_whitespace() || "-,.;&!?()".contains(c)).filter(|w| !w.is_empty()).collect();
    if words.is_empty() || r.chance(1, 12) { return v.title(r); }
    let mut parts: Vec<String> = vec![];
    match r.below(8) {
        0 => { parts = words.iter().map(|w| w.to_string()).collect(); }                   // whole title
        1 => { parts = words.iter().rev().map(|w| w.to_string()).collect(); }             // reversed
        2 => { parts.push(words.concat()); }                                              // run together
        3 => { let i = r.below(words.len()); parts.push(mutate_word(v, r, words[i])); }
        4 => { if words.len() > 1 { let i = r.below(words.len() - 1); parts.push(format!("{}{}", words[i], words[i + 1])); } else { parts.push(words[0].to_string()); } }
        5 => {
            // a title word followed by a short tail of cheap characters (digits, a doubled letter, a vowel):
            // drives the joined-record match to end inside or just after the gap
            let i = r.below(words.len());
            let mut w = words[i].to_string();
            let n = r.range(1, 4);
            let c = *r.pick(&v.letters);
            for k in 0..n { match r.below(4) { 0 => w.push('1'), 1 => w.push(c), 2 => w.push(*r.pick(&['a', 'e', 'o'])), _ => w.push(if k == 0 { '0' } else { c }) } }
            parts.push(w);
        }
        _ => {
            let n = r.range(1, words.len().min(3));
            let start = r.below(words.len() - n + 1);
            for i in 0..n { let w = words[start + i]; parts.push(if r.chance(1, 2) { mutate_word(v, r, w) } else { w.to_string() }); }
            if r.chance(1, 6) { parts.push(v.word(r)); }
        }
    }
    let mut q = parts.join(r.pick_str(&[" ", " ", "-", "  "]));
    if r.chance(1, 6) { q.push(' '); }
    if r.chance(1, 10) { q = v.decorate(r, &q); }
    q
}

pub fn match_cases(code: &str, r: &mut Rng, n: usize) -> Vec<Case> {
    let v = vocab(code);
    let mut cases = vec![];
    let mut ops = vec![];
    for i in 0..n {
        let title = v.title(r);
        let query = query_for(&v, r, &title);
        ops.push(Op::Tm { title: title.clone(), rating: r.below(1000), query: query.clone() });
        // word_match on every (record word, query word) pair incl. joined variants
        let nr = title.split_whitespace().count().min(4) + 1;
        let nq = query.split_whitespace().count().min(3) + 1;
        for ri in 0..nr { for qi in 0..nq {
            let (jr, jq) = match r.below(4) { 0 => (true, false), 1 => (false, true), _ => (false, false) };
            ops.push(Op::Wm { title: title.clone(), query: query.clone(), ri, qi, joinr: jr, joinq: jq });
        } }
        if ops.len() > 400 || i + 1 == n {
            cases.push(Case { name: format!("match-{}-{}", code, cases.len()), lang: code.to_string(), stream: "AE-match", ops: std::mem::take(&mut ops) });
        }
    }
    cases
}

pub struct StoreGenOpts { pub max_records: usize, pub ops: usize, pub ties: bool, pub small_alphabet: bool, pub cache_stress: bool }

pub fn store_case(code: &str, v: &Vocab, r: &mut Rng, name: String, o: &StoreGenOpts) -> Case {
    let mut ops = vec![Op::New];
    let mut titles: Vec<String> = vec![];
    let mut next_id = 1usize;
    let mut used_ratings: Vec<usize> = vec![];
    let n0 = r.range(0, o.max_records);
    if r.chance(1, 2) { ops.push(Op::Limit(match r.below(6) { 0 => 0, 1 => 1, 2 => 2, 3 => 3, 4 => n0 + 1, _ => 10 })); }
    let mut mk_title = |r: &mut Rng, titles: &Vec<String>| -> String {
        if o.small_alphabet {
            let n = r.range(0, 3);
            (0..n).map(|_| { let k = r.range(1, 4); (0..k).map(|_| *r.pick(&['a', 'b', 'c', '\u{10330}'])).collect::<String>() }).collect::<Vec<_>>().join(" ")
        } else if o.ties && !titles.is_empty() && r.chance(1, 3) { r.pick(titles).clone() } else { v.title(r) }
    };
    // rating scheme of the case: cache-stress cases also load records sorted by rating (bulk loading), both ways
    let rmode = if o.cache_stress { r.below(4) } else { 0 };
    let mut rating = |r: &mut Rng, used: &mut Vec<usize>| -> usize {
        match rmode {
            1 => { let x = 1_000_000usize.saturating_sub(used.len() * 10 + r.below(5)); used.push(x); x }   // descending
            2 => { let x = used.len() * 10 + r.below(5); used.push(x); x }                                     // ascending
            _ => if o.ties { r.below(4) } else { loop { let x = r.below(1 << 20); if !used.contains(&x) { used.push(x); return x; } } }
        }
    };
    let (lim_small, lim_big) = (r.below(n0 + 1), n0 + 1 + r.below(6));
    for _ in 0..n0 {
        let t = mk_title(r, &titles);
        titles.push(t.clone());
        ops.push(Op::Add(if o.ties && r.chance(1, 4) { 1 } else { next_id }, rating(r, &mut used_ratings), t));
        next_id += 1;
    }
    for _ in 0..o.ops {
        if o.cache_stress {
            // histories that exercise derived state: empty-query searches interleaved with limit moves
            // (toggling among a few values so that an earlier limit comes back), adds, clears
            let lims = [ lim_small, lim_big, lim_small, lim_big, titles.len().saturating_sub(1), titles.len() + 2, 10 ];
            match r.below(20) {
                0..=6 => ops.push(Op::Search(r.pick(&["", " ", "-"]).to_string())),
                7..=11 => ops.push(Op::Limit(if r.chance(3, 4) { *r.pick(&lims) } else { r.below(titles.len() + 3) })),
                12..=15 => { let t = mk_title(r, &titles); titles.push(t.clone()); ops.push(Op::Add(next_id, rating(r, &mut used_ratings), t)); next_id += 1; }
                16 => { ops.push(Op::Clear); titles.clear(); }
                _ => { let q = if titles.is_empty() { v.title(r) } else { let t = r.pick(&titles).clone(); query_for(v, r, &t) }; ops.push(Op::Search(q)); }
            }
            continue;
        }
        match r.below(16) {
            0 => { let t = mk_title(r, &titles); titles.push(t.clone()); ops.push(Op::Add(next_id, rating(r, &mut used_ratings), t)); next_id += 1; }
            1 => { if r.chance(1, 3) { ops.push(Op::Clear); titles.clear(); } }
            2 => ops.push(Op::Limit(match r.below(7) { 0 => 0, 1 => 1, 2 => 2, 3 => 3, 4 => titles.len() + 1, 5 => titles.len().max(1) - 1 + 1, _ => 10 })),
            3 => {
                let (l, rr) = r.pick(&[("[", "]"), ("", ""), ("<b>", "</b>"), ("\u{e000}", "\u{e001}"), ("a", "b"), ("\0", "\0x"), ("[", "}"), ("<b>", "]"), ("{", "]")]).clone();
                ops.push(Op::Markers(l.to_string(), rr.to_string()));
                // the same query again right after a marker change (derived state keyed by the query must not go stale)
                if let Some(Op::Search(q)) = ops.iter().rev().find(|o| matches!(o, Op::Search(_))).cloned() { if r.chance(2, 3) { ops.push(Op::Search(q)); } }
            }
            4 | 5 => ops.push(Op::Search(r.pick(&["", " ", "-", "\u{a0}", "!?"]).to_string())),
            6 => { let q = if titles.is_empty() { v.title(r) } else { let t = r.pick(&titles).clone(); query_for(v, r, &t) }; ops.push(Op::Prepare(q, r.pick(&[0usize, 1, 2, 3, 10]).clone())); }
            _ => {
                let q = if o.small_alphabet { let k = r.range(1, 3); (0..k).map(|_| *r.pick(&['a', 'b', 'c', ' ', '\u{10330}'])).collect() }
                        else if titles.is_empty() { v.title(r) } else { let t = r.pick(&titles).clone(); query_for(v, r, &t) };
                ops.push(Op::Search(q));
            }
        }
    }
    Case { name, lang: code.to_string(), stream: if o.cache_stress { "F-store-cache-stress" } else if o.ties { "G-store-ties" } else if o.small_alphabet { "H-store-dense" } else { "F-store-ops" }, ops }
}

/// many records that are all hits, limit 9..12, so that the bounded selection compacts its buffer repeatedly
pub fn big_hit_case(code: &str, r: &mut Rng, name: String) -> Case {
    let limit = r.range(9, 12);
    let n = r.range(2 * limit - 1, 3 * limit + 2);
    let mut ops = vec![Op::New, Op::Limit(limit)];
    let mut used: Vec<usize> = vec![];
    for k in 0..n {
        let rating = loop { let x = r.below(100000); if !used.contains(&x) { used.push(x); break x; } };
        let w: String = (0..r.range(3, 6)).map(|_| (b'a' + r.below(26) as u8) as char).collect();
        ops.push(Op::Add(k + 1, rating, format!("{} desk lamp", w)));
    }
    for q in &["lamp", "desk lam", "desk", ""] { ops.push(Op::Search(q.to_string())); }
    ops.push(Op::Limit(limit + 3));
    ops.push(Op::Search("lamp".to_string()));
    Case { name, lang: code.to_string(), stream: "H-store-big-hit-lists", ops }
}

/// stores in which some titles tokenise to no word at all ("", "???", " - "), queried for the records added after them:
/// the record vector, the index length and the counter vector must stay in step
pub fn blank_title_cases(code: &str, r: &mut Rng, n: usize) -> Vec<Case> {
    let v = vocab(code);
    let mut cases = vec![];
    for i in 0..n {
        let mut ops = vec![Op::New];
        let mut words: Vec<String> = vec![];
        let total = r.range(2, 9);
        for k in 0..total {
            if r.chance(1, 3) { ops.push(Op::Add(k + 1, r.below(1000), r.pick(&["", "???", " - ", "...", "\u{a0}", "'"]).to_string())); }
            else { let w = v.word(r); words.push(w.clone()); ops.push(Op::Add(k + 1, r.below(1000), w)); }
            if r.chance(1, 3) { if let Some(w) = words.last() { ops.push(Op::Search(w.clone())); ops.push(Op::Prepare(w.clone(), 3)); } }
        }
        for w in words.iter().rev().take(3) { ops.push(Op::Search(w.clone())); ops.push(Op::Prepare(w.clone(), 1)); }
        ops.push(Op::Search("".to_string()));
        cases.push(Case { name: format!("blank-{}-{}", code, i), lang: code.to_string(), stream: "F-store-blank-titles", ops });
    }
    cases
}

/// a store of close relatives of one word (the word, extensions, one-edit neighbours, a prefix) in random order,
/// asked with the word plus / minus a letter: scratch state left by one candidate meets a candidate that resembles it
pub fn relatives_case(code: &str, v: &Vocab, r: &mut Rng, name: String) -> Case {
    let small: Vec<char> = if code == "ru" { vec!['а', 'б', 'в'] } else { vec!['a', 'b', 'c'] };
    let mut base: Vec<char> = if r.chance(1, 2) { (0..r.range(2, 5)).map(|_| *r.pick(&small)).collect() } else { v.word(r).chars().take(r.range(3, 6)).collect() };
    if base.is_empty() { base = vec![small[0], small[1]]; }
    let letter = |r: &mut Rng| if r.chance(1, 2) { *r.pick(&small) } else { *r.pick(&v.letters) };
    let ext = |r: &mut Rng, w: &Vec<char>, k: usize| { let mut x = w.clone(); for _ in 0..k { x.push(letter(r)); } x };
    let edit = |r: &mut Rng, w: &Vec<char>| { let mut x = w.clone(); let i = r.below(x.len()); match r.below(3) { 0 => { x[i] = letter(r); } 1 => { x.insert(i, letter(r)); } _ => { if x.len() > 1 { x.remove(i); } } } x };
    let mut family: Vec<Vec<char>> = vec![base.clone(), ext(r, &base, 1), ext(r, &base, 2), ext(r, &base, 3), edit(r, &base), base[..base.len() - 1].to_vec()];
    let e2 = ext(r, &base, 2); family.push(edit(r, &e2));
    family.retain(|w| !w.is_empty());
    r.shuffle(&mut family);
    let mut ops = vec![Op::New, Op::Limit(10)];
    let n = r.range(2, 5).min(family.len());
    for (i, w) in family.iter().take(n).enumerate() {
        let t: String = w.iter().collect();
        ops.push(Op::Add(i + 1, 1000 - 7 * i, if r.chance(1, 4) { format!("{} {}", t, v.word(r)) } else { t }));
    }
    let e1 = ext(r, &base, 1);
    for qv in [ext(r, &base, 1), base.clone(), edit(r, &base), ext(r, &base, 2), edit(r, &e1)] { ops.push(Op::Search(qv.iter().collect())); }
    Case { name, lang: code.to_string(), stream: "F-store-relatives", ops }
}

/// one record whose title shares more than 256 distinct grams with the query that types it verbatim (counters,
/// candidate selection and match vectors far beyond their everyday sizes), next to two ordinary records
pub fn long_title_case(code: &str, v: &Vocab, r: &mut Rng, name: String, shape: usize) -> Case {
    // either few long words or many (34–45) short ones
    // shape 0: few long words; 1: 34–45 short words; 2: 66–130 short words
    let many = shape > 0;
    let nwords = match shape { 2 => r.range(66, 130), 1 => r.range(34, 45), _ => r.range(17, 22) };
    let title: String = (0..nwords).map(|_| { let l = if many { r.range(6, 9) } else { r.range(14, 18) }; (0..l).map(|_| *r.pick(&v.letters)).collect::<String>() }).collect::<Vec<_>>().join(" ");
    let mut ops = vec![Op::New, Op::Limit(10), Op::Add(1, 5, v.title(r)), Op::Add(2, 9, title.clone()), Op::Add(3, 7, v.title(r))];
    ops.push(Op::Search(title.clone()));
    ops.push(Op::Prepare(title.clone(), 10));
    let half: String = title.chars().take(title.chars().count() / 2).collect();
    ops.push(Op::Search(half));
    // single words of the long title, early and late ones
    let words: Vec<&str> = title.split(' ').collect();
    for k in [0usize, 31, 32, 63, 64, 65, words.len() - 1] { if k < words.len() { ops.push(Op::Search(words[k].to_string())); } }
    ops.push(Op::Search(String::new()));
    Case { name, lang: code.to_string(), stream: "F-store-long-title", ops }
}

/// a typing session: a few records, then one search per keystroke while a title (or a misspelling of one of its
/// words) is typed, then the same with another word — what a negative or positive cache keyed by prefixes would meet
pub fn typing_case(code: &str, v: &Vocab, r: &mut Rng, name: String) -> Case {
    let mut ops = vec![Op::New, Op::Limit(*r.pick(&[3usize, 10]))];
    let titles: Vec<String> = (0..r.range(2, 5)).map(|_| v.title(r)).collect();
    for (i, t) in titles.iter().enumerate() { ops.push(Op::Add(i + 1, 100 + 7 * i, t.clone())); }
    for _ in 0..2 {
        let t = r.pick(&titles).clone();
        let mut q: Vec<char> = if r.chance(1, 2) { t.chars().take(14).collect() } else { query_for(v, r, &t).chars().collect() };
        // sometimes the typo comes early: the first keystrokes then match nothing
        if q.len() >= 4 && r.chance(1, 2) { let j = r.below(2); q.swap(j, j + 1); }
        for k in 1..=q.len().min(12) { ops.push(Op::Search(q[..k].iter().collect())); }
        ops.push(Op::Search(format!("{} ", q.iter().collect::<String>())));
    }
    // a record arrives in the middle of a session: a word is typed, a record with an unrelated title is added, and
    // the user goes on typing that new title's first word after a space
    {
        let t = r.pick(&titles).clone();
        let first: String = t.split_whitespace().next().unwrap_or("a").chars().take(8).collect();
        for k in 1..=first.chars().count() { ops.push(Op::Search(first.chars().take(k).collect())); }
        let fresh = format!("{} {}", v.word(r), v.word(r));
        ops.push(Op::Add(900, 3, fresh.clone()));
        let next: Vec<char> = fresh.chars().take(6).collect();
        for k in 1..=next.len() { ops.push(Op::Search(format!("{} {}", first, next[..k].iter().collect::<String>()))); }
    }
    Case { name, lang: code.to_string(), stream: "F-store-typing", ops }
}

/// titles and queries that repeat a word or use two words with a common prefix ("duran duran", "metal metallic"):
/// the query's grams are de-duplicated across its words, so gram counts understate what the matcher can score;
/// asked at limit 1 and at limit 10
pub fn repeated_words_case(code: &str, v: &Vocab, r: &mut Rng, name: String) -> Case {
    let w: String = loop { let w = v.word(r); if w.chars().count() >= 5 && w.chars().all(|c| c.is_alphabetic()) { break w; } };
    let ext: String = format!("{}{}", w, (0..3).map(|_| *r.pick(&v.letters)).collect::<String>());
    let other = v.word(r);
    let swapped: String = { let mut cs: Vec<char> = ext.chars().collect(); cs.swap(1, 2); let n = cs.len(); cs.swap(n - 3, n - 2); cs.into_iter().collect() };
    let titles = vec![format!("{} {}", w, other), format!("{} {}", w, w), format!("{} {}", w, ext), ext.clone(), format!("{} {}", other, w)];
    let mut ops = vec![Op::New, Op::Limit(1)];
    for (i, t) in titles.iter().enumerate() { ops.push(Op::Add(100 + i, 50 - 7 * i, t.clone())); }
    let queries = vec![format!("{} {}", w, w), format!("{} {}", w, ext), swapped, format!("{} {} ", ext, w), w.clone()];
    for q in &queries { ops.push(Op::Search(q.clone())); }
    ops.push(Op::Limit(10));
    for q in &queries { ops.push(Op::Search(q.clone())); }
    Case { name, lang: code.to_string(), stream: "F-store-repeated-words", ops }
}

pub fn store_cases(code: &str, r: &mut Rng, n: usize) -> Vec<Case> {
    let v = vocab(code);
    let mut cases = vec![];
    let li = LANGS.iter().position(|l| *l == code).unwrap_or(0);
    cases.push(long_title_case(code, &v, r, format!("long-title-{}", code), li % 3));
    cases.push(long_title_case(code, &v, r, format!("long-title2-{}", code), (li + 1) % 3));
    cases.push(repeated_words_case(code, &v, r, format!("repeated-{}", code)));
    for i in 0..n {
        if i % 2 == 0 { cases.push(typing_case(code, &v, r, format!("typing-{}-{}", code, i))); }
        cases.push(relatives_case(code, &v, r, format!("relatives-{}-{}", code, i)));
        if i % 6 == 5 && i % 12 == 11 { cases.push(big_hit_case(code, r, format!("store-{}-{}", code, i))); continue; }
        let o = match i % 6 {
            0 => StoreGenOpts { max_records: 6, ops: 12, ties: false, small_alphabet: false, cache_stress: false },
            1 => StoreGenOpts { max_records: 25, ops: 10, ties: false, small_alphabet: false, cache_stress: false },
            2 => StoreGenOpts { max_records: 12, ops: 10, ties: true, small_alphabet: false, cache_stress: false },
            3 => StoreGenOpts { max_records: 45, ops: 8, ties: true, small_alphabet: true, cache_stress: false },
            4 => StoreGenOpts { max_records: 6, ops: 16, ties: true, small_alphabet: false, cache_stress: true },
            _ => StoreGenOpts { max_records: 4, ops: 25, ties: false, small_alphabet: false, cache_stress: false },
        };
        cases.push(store_case(code, &v, r, format!("store-{}-{}", code, i), &o));
    }
    cases
}

pub fn reg_cases(r: &mut Rng, n: usize) -> Vec<Case> {
    let vocabs: Vec<Vocab> = LANGS.iter().map(|l| vocab(l)).collect();
    let mut cases = vec![];
    for i in 0..n {
        let base = 100000 + (i % 7) * 10;     // ids are process-global in the real registry
        let mut ops = vec![];
        let mut live: Vec<(usize, usize)> = vec![];   // (id, lang index)
        let mut rid = 1;
        let mut used: Vec<usize> = vec![];
        let mut titles: Vec<(usize, String)> = vec![];
        for _ in 0..r.range(6, 40) {
            let can_use = !live.is_empty();
            match r.below(12) {
                0 | 1 if live.len() < 3 => {
                    let id = base + r.below(4);
                    if live.iter().any(|e| e.0 == id) { continue; }
                    let li = if r.chance(1, 2) { 0 } else { r.below(LANGS.len()) };
                    live.push((id, li)); ops.push(Op::RCreate(id, LANGS[li].to_string()));
                }
                2 if can_use && r.chance(1, 3) => { let k = r.below(live.len()); let (id, _) = live.remove(k); titles.retain(|e| e.0 != id); ops.push(Op::RDestroy(id)); }
                3 if can_use && r.chance(1, 6) => { let (id, _) = *r.pick(&live); titles.retain(|e| e.0 != id); ops.push(Op::RClear(id)); }
                3 if can_use => { let (id, _) = *r.pick(&live); ops.push(Op::RLimit(id, *r.pick(&[0usize, 1, 2, 3, 10, 11, 25, 100, 95, 60, 55, 40, 1000, 999, 12, 100, 95]))); }
                4 if can_use => { let (id, _) = *r.pick(&live); let (a, b) = r.pick(&[("[", "]"), ("{{", "}}"), ("", ""), ("<", ">")]).clone(); ops.push(Op::RMarkers(id, a.to_string(), b.to_string())); }
                5 | 6 | 7 if can_use => {
                    let (id, li) = *r.pick(&live);
                    if titles.iter().filter(|e| e.0 == id).count() >= 9 { continue; }   // stay below the 10*limit candidate cap: no cap ties
                    let t = vocabs[li].title(r);
                    // sometimes the same title goes into every live store (stores of different languages then hold the same text)
                    let targets: Vec<usize> = if r.chance(1, 3) { live.iter().map(|e| e.0).filter(|i| titles.iter().filter(|e| e.0 == *i).count() < 9).collect() } else { vec![id] };
                    for tid in targets {
                        let rating = loop { let x = r.below(1 << 20); if !used.contains(&x) { used.push(x); break x; } };
                        titles.push((tid, t.clone()));
                        ops.push(Op::RAdd(tid, rid, rating, t.clone())); rid += 1;
                    }
                }
                8 | 9 | 10 if can_use => {
                    let (id, li) = *r.pick(&live);
                    let mine: Vec<&String> = titles.iter().filter(|e| e.0 == id).map(|e| &e.1).collect();
                    let q = if mine.is_empty() || r.chance(1, 5) { r.pick(&["", " ", "a"]).to_string() } else { let t = (*r.pick(&mine)).clone(); query_for(&vocabs[li], r, &t) };
                    // sometimes the same query string is sent to every live store back to back
                    if r.chance(1, 3) { for (other, _) in &live { ops.push(Op::RSearch(*other, q.clone())); } } else { ops.push(Op::RSearch(id, q)); }
                    for (other, _) in &live { ops.push(Op::RResults(*other)); }
                }
                _ if can_use => { let (id, _) = *r.pick(&live); ops.push(Op::RResults(id)); }
                _ => {}
            }
        }
        for (id, _) in &live { ops.push(Op::RResults(*id)); }
        cases.push(Case { name: format!("reg-{}", i), lang: "none".to_string(), stream: "F-registry", ops });
    }
    cases
}
